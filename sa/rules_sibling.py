"""C06: the LibYAML back-end is a drop-in replacement (binding-side sibling rules + Python-side grammar oracle).

Every rule here states facts about the resolved program: variables are found by their role (the parameter at position i,
the local that receives the constructed node, the counter that is initialised to 0 and incremented once per iteration),
conditions are evaluated on the short-circuit CFG under small abstract "worlds" (which enum member, which next token,
which distance), and the two siblings are compared with each other feature by feature.
"""
import ast
import re

from . import astutil as A
from . import match as M
from .cfg import CFG, own_exprs
from .srcmodel import AnalysisError, ClassInfo, norm, walk_function

PAIRS_LOADERS = [('loader.BaseLoader', 'cyaml.CBaseLoader'), ('loader.SafeLoader', 'cyaml.CSafeLoader'),
                 ('loader.FullLoader', 'cyaml.CFullLoader'), ('loader.UnsafeLoader', 'cyaml.CUnsafeLoader'),
                 ('loader.Loader', 'cyaml.CLoader')]
PAIRS_DUMPERS = [('dumper.BaseDumper', 'cyaml.CBaseDumper'), ('dumper.SafeDumper', 'cyaml.CSafeDumper'),
                 ('dumper.Dumper', 'cyaml.CDumper')]
FRONT = {'reader.Reader', 'scanner.Scanner', 'parser.Parser', 'composer.Composer'}
BACK = {'emitter.Emitter', 'serializer.Serializer'}


# ------------------------------------------------------------------------------------------------
# small role-finding helpers shared by the rules

def _nm(ident):
    return ast.Name(id=ident, ctx=ast.Load())


def _dump(n):
    """structural identity of an expression, independent of load/store context."""
    return ast.dump(n).replace('ctx=Store()', 'ctx=Load()').replace('ctx=Del()', 'ctx=Load()')


def _is_self_attr(e, attr=None):
    return isinstance(e, ast.Attribute) and isinstance(e.value, ast.Name) and e.value.id == 'self' \
        and (attr is None or e.attr == attr)


def _is_self_call(c, names):
    """c is the call `self.<name>(...)` with name in names."""
    return isinstance(c, ast.Call) and _is_self_attr(c.func) and c.func.attr in names


def _is_none(e):
    return isinstance(e, ast.Constant) and e.value is None


def _param(f, i, what):
    if len(f.params) <= i:
        raise AnalysisError('%s: expected a parameter at position %d (%s)' % (f.qualname, i, what))
    return f.params[i]


def _cfg_nodes_where(cfg, pred):
    """CFG nodes at which an expression satisfying pred is evaluated."""
    out = []
    for n in cfg.nodes:
        if n.ast is None:
            continue
        if any(pred(x) for x in own_exprs(n)):
            out.append(n)
    return out


def _succs(cfg, n):
    return [m for (m, lab) in cfg.succ[n]]


def _decide_identity(repo, mod, test):
    """value of `A is B` / `A == B` (and negations) for two global names bound to classes, else None."""
    if isinstance(test, ast.Compare) and len(test.ops) == 1 and isinstance(test.ops[0], (ast.Is, ast.IsNot, ast.Eq, ast.NotEq)) \
            and isinstance(test.left, ast.Name) and isinstance(test.comparators[0], ast.Name):
        a, b = test.left.id, test.comparators[0].id
        pos = isinstance(test.ops[0], (ast.Is, ast.Eq))
        if a == b:
            return pos
        ra, rb = repo.resolve_name(mod, a), repo.resolve_name(mod, b)
        if ra is not None and rb is not None and ra.kind == 'class' and rb.kind == 'class':
            return (ra.obj is rb.obj) == pos
    return None


def _fold(repo, mod, e):
    """a conditional expression whose test compares two class names (left behind when a helper parametrised by the
    node class is inlined: `event.value if ScalarNode is ScalarNode else None`) is replaced by the arm that is taken."""
    while isinstance(e, ast.IfExp):
        v = _decide_identity(repo, mod, e.test)
        if v is None:
            break
        e = e.body if v else e.orelse
    return e


def _counter_protocol(cfg, name, use):
    """`name` is a position counter for the CFG node `use`: it is 0 the first time `use` is reached and is incremented by one
    between any two visits."""
    inits = [n for n in cfg.nodes if n.kind == 'stmt' and isinstance(n.ast, ast.Assign) and len(n.ast.targets) == 1
             and isinstance(n.ast.targets[0], ast.Name) and n.ast.targets[0].id == name
             and isinstance(n.ast.value, ast.Constant) and n.ast.value.value == 0 and not isinstance(n.ast.value.value, bool)]
    incs = [n for n in cfg.nodes if n.kind == 'stmt' and isinstance(n.ast, ast.AugAssign) and isinstance(n.ast.target, ast.Name)
            and n.ast.target.id == name and isinstance(n.ast.op, ast.Add) and isinstance(n.ast.value, ast.Constant)
            and n.ast.value.value == 1]
    others = [n for n in cfg.nodes if n.kind in ('stmt', 'for') and n not in inits and n not in incs and _stores(n, name)]
    if not inits or not incs or others:
        return False
    if not cfg.guarded(use, nodes=inits):
        return False
    for i in inits:
        # no increment can slip in between the initialisation and the first use
        r = cfg.reach(_succs(cfg, i), blocked=[use])
        if any(x in r for x in incs):
            return False
    # around the loop: from one use to the next, an increment is passed
    return use not in cfg.reach(_succs(cfg, use), blocked=incs + inits)


def _stores(n, name):
    a = n.ast
    if n.kind == 'for':
        return any(isinstance(x, ast.Name) and x.id == name and isinstance(x.ctx, ast.Store) for x in ast.walk(n.stmt.target))
    if isinstance(a, ast.Assign):
        return any(isinstance(x, ast.Name) and x.id == name and isinstance(x.ctx, ast.Store) for t in a.targets for x in ast.walk(t))
    if isinstance(a, (ast.AugAssign, ast.AnnAssign)):
        return isinstance(a.target, ast.Name) and a.target.id == name
    return False


# ------------------------------------------------------------------------------------------------

def _registered_on(repo):
    """classes that receive registrations from module-level statements (`Resolver.add_implicit_resolver(...)`): such a
    class has content of its own although its body is empty."""
    out = set()

    def scan(m, body):
        for st in body:
            if isinstance(st, ast.Expr) and isinstance(st.value, ast.Call) and isinstance(st.value.func, ast.Attribute) \
                    and isinstance(st.value.func.value, ast.Name):
                r = repo.resolve_name(m, st.value.func.value.id)
                if r is not None and r.kind == 'class':
                    out.add(r.obj.qualname)
            elif isinstance(st, (ast.For, ast.While, ast.If, ast.Try, ast.With)):
                for sub in ('body', 'orelse', 'finalbody'):
                    scan(m, getattr(st, sub, None) or [])
                for h in getattr(st, 'handlers', None) or []:
                    scan(m, h.body)
    for m in repo.modules.values():
        scan(m, m.tree.body)
    return out


def _composition(repo, K, dropped, registered):
    """the MRO of K reduced to what matters: classes of the reference inventory that contribute something.  A class that adds
    nothing of its own (class Constructor(UnsafeConstructor): pass) is transparent; so is a private base / mixin that a
    refactoring introduced (its members are seen as members of the inventoried class that inherits it)."""
    out = []
    for k in K.mro_classes()[1:]:
        if k.qualname in repo.new_classes or k.qualname in dropped:
            continue
        if k.methods or k.attrs or k.qualname in registered:
            out.append(k.qualname)
    return out


def _first_inventoried_base(repo, K):
    for k in K.mro_classes()[1:]:
        if k.qualname not in repo.new_classes:
            return k.qualname
    return None


def r_class_composition(ctx, repo):
    rule = ctx.rule('R-CLASS-COMPOSITION', 'each C loader/dumper has the same constructor/representer and resolver classes in its MRO as its '
                                           'Python counterpart, with CParser / CEmitter replacing exactly the front-end / back-end components')
    registered = _registered_on(repo)

    def short(qs):
        return [x.split('.')[-1] for x in qs]
    for pq, cq in PAIRS_LOADERS:
        P, C = repo.cls(pq), repo.cls(cq)
        pm = _composition(repo, P, FRONT, registered)
        cm = _composition(repo, C, {'_yaml.CParser'}, registered)
        replaced = {k.qualname for k in P.mro_classes()[1:] if k.qualname in FRONT}
        if pm == cm and replaced == FRONT and _first_inventoried_base(repo, C) == '_yaml.CParser':
            rule.ok('%s:%d' % (C.module.rel, C.node.lineno), '%s ~ %s: %s' % (C.name, P.name, short(cm)))
        else:
            rule.fail('%s|%s' % (cq, ','.join(cm)), C.module.rel, C.node.lineno, cq,
                      'class %s(%s)' % (C.name, ', '.join(norm(b) for b in C.base_exprs)),
                      '%s composes %s but its Python counterpart %s composes %s: the two back-ends construct different objects '
                      'from the same document' % (cq, short(cm), pq, short(pm)))
    for pq, cq in PAIRS_DUMPERS:
        P, C = repo.cls(pq), repo.cls(cq)
        pm = _composition(repo, P, BACK, registered)
        cm = _composition(repo, C, {'_yaml.CEmitter'} | BACK, registered)
        first = _first_inventoried_base(repo, C)
        if pm == cm and first == '_yaml.CEmitter':
            rule.ok('%s:%d' % (C.module.rel, C.node.lineno), '%s ~ %s: %s, CEmitter first in the MRO' % (C.name, P.name, short(cm)))
        else:
            rule.fail('%s|%s' % (cq, ','.join(cm)), C.module.rel, C.node.lineno, cq,
                      'class %s(%s)' % (C.name, ', '.join(norm(b) for b in C.base_exprs)),
                      '%s composes %s (first base %s) but %s composes %s' % (cq, cm, first, pq, pm))
    # each __init__ initialises every base with an initialiser that resolves to that base's own
    for pq, cq in PAIRS_LOADERS + PAIRS_DUMPERS:
        C = repo.cls(cq)
        init = C.methods.get('__init__')
        if init is None:
            raise AnalysisError('%s defines no __init__: which base initialisers run is not recognised' % cq)
        called = set()
        for c in A.func_calls(init.node):
            if isinstance(c.func, ast.Attribute) and c.func.attr == '__init__':
                r = repo.resolve_expr(init.module, c.func.value)
                if r is not None and r.kind == 'class':
                    found = repo.lookup(r.obj, '__init__')
                    if found:
                        called.add(found[1])
        for b in C.bases:
            if isinstance(b, ClassInfo):
                found = repo.lookup(b, '__init__')
                if found and found[1] not in called and b.qualname == 'serializer.Serializer' \
                        and _first_inventoried_base(repo, C) == '_yaml.CEmitter':
                    # Serializer is shadowed entirely by CEmitter (which precedes it in the MRO): its state is never used
                    pub = [m for m in b.methods if not m.startswith('_') and m not in ('anchor_node', 'generate_anchor', 'serialize_node')]
                    if all(repo.lookup(C, m)[0].qualname == '_yaml.CEmitter' for m in pub):
                        rule.ok(init.loc(), '%s: Serializer.%s are all overridden by CEmitter, its initialiser is not needed'
                                % (C.name, '/'.join(pub)))
                        continue
                if found and found[1] not in called:
                    rule.fail('%s|init|%s' % (cq, b.name), C.module.rel, init.node.lineno, init.qualname, '%s.__init__' % b.name,
                              '%s.__init__ never runs the initialiser of %s' % (C.name, b.name))
                elif found:
                    rule.ok(init.loc(), '%s runs %s' % (C.name, found[1].qualname))
    return rule


# ------------------------------------------------------------------------------------------------

STYLE_CHARS = {'YAML_PLAIN_SCALAR_STYLE': '', 'YAML_SINGLE_QUOTED_SCALAR_STYLE': "'", 'YAML_DOUBLE_QUOTED_SCALAR_STYLE': '"',
               'YAML_LITERAL_SCALAR_STYLE': '|', 'YAML_FOLDED_SCALAR_STYLE': '>'}
FLOW_STYLE = re.compile(r'YAML_(FLOW|BLOCK)_(SEQUENCE|MAPPING)_STYLE')
STYLE_SITES_MIN = 15       # 31 sites confirmed by reading (15 scalar decode, 8 scalar encode, 8 collection decode)


def _enum_compare(test, members):
    """(member, positive?) when the atomic test compares something with one libyaml enum member, else None."""
    if isinstance(test, ast.Compare) and len(test.ops) == 1 and isinstance(test.ops[0], (ast.Eq, ast.NotEq, ast.Is, ast.IsNot)):
        for side in (test.comparators[0], test.left):
            if isinstance(side, ast.Name) and side.id in members:
                return side.id, isinstance(test.ops[0], (ast.Eq, ast.Is))
    return None


def _camel(member, suffix):
    core = member[len('YAML_'):-len(suffix)]
    return ''.join(p.capitalize() for p in core.lower().split('_'))


def _returned_constructors(live, ret):
    """names of the callables whose result `ret` hands back ('None' for a literal None); None when not recognised."""
    v = ret.ast.value
    if v is None or _is_none(v):
        return {'None'}
    if isinstance(v, ast.Call):
        return {norm(v.func)}
    if isinstance(v, ast.Name):
        out = set()
        for n in live:
            if n.kind == 'stmt' and isinstance(n.ast, ast.Assign) and any(isinstance(t, ast.Name) and t.id == v.id for t in n.ast.targets):
                if isinstance(n.ast.value, ast.Call):
                    out.add(norm(n.ast.value.func))
                elif _is_none(n.ast.value):
                    out.add('None')
                else:
                    return None
        return out or None
    return None


def _style_literals(test):
    """the style characters an encoder branch stands for: test is `<x> == 'c'`, `<x> in ('c', ...)` or an `or` of such
    comparisons of one and the same <x>; None for any other test."""
    parts = test.values if isinstance(test, ast.BoolOp) and isinstance(test.op, ast.Or) else [test]
    subjects, lits = set(), set()
    for c in parts:
        if not (isinstance(c, ast.Compare) and len(c.ops) == 1):
            return None
        op, right = c.ops[0], c.comparators[0]
        if isinstance(op, ast.Eq) and A.const_str(right) is not None:
            lits.add(A.const_str(right))
        elif isinstance(op, ast.In) and isinstance(right, (ast.Tuple, ast.List, ast.Set)) and right.elts \
                and all(A.const_str(e) is not None for e in right.elts):
            lits |= {A.const_str(e) for e in right.elts}
        else:
            return None
        subjects.add(_dump(c.left))
    return lits if len(subjects) == 1 else None


def _literal_outcome(stmts):
    """what a branch gives to the translated style: yields (value node, target name or None) for the `name = <literal or
    constant name>` / `return <literal or constant name>` statements of the branch (straight-line statements only)."""
    for s in stmts:
        if isinstance(s, ast.Assign) and len(s.targets) == 1 and isinstance(s.targets[0], ast.Name) \
                and isinstance(s.value, (ast.Constant, ast.Name)):
            yield s.value, s.targets[0].id
        elif isinstance(s, ast.Return) and isinstance(s.value, (ast.Constant, ast.Name)):
            yield s.value, None


def r_codec_exhaustive(ctx, repo):
    rule = ctx.rule('R-CODEC-EXHAUSTIVE', 'the token/event codecs of the binding have one branch per libyaml enum member, each building the '
                                          'Python class of the same name; scalar/collection style constants map to the same style values '
                                          'everywhere')
    P = repo.cls('_yaml.CParser')
    E = repo.cls('_yaml.CEmitter')
    enums = repo.pxd_enums
    for fname, enum, suffix, clssuffix in (('_token_to_object', 'yaml_token_type_t', '_TOKEN', 'Token'),
                                           ('_event_to_object', 'yaml_event_type_t', '_EVENT', 'Event')):
        f = P.methods.get(fname)
        if f is None:
            raise AnalysisError('CParser.%s has vanished' % fname)
        members = enums.get(enum)
        if not members:
            raise AnalysisError('enum %s not found in _yaml.pxd' % enum)
        cfg = CFG(f.node)
        tested = {}
        for n in cfg.nodes:
            if n.kind == 'test':
                ec = _enum_compare(n.ast, members)
                if ec:
                    tested.setdefault(ec[0], n)
        for m in members:
            if m not in tested:
                rule.fail('%s|missing|%s' % (f.qualname, m), f.module.rel, f.node.lineno, f.qualname, m,
                          '%s has no branch for %s: that %s falls through to "unknown %s type" (ValueError) in the C back-end'
                          % (fname, m, clssuffix.lower(), clssuffix.lower()))
                continue
            node = tested[m]
            if m in ('YAML_NO_TOKEN', 'YAML_NO_EVENT'):
                want = 'None'
            elif m in ('YAML_VERSION_DIRECTIVE_TOKEN', 'YAML_TAG_DIRECTIVE_TOKEN'):
                want = 'DirectiveToken'
            else:
                want = _camel(m, suffix) + clssuffix

            # what the codec can return when the type field holds exactly this member
            def atom(t, m=m):
                ec = _enum_compare(t, members)
                if ec is None:
                    return None
                return (ec[0] == m) == ec[1]
            live = A.cfg_reach_under(cfg, atom)
            rets = [n for n in live if n.kind == 'return']
            built = set()
            recognised = True
            for r in rets:
                got = _returned_constructors(live, r)
                if got is None:
                    recognised = False
                else:
                    built |= got
            if rets and recognised and built == {want}:
                rule.ok(f.loc(node.ast), '%s -> %s' % (m, want))
            else:
                rule.fail('%s|class|%s' % (f.qualname, m), f.module.rel, node.lineno, f.qualname, norm(node.ast),
                          'the branch for %s does not return a %s%s' % (m, want, (' (it returns %s)' % sorted(built)) if built else ''))
    f = E.methods.get('_object_to_event')
    if f is None:
        raise AnalysisError('CEmitter._object_to_event has vanished')
    classes = [c.name for c in repo.modules['events'].classes.values()
               if not c.name.startswith('Collection') and c.name not in ('Event', 'NodeEvent')]
    dispatched = set()
    for n in walk_function(f.node):
        if isinstance(n, ast.Compare) and len(n.ops) == 1 and isinstance(n.ops[0], (ast.Is, ast.Eq)):
            for side in (n.left, n.comparators[0]):
                if isinstance(side, ast.Name):
                    dispatched.add(side.id)
        elif isinstance(n, ast.Call) and isinstance(n.func, ast.Name) and n.func.id == 'isinstance' and len(n.args) == 2:
            for x in ast.walk(n.args[1]):
                if isinstance(x, ast.Name):
                    dispatched.add(x.id)
    for cname in classes:
        if cname in dispatched:
            rule.ok(f.loc(), '_object_to_event handles %s' % cname)
        else:
            rule.fail('%s|missing|%s' % (f.qualname, cname), f.module.rel, f.node.lineno, f.qualname, cname,
                      '_object_to_event has no branch for %s: emitting that event through a C dumper raises TypeError' % cname)
    # style constants, wherever they are translated (in the codecs themselves or in a helper they share)
    n_style = 0
    for fn in repo.all_functions(['_yaml']):
        for n in walk_function(fn.node):
            if not isinstance(n, ast.If):
                continue
            t = n.test
            cmp_const = t.comparators[0].id if (isinstance(t, ast.Compare) and len(t.ops) == 1 and isinstance(t.ops[0], ast.Eq)
                                                and isinstance(t.comparators[0], ast.Name)) else None
            # decode direction: <field> == CONST  ->  the style character of the Python back-end
            if cmp_const in STYLE_CHARS:
                const = cmp_const
                for value, _tgt in _literal_outcome(n.body):
                    if not isinstance(value, ast.Constant) or not isinstance(value.value, str):
                        continue
                    n_style += 1
                    v = value.value
                    if v == STYLE_CHARS[const]:
                        rule.ok(fn.loc(n), '%s decodes %s as %r' % (fn.name, const, v))
                    else:
                        rule.fail('%s|style-decode|%s' % (fn.qualname, const), fn.module.rel, n.lineno, fn.qualname, norm(n.test),
                                  '%s is decoded as style %r; the Python back-end uses %r' % (const, v, STYLE_CHARS[const]))
                    break
            # collection styles: <field> == YAML_FLOW_*_STYLE -> flow_style True, YAML_BLOCK_*_STYLE -> False
            elif cmp_const is not None and FLOW_STYLE.fullmatch(cmp_const):
                const = cmp_const
                for value, _tgt in _literal_outcome(n.body):
                    if not isinstance(value, ast.Constant) or not isinstance(value.value, bool):
                        continue
                    n_style += 1
                    want = const.startswith('YAML_FLOW')
                    if value.value is want:
                        rule.ok(fn.loc(n), '%s: %s -> flow_style=%s' % (fn.name, const, want))
                    else:
                        rule.fail('%s|flow|%s' % (fn.qualname, const), fn.module.rel, n.lineno, fn.qualname, norm(n.test),
                                  '%s is decoded as flow_style=%s' % (const, norm(value)))
                    break
            # encode direction: <style object> == 'c' [or ...]  ->  CONST
            else:
                consts = [value.id for value, _tgt in _literal_outcome(n.body) if isinstance(value, ast.Name) and value.id in STYLE_CHARS]
                if not consts:
                    continue
                lits = _style_literals(n.test)
                if not lits:
                    continue        # not a comparison of one style object with style characters
                n_style += 1
                if lits == {STYLE_CHARS[consts[0]]}:
                    rule.ok(fn.loc(n), '%s encodes %r as %s' % (fn.name, STYLE_CHARS[consts[0]], consts[0]))
                else:
                    rule.fail('%s|style-encode|%s' % (fn.qualname, consts[0]), fn.module.rel, n.lineno, fn.qualname, norm(n.test),
                              'the style %s is encoded as %s; the decoders map that constant to %r'
                              % (sorted(lits), consts[0], STYLE_CHARS[consts[0]]))
    if n_style < STYLE_SITES_MIN:
        raise AnalysisError('style constant sites: %d found, at least %d expected (31 confirmed by reading)' % (n_style, STYLE_SITES_MIN))
    return rule


# ------------------------------------------------------------------------------------------------
# composer siblings

def _node_construction(f, kind):
    """(name of the local that receives `Kind(...)`, the constructor call) in f."""
    found = []
    for n in walk_function(f.node):
        if isinstance(n, ast.Assign) and len(n.targets) == 1 and isinstance(n.targets[0], ast.Name) \
                and isinstance(n.value, ast.Call) and isinstance(n.value.func, ast.Name) and n.value.func.id == kind:
            found.append((n.targets[0].id, n.value))
    if len(found) != 1:
        raise AnalysisError('%s: the construction `node = %s(...)` was not recognised (%d candidates)' % (f.qualname, kind, len(found)))
    return found[0]


def _ctor_arg(ctor, i, kw):
    """argument i of a node constructor call (Node(tag, value, ...)), positional or by keyword; None when absent."""
    if len(ctor.args) > i:
        return ctor.args[i]
    for k in ctor.keywords:
        if k.arg == kw:
            return k.value
    return None


def _resolve_calls(f, kind):
    return [c for c in A.func_calls(f.node) if _is_self_call(c, ('resolve',)) and c.args
            and isinstance(c.args[0], ast.Name) and c.args[0].id == kind]


def _tag_sources(f, ctor):
    """structural identities of the expressions that denote the event's tag in f: the local handed to the node constructor
    as its tag and what that local is read from (`tag = event.tag`, `tag = PyUnicode_FromYamlString(<field>.tag)`)."""
    tag = _ctor_arg(ctor, 0, 'tag')
    if not isinstance(tag, ast.Name):
        raise AnalysisError('%s: the tag argument of the node constructor is not a local variable' % f.qualname)
    var = tag.id
    keys = {_dump(tag)}
    for n in walk_function(f.node):
        if isinstance(n, ast.Assign) and any(isinstance(t, ast.Name) and t.id == var for t in n.targets):
            v = n.value
            if isinstance(v, ast.Call) and not _is_self_call(v, ('resolve',)) and len(v.args) == 1:
                v = v.args[0]
            if isinstance(v, (ast.Attribute, ast.Name)):
                keys.add(_dump(v))
    return keys


# the tag of the event in the four situations that matter: no tag at all, the non-specific tag "!", an ordinary tag, a
# local tag that merely starts with "!"
TAG_WORLDS = (None, '!', 'tag:yaml.org,2002:str', '!local')


def _tag_atom(test, keys, tag):
    """value of an atomic test about the event's tag when the tag is `tag` (None: absent): True / False; None when the test
    is not about the tag (or would not be evaluated for that tag); 'other' when it mentions the tag in a form that is not
    understood."""
    def mentions(e):
        return any(_dump(x) in keys for x in ast.walk(e) if isinstance(x, ast.expr))
    if not mentions(test):
        return None
    if _dump(test) in keys:                     # truthiness of the tag itself
        return bool(tag)
    if isinstance(test, ast.Compare) and len(test.ops) == 1:
        op, left, right = test.ops[0], test.left, test.comparators[0]
        if mentions(right) and not mentions(left) and isinstance(op, (ast.Is, ast.IsNot, ast.Eq, ast.NotEq)):
            left, right = right, left
        if mentions(right):
            return 'other'
        # what the left-hand side denotes
        if _dump(left) in keys:
            subject = ('tag', tag)
        elif isinstance(left, ast.Subscript) and _dump(left.value) in keys and isinstance(left.slice, ast.Constant) \
                and isinstance(left.slice.value, int) and 0 <= left.slice.value <= 1:
            if tag is None:
                return None                     # a character of an absent tag is never looked at
            subject = ('char', (tag + '\x00')[left.slice.value])     # C string: the terminator follows the last character
        else:
            return 'other'
        # what it is compared with
        if isinstance(right, ast.Name) and right.id == 'NULL':
            const = [None]
        elif isinstance(right, ast.Constant):
            const = [0 if (subject[0] == 'char' and right.value == '\x00') else right.value]
        elif isinstance(right, (ast.Tuple, ast.List, ast.Set)) and all(isinstance(e, ast.Constant) for e in right.elts):
            const = [e.value for e in right.elts]
        else:
            return 'other'
        value = subject[1]
        if subject[0] == 'char' and value == '\x00':
            value = 0
        if isinstance(op, (ast.Is, ast.Eq)):
            return value == const[0] if len(const) == 1 and not isinstance(right, (ast.Tuple, ast.List, ast.Set)) else 'other'
        if isinstance(op, (ast.IsNot, ast.NotEq)):
            return value != const[0] if len(const) == 1 and not isinstance(right, (ast.Tuple, ast.List, ast.Set)) else 'other'
        if isinstance(op, ast.In) and isinstance(right, (ast.Tuple, ast.List, ast.Set)):
            return value in const
        if isinstance(op, ast.NotIn) and isinstance(right, (ast.Tuple, ast.List, ast.Set)):
            return value not in const
    return 'other'


def _resolves_exactly_nonspecific(f, kind, ctor):
    """self.resolve(Kind, ...) is reached exactly when the event has no tag or the tag "!" (evaluated on the CFG)."""
    keys = _tag_sources(f, ctor)
    cfg = CFG(f.node)
    sites = _cfg_nodes_where(cfg, lambda x: _is_self_call(x, ('resolve',)) and x.args and isinstance(x.args[0], ast.Name)
                             and x.args[0].id == kind)
    if not sites:
        return False
    for tag in TAG_WORLDS:
        def atom(t, tag=tag):
            v = _tag_atom(t, keys, tag)
            if v == 'other':
                raise AnalysisError('%s: test on the tag not recognised: %s' % (f.qualname, norm(t)[:80]))
            return v
        live = A.cfg_reach_under(cfg, atom)
        reached = any(s in live for s in sites)
        if reached != (tag in (None, '!')):
            return False
    return True


def _features_composer(repo, K, names):
    """feature signature of a composer implementation (each feature a fact about the resolved code, found by role)."""
    cn, sc, sq, mp, doc = names
    feats = {}
    f = K.methods[cn]
    parent, index = _param(f, 1, 'parent'), _param(f, 2, 'index')
    env = {'_N_p': _nm(parent), '_N_i': _nm(index)}
    cfg = CFG(f.node)
    live = cfg.reachable()
    absent, present = [], []
    for n in cfg.nodes:
        t = n.ast
        if n.kind == 'test' and isinstance(t, ast.Compare) and len(t.ops) == 1 and isinstance(t.ops[0], (ast.In, ast.NotIn)) \
                and _is_self_attr(t.comparators[0], 'anchors'):
            isin = isinstance(t.ops[0], ast.In)
            present.append((n, isin))
            absent.append((n, not isin))
    raises = [n for n in cfg.nodes if n.kind == 'raise' and n in live and isinstance(n.ast, ast.Raise)
              and isinstance(n.ast.exc, ast.Call) and norm(n.ast.exc.func).split('.')[-1] == 'ComposerError']
    feats['undefined alias -> ComposerError'] = bool(absent) and any(cfg.guarded(r, edges=absent) for r in raises)
    feats['duplicate anchor -> ComposerError'] = bool(present) and any(cfg.guarded(r, edges=present) for r in raises)
    descends = _cfg_nodes_where(cfg, lambda x: isinstance(x, ast.Call) and M.match(M.compile_pattern('self.descend_resolver(_N_p, _N_i)')[1],
                                                                                  x, dict(env)))
    ascends = _cfg_nodes_where(cfg, lambda x: isinstance(x, ast.Call) and M.match(M.compile_pattern('self.ascend_resolver()')[1], x, {}))
    children = _cfg_nodes_where(cfg, lambda x: _is_self_call(x, (sc, sq, mp)))
    feats['descend(parent, index) / ascend bracket'] = bool(descends) and bool(ascends) and bool(children) and \
        all(cfg.guarded(c, nodes=descends) for c in children) and \
        all(not cfg.paths_to_normal_exit_avoiding(_succs(cfg, c), ascends) for c in children)

    # scalar
    g = K.methods[sc]
    anchor = _param(g, 1, 'anchor')
    var, ctor = _node_construction(g, 'ScalarNode')
    value_arg = _ctor_arg(ctor, 1, 'value')
    value_arg = _fold(repo, g.module, value_arg) if value_arg is not None else None
    feats['scalar: resolve(ScalarNode, value, (plain, quoted))'] = value_arg is not None and not _is_none(value_arg) and any(
        len(c.args) == 3 and _dump(_fold(repo, g.module, c.args[1])) == _dump(value_arg) for c in _resolve_calls(g, 'ScalarNode'))
    feats['scalar: anchor stored'] = M.has(g.node, 'self.anchors[_N_a] = _N_n', {'_N_a': _nm(anchor), '_N_n': _nm(var)})
    feats['scalar: resolved exactly when the tag is absent or "!"'] = _resolves_exactly_nonspecific(g, 'ScalarNode', ctor)

    # collections
    ctors = {}
    for nm, kind, label in ((sq, 'SequenceNode', 'sequence'), (mp, 'MappingNode', 'mapping')):
        h = K.methods[nm]
        anchor = _param(h, 1, 'anchor')
        var, ctor = _node_construction(h, kind)
        ctors[nm] = (var, ctor)
        feats['%s: resolve(%s, None, implicit)' % (label, kind)] = any(
            len(c.args) == 3 and _is_none(_fold(repo, h.module, c.args[1])) for c in _resolve_calls(h, kind))
        feats['%s: anchor stored' % label] = M.has(h.node, 'self.anchors[_N_a] = _N_n', {'_N_a': _nm(anchor), '_N_n': _nm(var)})
        feats['%s: resolved exactly when the tag is absent or "!"' % label] = _resolves_exactly_nonspecific(h, kind, ctor)

    def items_of(var, ctor):
        """expressions that denote the item list of the node under construction."""
        out = {_dump(ast.Attribute(value=_nm(var), attr='value', ctx=ast.Load()))}
        items = _ctor_arg(ctor, 1, 'value')
        if isinstance(items, ast.Name):
            out.add(_dump(items))
        return out

    # sequence: every child is composed with (node, position) and appended
    h = K.methods[sq]
    var, ctor = ctors[sq]
    hcfg = CFG(h.node)
    ok = False
    for site in _cfg_nodes_where(hcfg, lambda x: _is_self_call(x, (cn,))):
        for c in own_exprs(site):
            if not (_is_self_call(c, (cn,)) and len(c.args) == 2 and isinstance(c.args[0], ast.Name) and c.args[0].id == var):
                continue
            pos = c.args[1]
            if isinstance(pos, ast.Name) and _counter_protocol(hcfg, pos.id, site):
                ok = True
            elif isinstance(pos, ast.Call) and isinstance(pos.func, ast.Name) and pos.func.id == 'len' and len(pos.args) == 1 \
                    and _dump(pos.args[0]) in items_of(var, ctor):
                ok = True
    feats['sequence: child (node, index)'] = ok

    # mapping: key composed with (node, None), value with (node, key node), the pair appended in that order
    h = K.methods[mp]
    var, ctor = ctors[mp]
    env = {'_N_n': _nm(var)}
    pair = M.find(h.node, '_N_k = self.%s(_N_n, None)\n_N_v = self.%s(_N_n, _N_k)' % (cn, cn), env) or \
        M.find(h.node, '_N_k = self.%s(_N_n, None)\n__l.append((_N_k, self.%s(_N_n, _N_k)))' % (cn, cn), env)
    feats['mapping: key (node, None), value (node, item_key)'] = bool(pair)
    appended = M.find(h.node, '_N_k = self.%s(_N_n, None)\n_N_v = self.%s(_N_n, _N_k)\n__l.append((_N_k, _N_v))' % (cn, cn), env) + \
        M.find(h.node, '_N_k = self.%s(_N_n, None)\n__l.append((_N_k, self.%s(_N_n, _N_k)))' % (cn, cn), env)
    feats['mapping: pairs appended in order'] = any(_dump(e['__l']) in items_of(var, ctor) for n, e in appended)

    feats['document: anchors reset'] = M.any_of(K.methods[doc].node, 'self.anchors = {}', 'self.anchors = dict()', 'self.anchors.clear()')
    return feats


def r_composer_sibling(ctx, repo):
    rule = ctx.rule('R-COMPOSER-SIBLING', 'the Python composer and the composition code of CParser agree feature by feature')
    from .rules_order import COMPOSERS
    sigs = []
    for kq, cn, sc, sq, mp, doc in COMPOSERS:
        K = repo.cls(kq)
        for nm in (cn, sc, sq, mp, doc):
            if nm not in K.methods:
                raise AnalysisError('%s.%s has vanished' % (kq, nm))
        sigs.append((K, _features_composer(repo, K, (cn, sc, sq, mp, doc))))
    (K1, f1), (K2, f2) = sigs
    for feat in f1:
        if f1[feat] and f2[feat]:
            rule.ok('%s / %s' % (K1.module.rel, K2.module.rel), feat)
        else:
            who = K1 if not f1[feat] else K2
            rule.fail('composer-sibling|%s|%s' % (feat, who.name), who.module.rel, who.node.lineno, who.qualname, feat,
                      'the %s composer does not have the feature "%s" that its sibling has: nodes / errors differ between the '
                      'back-ends for documents that exercise it' % ('Python' if who is K1 else 'C', feat))
    return rule


# ------------------------------------------------------------------------------------------------
# serializer siblings

SERIALIZERS = [('serializer.Serializer', 'anchor_node', 'serialize_node', 'generate_anchor'),
               ('_yaml.CEmitter', '_anchor_node', '_serialize_node', None)]


def _anchor_templates(fns):
    """{template string: counter attribute} for every `'<template>' % self.<counter>` in the given functions."""
    out = {}
    for f in fns:
        for n in walk_function(f.node):
            if isinstance(n, ast.BinOp) and isinstance(n.op, ast.Mod) and isinstance(n.left, ast.Constant) \
                    and isinstance(n.left.value, str) and _is_self_attr(n.right):
                out[n.left.value] = n.right.attr
    return out


def _features_serializer(repo, K, names):
    an, sn, gen = names
    feats = {}
    info = {}
    for name in ('open', 'close', 'serialize', an, sn):
        if name not in K.methods:
            raise AnalysisError('%s.%s has vanished' % (K.qualname, name))
    for name in ('open', 'close', 'serialize'):
        f = K.methods[name]
        info['messages:' + name] = sorted(str(A.const_str(c.args[0])) for c in A.func_calls(f.node)
                                          if norm(c.func).split('.')[-1] == 'SerializerError' and c.args)
    # anchors: first visit registers None, the second one numbers the node - once
    f = K.methods[an]
    node = _param(f, 1, 'node')
    env = {'_N_n': _nm(node)}
    cfg = CFG(f.node)
    seen_edges, unseen_edges, unnumbered_edges = [], [], []
    for n in cfg.nodes:
        if n.kind != 'test':
            continue
        for src, pos in (('_N_n in self.anchors', True), ('_N_n not in self.anchors', False)):
            if M.match(M.compile_pattern(src)[1], n.ast, dict(env)):
                seen_edges.append((n, pos))
                unseen_edges.append((n, not pos))
        for src, pos in (('self.anchors[_N_n] is None', True), ('self.anchors[_N_n] is not None', False),
                         ('self.anchors[_N_n] == None', True), ('self.anchors[_N_n] != None', False)):
            if M.match(M.compile_pattern(src)[1], n.ast, dict(env)):
                unnumbered_edges.append((n, pos))
    stores = [(n, e) for n in cfg.nodes if n.kind == 'stmt' and isinstance(n.ast, ast.Assign)
              for _x, e in [M.first([n.ast], 'self.anchors[_N_n] = __v', env)] if e is not None]
    registers = [n for n, e in stores if _is_none(e['__v'])]
    numbers = [n for n, e in stores if not _is_none(e['__v'])]
    feats['first-visit anchor numbering'] = bool(registers) and bool(numbers) and bool(seen_edges) and bool(unnumbered_edges) and \
        all(cfg.guarded(n, edges=unseen_edges) for n in registers) and \
        all(cfg.guarded(n, edges=seen_edges) and cfg.guarded(n, edges=unnumbered_edges) for n in numbers)
    tfns = [K.methods[an]] + ([K.methods[gen]] if gen and gen in K.methods else [])
    templates = _anchor_templates(tfns)
    info['templates'] = sorted(templates)
    counters = set(templates.values())
    feats['anchor counter incremented before it is formatted'] = len(counters) == 1 and any(
        M.has(t.node, 'self.%s += 1' % next(iter(counters))) for t in tfns)

    # serialize_node
    f = K.methods[sn]
    node, parent, index = _param(f, 1, 'node'), _param(f, 2, 'parent'), _param(f, 3, 'index')
    env = {'_N_n': _nm(node), '_N_p': _nm(parent), '_N_i': _nm(index)}
    feats['descend_resolver(parent, index) / ascend'] = M.has(f.node, 'self.descend_resolver(_N_p, _N_i)', env) and \
        M.has(f.node, 'self.ascend_resolver()')
    nenv = {'_N_n': _nm(node)}
    counted = M.find(f.node, 'for _N_it in _N_n.value:\n    self.%s(_N_it, _N_n, _N_c)\n    _N_c += 1' % sn, nenv)
    feats['sequence items serialized as (item, node, index)'] = \
        any(M.has(f.node, '_N_c = 0', {'_N_c': e['_N_c']}) for n, e in counted) or \
        M.has(f.node, 'for (_N_c, _N_it) in enumerate(_N_n.value):\n    self.%s(_N_it, _N_n, _N_c)' % sn, nenv)
    feats['mapping key (key, node, None) / value (value, node, key)'] = M.has(
        f.node, 'for (_N_k, _N_v) in _N_n.value:\n    self.%s(_N_k, _N_n, None)\n    self.%s(_N_v, _N_n, _N_k)' % (sn, sn), nenv)
    feats['scalar implicit = (tag == resolve(.., (True, False)), tag == resolve(.., (False, True)))'] = \
        M.has(f.node, 'self.resolve(ScalarNode, _N_n.value, (True, False))', nenv) and \
        M.has(f.node, 'self.resolve(ScalarNode, _N_n.value, (False, True))', nenv)
    feats['collection implicit = (tag == resolve(Kind, value, True))'] = \
        M.has(f.node, 'self.resolve(SequenceNode, _N_n.value, True)', nenv) and \
        M.has(f.node, 'self.resolve(MappingNode, _N_n.value, True)', nenv)

    # per-document reset
    f = K.methods['serialize']
    def cleared(attr):
        return M.any_of(f.node, 'self.%s = {}' % attr, 'self.%s = dict()' % attr, 'self.%s.clear()' % attr)
    feats['per-document reset of serialized_nodes / anchors / counter'] = cleared('serialized_nodes') and cleared('anchors') and \
        len(counters) == 1 and M.has(f.node, 'self.%s = 0' % next(iter(counters)))
    return feats, info


def r_serializer_sibling(ctx, repo):
    rule = ctx.rule('R-SERIALIZER-SIBLING', 'Serializer and CEmitter agree on state errors, anchor numbering, per-document reset and resolver use')
    sides = []
    for kq, an, sn, gen in SERIALIZERS:
        K = repo.cls(kq)
        sides.append((K,) + _features_serializer(repo, K, (an, sn, gen)))
    (S, fa, ia), (C, fb, ib) = sides
    checks = []
    for name in ('open', 'close', 'serialize'):
        ma, mb = ia['messages:' + name], ib['messages:' + name]
        checks.append(('%s: SerializerError messages %s' % (name, ma), ma == mb and bool(ma), None))
    checks.append(('anchor template %s' % ia['templates'], bool(ia['templates']) and ia['templates'] == ib['templates'], None))
    for feat in fa:
        checks.append((feat, fa[feat] and fb[feat], None if fa[feat] == fb[feat] else ('Serializer' if not fa[feat] else 'CEmitter')))
    for what, ok, who in checks:
        if ok:
            rule.ok('%s / %s' % (S.module.rel, C.module.rel), what)
        else:
            rule.fail('serializer-sibling|%s' % what[:50], S.module.rel, S.node.lineno, 'Serializer / CEmitter', what,
                      'the Python serializer and the C emitter differ on: %s%s' % (what, (' (not so in %s)' % who) if who else ''))
    return rule


# ------------------------------------------------------------------------------------------------
# the simple-key window

class _Unknown(Exception):
    pass


def _window_value(e, dist, line_changed, key, defs, depth=0):
    """value of an integer / boolean expression over the candidate `key` when the current position is `dist` characters
    past the candidate's and the line has (not) changed; raises _Unknown for anything else."""
    if depth > 6:
        raise _Unknown()

    def ev(x):
        return _window_value(x, dist, line_changed, key, defs, depth + 1)
    if isinstance(e, ast.Constant) and isinstance(e.value, (int, bool)):
        return e.value
    if isinstance(e, ast.Attribute) and isinstance(e.value, ast.Name):
        # positions are taken relative to the candidate: key.index = 0, self.index = dist; likewise for the line
        if e.value.id == key and e.attr == 'index':
            return 0
        if e.value.id == 'self' and e.attr == 'index':
            return dist
        if e.value.id == key and e.attr == 'line':
            return 0
        if e.value.id == 'self' and e.attr == 'line':
            return 1 if line_changed else 0
        raise _Unknown()
    if isinstance(e, ast.Name) and e.id in defs and len(defs[e.id]) == 1:
        return ev(defs[e.id][0])
    if isinstance(e, ast.BinOp) and isinstance(e.op, (ast.Add, ast.Sub)):
        a, b = ev(e.left), ev(e.right)
        return a + b if isinstance(e.op, ast.Add) else a - b
    if isinstance(e, ast.UnaryOp) and isinstance(e.op, ast.USub):
        return -ev(e.operand)
    if isinstance(e, ast.UnaryOp) and isinstance(e.op, ast.Not):
        return not ev(e.operand)
    if isinstance(e, ast.BoolOp):
        vals = [ev(v) for v in e.values]
        return all(vals) if isinstance(e.op, ast.And) else any(vals)
    if isinstance(e, ast.Compare):
        left = ev(e.left)
        for op, right in zip(e.ops, e.comparators):
            right = ev(right)
            if isinstance(op, ast.Gt):
                r = left > right
            elif isinstance(op, ast.GtE):
                r = left >= right
            elif isinstance(op, ast.Lt):
                r = left < right
            elif isinstance(op, ast.LtE):
                r = left <= right
            elif isinstance(op, ast.Eq):
                r = left == right
            elif isinstance(op, ast.NotEq):
                r = left != right
            else:
                raise _Unknown()
            if not r:
                return False
            left = right
        return True
    raise _Unknown()


def r_simple_key_limit(ctx, repo):
    rule = ctx.rule('R-SIMPLE-KEY-LIMIT', 'a simple-key candidate survives while the distance to the current position is at most 1024 '
                                          'characters (YAML 1.1: simple keys are limited to 1024 characters; libyaml uses the same bound)')
    f = repo.func('scanner.Scanner.stale_possible_simple_keys')
    # the candidate: the local read from self.possible_simple_keys
    keys = set()
    for n in walk_function(f.node):
        if isinstance(n, ast.Assign) and len(n.targets) == 1 and isinstance(n.targets[0], ast.Name) \
                and isinstance(n.value, ast.Subscript) and _is_self_attr(n.value.value, 'possible_simple_keys'):
            keys.add(n.targets[0].id)
        elif isinstance(n, ast.For) and any(_is_self_attr(x, 'possible_simple_keys') for x in ast.walk(n.iter)) \
                and any(isinstance(x, ast.Attribute) and x.attr in ('values', 'items') for x in ast.walk(n.iter)):
            tgt = n.target.elts[-1] if isinstance(n.target, ast.Tuple) else n.target
            if isinstance(tgt, ast.Name):
                keys.add(tgt.id)
    if len(keys) != 1:
        raise AnalysisError('stale_possible_simple_keys: the candidate read from self.possible_simple_keys was not recognised')
    key = next(iter(keys))
    defs = {}
    for n in walk_function(f.node):
        if isinstance(n, ast.Assign) and len(n.targets) == 1 and isinstance(n.targets[0], ast.Name):
            defs.setdefault(n.targets[0].id, []).append(n.value)
    defs.pop(key, None)
    cfg = CFG(f.node)
    # where a candidate is given up: removed from the table (or, for a required key, reported as an error)
    drops = [n for n in cfg.nodes if n.kind == 'stmt' and (
        (isinstance(n.ast, ast.Delete) and any(isinstance(t, ast.Subscript) and _is_self_attr(t.value, 'possible_simple_keys')
                                               for t in n.ast.targets)) or
        any(isinstance(x, ast.Call) and isinstance(x.func, ast.Attribute) and x.func.attr == 'pop'
            and _is_self_attr(x.func.value, 'possible_simple_keys') for x in own_exprs(n)))]
    if not drops:
        raise AnalysisError('stale_possible_simple_keys: the removal of a stale candidate was not found')

    def mentions_position(t, depth=0):
        return any(isinstance(x, ast.Attribute) and isinstance(x.value, ast.Name) and x.value.id in (key, 'self')
                   and x.attr in ('index', 'line') for x in ast.walk(t)) or \
            (depth < 6 and any(isinstance(x, ast.Name) and x.id in defs and len(defs[x.id]) == 1
                               and mentions_position(defs[x.id][0], depth + 1) for x in ast.walk(t)))
    window_tests = [n for n in cfg.nodes if n.kind == 'test' and mentions_position(n.ast)]
    if not window_tests:
        raise AnalysisError('stale_possible_simple_keys: window test not found')

    def dropped(dist, line_changed):
        def atom(t):
            if not mentions_position(t):
                return None
            try:
                return bool(_window_value(t, dist, line_changed, key, defs))
            except _Unknown:
                raise AnalysisError('stale_possible_simple_keys: window test not understood: %s' % norm(t)[:80])
        live = A.cfg_reach_under(cfg, atom)
        return any(d in live for d in drops)
    bad = []
    for diff, want in ((0, False), (1, False), (1023, False), (1024, False), (1025, True), (5000, True)):
        v = dropped(diff, False)
        if v is not want:
            bad.append((diff, v))
    line_ok = dropped(0, True)
    where = min(window_tests, key=lambda n: n.lineno)
    if not bad and line_ok:
        rule.ok(f.loc(where.stmt), 'candidate kept for distances <= 1024 on the same line, dropped beyond or on a new line')
    else:
        rule.fail('%s|window' % f.qualname, f.module.rel, where.lineno, f.qualname, norm(where.stmt.test)[:80]
                  if hasattr(where.stmt, 'test') else norm(where.ast)[:80],
                  'the simple-key window is not "more than 1024 characters or another line": %s - a key of exactly that width is '
                  'rejected by the Python scanner and accepted by libyaml (or vice versa)'
                  % (', '.join('distance %d -> stale=%s' % b for b in bad) or 'line change does not expire the key'))
    return rule


# ------------------------------------------------------------------------------------------------
# the documented event grammar as an oracle for the parser's empty-node decisions

GRAMMAR = {
    # nonterminal: list of alternatives; an alternative is a list of items; item = (symbol, kind) with kind in '1?*+'
    'stream': [[('STREAM-START', '1'), ('implicit_document', '?'), ('explicit_document', '*'), ('STREAM-END', '1')]],
    'implicit_document': [[('block_node', '1'), ('DOCUMENT-END', '*')]],
    'explicit_document': [[('DIRECTIVE', '*'), ('DOCUMENT-START', '1'), ('block_node@doc', '?'), ('DOCUMENT-END', '*')]],
    'block_node_or_indentless_sequence': [[('ALIAS', '1')], [('properties', '1'), ('block_content_or_indentless', '?')],
                                          [('block_content', '1')], [('indentless_sequence', '1')]],
    'block_content_or_indentless': [[('block_content', '1')], [('indentless_sequence', '1')]],
    'block_node': [[('ALIAS', '1')], [('properties', '1'), ('block_content', '?')], [('block_content', '1')]],
    'block_node@doc': [[('block_node', '1')]],
    'flow_node': [[('ALIAS', '1')], [('properties', '1'), ('flow_content', '?')], [('flow_content', '1')]],
    'properties': [[('TAG', '1'), ('ANCHOR', '?')], [('ANCHOR', '1'), ('TAG', '?')]],
    'block_content': [[('block_collection', '1')], [('flow_collection', '1')], [('SCALAR', '1')]],
    'flow_content': [[('flow_collection', '1')], [('SCALAR', '1')]],
    'block_collection': [[('block_sequence', '1')], [('block_mapping', '1')]],
    'flow_collection': [[('flow_sequence', '1')], [('flow_mapping', '1')]],
    'block_sequence': [[('BLOCK-SEQUENCE-START', '1'), ('block_sequence_entry', '*'), ('BLOCK-END', '1')]],
    'block_sequence_entry': [[('BLOCK-ENTRY', '1'), ('block_node@bseq', '?')]],
    'block_node@bseq': [[('block_node', '1')]],
    'indentless_sequence': [[('indentless_entry', '+')]],
    'indentless_entry': [[('BLOCK-ENTRY', '1'), ('block_node@iseq', '?')]],
    'block_node@iseq': [[('block_node', '1')]],
    'block_mapping': [[('BLOCK-MAPPING-START', '1'), ('block_mapping_entry', '*'), ('BLOCK-END', '1')]],
    'block_mapping_entry': [[('block_mapping_key', '?'), ('block_mapping_value', '?')]],
    'block_mapping_key': [[('KEY', '1'), ('bnois@bkey', '?')]],
    'block_mapping_value': [[('VALUE', '1'), ('bnois@bvalue', '?')]],
    'bnois@bkey': [[('block_node_or_indentless_sequence', '1')]],
    'bnois@bvalue': [[('block_node_or_indentless_sequence', '1')]],
    'flow_sequence': [[('FLOW-SEQUENCE-START', '1'), ('flow_sequence_entries', '1'), ('FLOW-SEQUENCE-END', '1')]],
    'flow_sequence_entries': [[('fs_entry_comma', '*'), ('flow_sequence_entry', '?')]],
    'fs_entry_comma': [[('flow_sequence_entry', '1'), ('FLOW-ENTRY', '1')]],
    'flow_sequence_entry': [[('flow_node', '1')], [('KEY', '1'), ('flow_node@fskey', '?'), ('fs_value', '?')]],
    'fs_value': [[('VALUE', '1'), ('flow_node@fsvalue', '?')]],
    'flow_node@fskey': [[('flow_node', '1')]],
    'flow_node@fsvalue': [[('flow_node', '1')]],
    'flow_mapping': [[('FLOW-MAPPING-START', '1'), ('flow_mapping_entries', '1'), ('FLOW-MAPPING-END', '1')]],
    'flow_mapping_entries': [[('fm_entry_comma', '*'), ('flow_mapping_entry', '?')]],
    'fm_entry_comma': [[('flow_mapping_entry', '1'), ('FLOW-ENTRY', '1')]],
    'flow_mapping_entry': [[('flow_node', '1')], [('KEY', '1'), ('flow_node@fmkey', '?'), ('fm_value', '?')]],
    'fm_value': [[('VALUE', '1'), ('flow_node@fmvalue', '?')]],
    'flow_node@fmkey': [[('flow_node', '1')]],
    'flow_node@fmvalue': [[('flow_node', '1')]],
}
TOKEN_CLASS = {
    'STREAM-END': 'StreamEndToken', 'DIRECTIVE': 'DirectiveToken', 'DOCUMENT-START': 'DocumentStartToken',
    'DOCUMENT-END': 'DocumentEndToken', 'BLOCK-ENTRY': 'BlockEntryToken', 'BLOCK-END': 'BlockEndToken', 'KEY': 'KeyToken',
    'VALUE': 'ValueToken', 'FLOW-ENTRY': 'FlowEntryToken', 'FLOW-SEQUENCE-END': 'FlowSequenceEndToken',
    'FLOW-MAPPING-END': 'FlowMappingEndToken', 'ALIAS': 'AliasToken', 'ANCHOR': 'AnchorToken', 'TAG': 'TagToken',
    'SCALAR': 'ScalarToken', 'BLOCK-SEQUENCE-START': 'BlockSequenceStartToken', 'BLOCK-MAPPING-START': 'BlockMappingStartToken',
    'FLOW-SEQUENCE-START': 'FlowSequenceStartToken', 'FLOW-MAPPING-START': 'FlowMappingStartToken', 'STREAM-START': 'StreamStartToken',
}
# parser function (and the token consumed just before the decision) -> grammar position of the optional node
EMPTY_DECISIONS = {
    ('parse_document_content', None): 'block_node@doc',
    ('parse_block_sequence_entry', 'BlockEntryToken'): 'block_node@bseq',
    ('parse_indentless_sequence_entry', 'BlockEntryToken'): 'block_node@iseq',
    ('parse_block_mapping_key', 'KeyToken'): 'bnois@bkey',
    ('parse_block_mapping_value', 'ValueToken'): 'bnois@bvalue',
    ('parse_flow_sequence_entry_mapping_key', None): 'flow_node@fskey',
    ('parse_flow_sequence_entry_mapping_value', 'ValueToken'): 'flow_node@fsvalue',
    ('parse_flow_mapping_key', 'KeyToken'): 'flow_node@fmkey',
    ('parse_flow_mapping_value', 'ValueToken'): 'flow_node@fmvalue',
}


def follow_sets():
    terms = set(TOKEN_CLASS)
    nullable = {}
    first = {}
    for nt in GRAMMAR:
        nullable[nt] = False
        first[nt] = set()

    def item_nullable(sym, kind):
        if kind in '?*':
            return True
        return sym not in terms and nullable[sym]

    def item_first(sym):
        return {sym} if sym in terms else first[sym]
    changed = True
    while changed:
        changed = False
        for nt, alts in GRAMMAR.items():
            for alt in alts:
                all_null = True
                for sym, kind in alt:
                    f = item_first(sym)
                    if not f <= first[nt]:
                        first[nt] |= f
                        changed = True
                    if not item_nullable(sym, kind):
                        all_null = False
                        break
                if all_null and not nullable[nt]:
                    nullable[nt] = True
                    changed = True
    follow = {nt: set() for nt in GRAMMAR}
    changed = True
    while changed:
        changed = False
        for nt, alts in GRAMMAR.items():
            for alt in alts:
                for i, (sym, kind) in enumerate(alt):
                    if sym in terms:
                        continue
                    fol = set()
                    if kind in '*+':
                        fol |= item_first(sym)
                    rest_null = True
                    for sym2, kind2 in alt[i + 1:]:
                        fol |= item_first(sym2)
                        if not item_nullable(sym2, kind2):
                            rest_null = False
                            break
                    if rest_null:
                        fol |= follow[nt]
                    if not fol <= follow[sym]:
                        follow[sym] |= fol
                        changed = True
    return first, follow


def _token_args(f, call):
    """the token classes named by a check_token(...) call; `*name` is expanded when `name` is a local bound once to a tuple
    of class names (what is left of a helper that received the terminator set as a parameter)."""
    out = []
    for a in call.args:
        if isinstance(a, ast.Starred):
            v = a.value
            if isinstance(v, ast.Name):
                vals = [n.value for n in walk_function(f.node) if isinstance(n, ast.Assign) and len(n.targets) == 1
                        and isinstance(n.targets[0], ast.Name) and n.targets[0].id == v.id]
                if len(vals) != 1:
                    raise AnalysisError('Parser.%s: the token set *%s of check_token is not a single local tuple' % (f.name, v.id))
                v = vals[0]
            if not isinstance(v, (ast.Tuple, ast.List)) or not all(isinstance(e, (ast.Name, ast.Attribute)) for e in v.elts):
                raise AnalysisError('Parser.%s: the token set of %s is not a literal tuple of classes' % (f.name, norm(call)[:60]))
            out.extend(norm(e).split('.')[-1] for e in v.elts)
        elif isinstance(a, (ast.Name, ast.Attribute)):
            out.append(norm(a).split('.')[-1])
        else:
            raise AnalysisError('Parser.%s: argument of %s is not a token class' % (f.name, norm(call)[:60]))
    return out


def _is_check_token(t):
    return isinstance(t, ast.Call) and _is_self_attr(t.func, 'check_token') and bool(t.args)


def _is_node_state_call(x):
    """self.parse_block_node() / parse_flow_node() / parse_block_node_or_indentless_sequence() / parse_node(...)"""
    return isinstance(x, ast.Call) and _is_self_attr(x.func) and x.func.attr.startswith('parse_') and 'node' in x.func.attr


def _decision_outcome(cfg, f, test, token, visited, _depth=0):
    """what the parser does when the look-ahead token is `token`, starting at the check_token test `test` and following
    straight-line code and further check_token tests on the same look-ahead only: 'empty' (process_empty_scalar), 'node' (a
    node state is entered) or None (anything else, including consuming the token)."""
    if _depth > 12:
        return None
    visited.add(test)
    label = token in _token_args(f, test.ast)
    nxt = [m for (m, lab) in cfg.succ[test] if lab is label]
    seen = set()
    while len(nxt) == 1:
        n = nxt[0]
        if n in seen:
            return None
        seen.add(n)
        if n.kind == 'test':
            if _is_check_token(n.ast):
                return _decision_outcome(cfg, f, n, token, visited, _depth + 1)
            return None
        if n.kind not in ('stmt', 'return'):
            return None
        exprs = list(own_exprs(n))
        if any(isinstance(x, ast.Call) and _is_self_attr(x.func, 'get_token') for x in exprs):
            return None             # the look-ahead token is consumed: what follows is about another token
        if any(isinstance(x, ast.Call) and _is_self_attr(x.func, 'process_empty_scalar') for x in exprs):
            return 'empty'
        if any(_is_node_state_call(x) for x in exprs):
            return 'node'
        nxt = [m for (m, lab) in cfg.succ[n] if lab != 'exc']
    return None


def r_parser_lookahead(ctx, repo):
    rule = ctx.rule('R-PARSER-LOOKAHEAD', 'every "empty node" decision of the parser tests exactly the FOLLOW set that the documented '
                                          'event grammar gives for that optional node (LL(1) oracle computed from the grammar)')
    first, follow = follow_sets()
    P = repo.cls('parser.Parser')
    universe = set(TOKEN_CLASS.values())
    for (fname, lead), pos in EMPTY_DECISIONS.items():
        f = P.methods.get(fname)
        if f is None:
            raise AnalysisError('Parser.%s has vanished' % fname)
        want = {TOKEN_CLASS[t] for t in follow[pos]}
        cfg = CFG(f.node)
        live = cfg.reachable()
        checks = [n for n in cfg.nodes if n.kind == 'test' and n in live and _is_check_token(n.ast)]
        # the token that was consumed just before the decision: the decision lies on the True side of check_token(<lead>)
        lead_edges = [(n, True) for n in checks if _token_args(f, n.ast) == [lead]] if lead is not None else []
        sites = []
        for n in checks:
            tokens = universe | {t for c in checks for t in _token_args(f, c.ast)}
            visited = set()
            outcome = {t: _decision_outcome(cfg, f, n, t, visited) for t in tokens}
            if None in outcome.values() or set(outcome.values()) != {'empty', 'node'}:
                continue        # not a choice between "the node is empty" and "parse the node"
            if lead is not None and not (lead_edges and cfg.guarded(n, edges=lead_edges)):
                continue
            sites.append((n, {t for t, o in outcome.items() if o == 'empty'}, visited))
        # a decision spelled as a chain of tests is one decision: keep the test at which it starts
        heads = [(n, got) for n, got, _v in sites if not any(m is not n and n in v for m, _g, v in sites)]
        if len(heads) != 1:
            raise AnalysisError('Parser.%s: empty-node decision not recognised (%d candidates)' % (fname, len(heads)))
        n, got = heads[0]
        if got == want:
            rule.ok(f.loc(n.ast), '%s: empty iff next token in %s' % (fname, sorted(t.replace('Token', '') for t in want)))
        else:
            rule.fail('%s|lookahead|+%s|-%s' % (f.qualname, sorted(got - want), sorted(want - got)), f.module.rel, n.lineno, f.qualname,
                      norm(n.ast)[:90],
                      'the optional node at %s is taken to be empty for %s; the documented grammar gives FOLLOW = %s '
                      '(unexpected %s, missing %s): a document with the missing token after an empty entry is rejected by the '
                      'Python parser although it is grammatical (and accepted by libyaml)'
                      % (pos, sorted(got), sorted(want), sorted(got - want), sorted(want - got)))
    rule.require_min((len(EMPTY_DECISIONS) + 1) // 2, 'empty-node decisions')
    return rule
