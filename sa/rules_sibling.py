"""C06: the LibYAML back-end is a drop-in replacement (binding-side sibling rules + Python-side grammar oracle)."""
import ast
import re

from . import astutil as A
from . import charworld as CW
from .cfg import CFG, own_exprs
from .srcmodel import AnalysisError, ClassInfo, FuncInfo, norm, walk_function

PAIRS_LOADERS = [('loader.BaseLoader', 'cyaml.CBaseLoader'), ('loader.SafeLoader', 'cyaml.CSafeLoader'),
                 ('loader.FullLoader', 'cyaml.CFullLoader'), ('loader.UnsafeLoader', 'cyaml.CUnsafeLoader'),
                 ('loader.Loader', 'cyaml.CLoader')]
PAIRS_DUMPERS = [('dumper.BaseDumper', 'cyaml.CBaseDumper'), ('dumper.SafeDumper', 'cyaml.CSafeDumper'),
                 ('dumper.Dumper', 'cyaml.CDumper')]
FRONT = {'reader.Reader', 'scanner.Scanner', 'parser.Parser', 'composer.Composer'}
BACK = {'emitter.Emitter', 'serializer.Serializer'}


def _substantive(k):
    """a class that adds nothing of its own (class Constructor(UnsafeConstructor): pass) is transparent."""
    return bool(k.methods) or bool(k.attrs)


def r_class_composition(ctx, repo):
    rule = ctx.rule('R-CLASS-COMPOSITION', 'each C loader/dumper has the same constructor/representer and resolver classes in its MRO as its '
                                           'Python counterpart, with CParser / CEmitter replacing exactly the front-end / back-end components')
    for pq, cq in PAIRS_LOADERS:
        P, C = repo.cls(pq), repo.cls(cq)
        pm = [k.qualname for k in P.mro_classes()[1:] if k.qualname not in FRONT and _substantive(k)]
        cm = [k.qualname for k in C.mro_classes()[1:] if k.qualname != '_yaml.CParser' and _substantive(k)]
        replaced = [k.qualname for k in P.mro_classes()[1:] if k.qualname in FRONT]
        if pm == cm and set(replaced) == FRONT and C.mro_classes()[1].qualname == '_yaml.CParser':
            rule.ok('%s:%d' % (C.module.rel, C.node.lineno), '%s ~ %s: %s' % (C.name, P.name, [x.split('.')[-1] for x in cm]))
        else:
            rule.fail('%s|%s' % (cq, ','.join(cm)), C.module.rel, C.node.lineno, cq,
                      'class %s(%s)' % (C.name, ', '.join(norm(b) for b in C.base_exprs)),
                      '%s composes %s but its Python counterpart %s composes %s: the two back-ends construct different objects '
                      'from the same document' % (cq, [x.split('.')[-1] for x in cm], pq, [x.split('.')[-1] for x in pm]))
    for pq, cq in PAIRS_DUMPERS:
        P, C = repo.cls(pq), repo.cls(cq)
        pm = [k.qualname for k in P.mro_classes()[1:] if k.qualname not in BACK and _substantive(k)]
        cm = [k.qualname for k in C.mro_classes()[1:] if k.qualname not in ({'_yaml.CEmitter'} | BACK) and _substantive(k)]
        first = C.mro_classes()[1].qualname
        if pm == cm and first == '_yaml.CEmitter':
            rule.ok('%s:%d' % (C.module.rel, C.node.lineno), '%s ~ %s: %s, CEmitter first in the MRO' % (C.name, P.name, [x.split('.')[-1] for x in cm]))
        else:
            rule.fail('%s|%s' % (cq, ','.join(cm)), C.module.rel, C.node.lineno, cq,
                      'class %s(%s)' % (C.name, ', '.join(norm(b) for b in C.base_exprs)),
                      '%s composes %s (first base %s) but %s composes %s' % (cq, cm, first, pq, pm))
    # each __init__ initialises every base with an initialiser that resolves to that base's own
    for pq, cq in PAIRS_LOADERS + PAIRS_DUMPERS:
        C = repo.cls(cq)
        init = C.methods.get('__init__')
        called = set()
        for c in A.func_calls(init.node):
            if isinstance(c.func, ast.Attribute) and c.func.attr == '__init__':
                r = repo.resolve_expr(init.module, c.func.value)
                if r is not None and r.kind == 'class':
                    found = repo.lookup(r.obj, '__init__')
                    if found:
                        called.add(found[1])
        for b in C.bases:
            if isinstance(b, ClassInfo):
                found = repo.lookup(b, '__init__')
                if found and found[1] not in called and b.qualname == 'serializer.Serializer' \
                        and C.mro_classes()[1].qualname == '_yaml.CEmitter':
                    # Serializer is shadowed entirely by CEmitter (which precedes it in the MRO): its state is never used
                    pub = [m for m in b.methods if not m.startswith('_') and m not in ('anchor_node', 'generate_anchor', 'serialize_node')]
                    if all(repo.lookup(C, m)[0].qualname == '_yaml.CEmitter' for m in pub):
                        rule.ok(init.loc(), '%s: Serializer.%s are all overridden by CEmitter, its initialiser is not needed'
                                % (C.name, '/'.join(pub)))
                        continue
                if found and found[1] not in called:
                    rule.fail('%s|init|%s' % (cq, b.name), C.module.rel, init.node.lineno, init.qualname, '%s.__init__' % b.name,
                              '%s.__init__ never runs the initialiser of %s' % (C.name, b.name))
                elif found:
                    rule.ok(init.loc(), '%s runs %s' % (C.name, found[1].qualname))
    return rule


STYLE_CHARS = {'YAML_PLAIN_SCALAR_STYLE': '', 'YAML_SINGLE_QUOTED_SCALAR_STYLE': "'", 'YAML_DOUBLE_QUOTED_SCALAR_STYLE': '"',
               'YAML_LITERAL_SCALAR_STYLE': '|', 'YAML_FOLDED_SCALAR_STYLE': '>'}


def _enum_branches(f, subject_suffix):
    """{ENUM_MEMBER: [If node]} for tests `<x>.type == ENUM` / `<x> == ENUM` in f."""
    out = {}
    for n in walk_function(f.node):
        if isinstance(n, ast.If) and isinstance(n.test, ast.Compare) and len(n.test.ops) == 1 \
                and isinstance(n.test.ops[0], ast.Eq) and isinstance(n.test.comparators[0], ast.Name) \
                and n.test.comparators[0].id.startswith('YAML_') and norm(n.test.left).endswith(subject_suffix):
            out.setdefault(n.test.comparators[0].id, []).append(n)
    return out


def _camel(member, suffix):
    core = member[len('YAML_'):-len(suffix)]
    return ''.join(p.capitalize() for p in core.lower().split('_'))


def r_codec_exhaustive(ctx, repo):
    rule = ctx.rule('R-CODEC-EXHAUSTIVE', 'the token/event codecs of the binding have one branch per libyaml enum member, each building the '
                                          'Python class of the same name; scalar/collection style constants map to the same style values '
                                          'everywhere')
    P = repo.cls('_yaml.CParser')
    E = repo.cls('_yaml.CEmitter')
    enums = repo.pxd_enums
    for fname, enum, suffix, clssuffix in (('_token_to_object', 'yaml_token_type_t', '_TOKEN', 'Token'),
                                           ('_event_to_object', 'yaml_event_type_t', '_EVENT', 'Event')):
        f = P.methods.get(fname)
        if f is None:
            raise AnalysisError('CParser.%s has vanished' % fname)
        members = enums.get(enum)
        if not members:
            raise AnalysisError('enum %s not found in _yaml.pxd' % enum)
        br = _enum_branches(f, '.type')
        for m in members:
            if m not in br:
                rule.fail('%s|missing|%s' % (f.qualname, m), f.module.rel, f.node.lineno, f.qualname, m,
                          '%s has no branch for %s: that %s falls through to "unknown %s type" (ValueError) in the C back-end'
                          % (fname, m, clssuffix.lower(), clssuffix.lower()))
                continue
            node = br[m][0]
            if m in ('YAML_NO_TOKEN', 'YAML_NO_EVENT'):
                ok = any(isinstance(s, ast.Return) and isinstance(s.value, ast.Constant) and s.value.value is None for s in node.body)
                want = 'None'
            else:
                want = _camel(m, suffix) + clssuffix
                if m == 'YAML_VERSION_DIRECTIVE_TOKEN' or m == 'YAML_TAG_DIRECTIVE_TOKEN':
                    want = 'DirectiveToken'
                rets = [s for s in ast.walk(ast.Module(body=node.body, type_ignores=[])) if isinstance(s, ast.Return)]
                ok = bool(rets) and all(isinstance(r.value, ast.Call) and norm(r.value.func) == want for r in rets)
            if ok:
                rule.ok(f.loc(node), '%s -> %s' % (m, want))
            else:
                rule.fail('%s|class|%s' % (f.qualname, m), f.module.rel, node.lineno, f.qualname, norm(node.test),
                          'the branch for %s does not return a %s' % (m, want))
    f = E.methods.get('_object_to_event')
    classes = [c.name for c in repo.modules['events'].classes.values()
               if not c.name.startswith('Collection') and c.name not in ('Event', 'NodeEvent')]
    txt = norm(f.node)
    for cname in classes:
        if ('event_class is %s' % cname) in txt:
            rule.ok(f.loc(), '_object_to_event handles %s' % cname)
        else:
            rule.fail('%s|missing|%s' % (f.qualname, cname), f.module.rel, f.node.lineno, f.qualname, cname,
                      '_object_to_event has no branch for %s: emitting that event through a C dumper raises TypeError' % cname)
    # style constants
    n_style = 0
    for fn in repo.all_functions(['_yaml']):
        # decode direction: if <x>.style == CONST: style = 'c'
        for n in walk_function(fn.node):
            if isinstance(n, ast.If) and isinstance(n.test, ast.Compare) and len(n.test.ops) == 1 \
                    and isinstance(n.test.comparators[0], ast.Name) and n.test.comparators[0].id in STYLE_CHARS \
                    and norm(n.test.left).endswith('.style'):
                const = n.test.comparators[0].id
                vals = [s.value for s in n.body if isinstance(s, ast.Assign) and norm(s.targets[0]) == 'style']
                if vals:
                    n_style += 1
                    v = A.const_str(vals[0])
                    if v == STYLE_CHARS[const]:
                        rule.ok(fn.loc(n), '%s decodes %s as %r' % (fn.name, const, v))
                    else:
                        rule.fail('%s|style-decode|%s' % (fn.qualname, const), fn.module.rel, n.lineno, fn.qualname, norm(n.test),
                                  '%s is decoded as style %r; the Python back-end uses %r' % (const, v, STYLE_CHARS[const]))
            # encode direction: if style_object == 'c' ...: scalar_style = CONST
            if isinstance(n, ast.If) and 'style_object ==' in norm(n.test):
                consts = [s.value.id for s in n.body if isinstance(s, ast.Assign) and norm(s.targets[0]) == 'scalar_style'
                          and isinstance(s.value, ast.Name)]
                lits = {A.const_str(c.comparators[0]) for c in ast.walk(n.test) if isinstance(c, ast.Compare)}
                if consts:
                    n_style += 1
                    if lits == {STYLE_CHARS.get(consts[0])}:
                        rule.ok(fn.loc(n), '%s encodes %r as %s' % (fn.name, STYLE_CHARS[consts[0]], consts[0]))
                    else:
                        rule.fail('%s|style-encode|%s' % (fn.qualname, consts[0]), fn.module.rel, n.lineno, fn.qualname, norm(n.test),
                                  'the style %s is encoded as %s; the decoders map that constant to %r'
                                  % (sorted(lits), consts[0], STYLE_CHARS.get(consts[0])))
    # flow styles
    for fn in repo.all_functions(['_yaml']):
        for n in walk_function(fn.node):
            if isinstance(n, ast.If) and isinstance(n.test, ast.Compare) and isinstance(n.test.comparators[0], ast.Name) \
                    and re.fullmatch(r'YAML_(FLOW|BLOCK)_(SEQUENCE|MAPPING)_STYLE', n.test.comparators[0].id):
                const = n.test.comparators[0].id
                vals = [s.value for s in n.body if isinstance(s, ast.Assign) and norm(s.targets[0]) == 'flow_style']
                if vals:
                    n_style += 1
                    want = const.startswith('YAML_FLOW')
                    if isinstance(vals[0], ast.Constant) and vals[0].value is want:
                        rule.ok(fn.loc(n), '%s: %s -> flow_style=%s' % (fn.name, const, want))
                    else:
                        rule.fail('%s|flow|%s' % (fn.qualname, const), fn.module.rel, n.lineno, fn.qualname, norm(n.test),
                                  '%s is decoded as flow_style=%s' % (const, norm(vals[0])))
    if n_style < 20:
        raise AnalysisError('style constant sites: %d found, >= 20 confirmed' % n_style)
    return rule


def _features_composer(repo, K, names):
    """feature signature of a composer implementation."""
    cn, sc, sq, mp, doc = names
    feats = {}
    f = K.methods[cn]
    t = norm(f.node)
    feats['undefined alias -> ComposerError'] = 'not in self.anchors' in t and 'ComposerError' in t
    feats['duplicate anchor -> ComposerError'] = ('anchor in self.anchors' in t) and t.count('raise ComposerError') >= 2
    feats['descend(parent, index) / ascend bracket'] = 'self.descend_resolver(parent, index)' in t and 'self.ascend_resolver()' in t
    g = K.methods[sc]
    t = norm(g.node)
    feats['scalar: resolve(ScalarNode, value, (plain, quoted))'] = bool(re.search(r'self\.resolve\(ScalarNode, (event\.)?value, ', t))
    feats['scalar: anchor stored'] = 'self.anchors[anchor] = node' in t
    for nm, kind, label in ((sq, 'SequenceNode', 'sequence'), (mp, 'MappingNode', 'mapping')):
        h = K.methods[nm]
        t = norm(h.node)
        feats['%s: resolve(%s, None, implicit)' % (label, kind)] = bool(re.search(r'self\.resolve\(%s, None, ' % kind, t))
        feats['%s: anchor stored' % label] = 'self.anchors[anchor] = node' in t
    t = norm(K.methods[sq].node)
    feats['sequence: child (node, index)'] = bool(re.search(r'compose_node\(node, index\)', t))
    t = norm(K.methods[mp].node)
    feats['mapping: key (node, None), value (node, item_key)'] = bool(re.search(r'compose_node\(node, None\)', t)) and \
        bool(re.search(r'compose_node\(node, item_key\)', t))
    feats['mapping: pairs appended in order'] = 'append((item_key, item_value))' in t
    t = norm(K.methods[doc].node)
    feats['document: anchors reset'] = 'self.anchors = {}' in t
    return feats


def r_composer_sibling(ctx, repo):
    rule = ctx.rule('R-COMPOSER-SIBLING', 'the Python composer and the composition code of CParser agree feature by feature')
    from .rules_order import COMPOSERS
    sigs = []
    for kq, cn, sc, sq, mp, doc in COMPOSERS:
        K = repo.cls(kq)
        for nm in (cn, sc, sq, mp, doc):
            if nm not in K.methods:
                raise AnalysisError('%s.%s has vanished' % (kq, nm))
        sigs.append((K, _features_composer(repo, K, (cn, sc, sq, mp, doc))))
    (K1, f1), (K2, f2) = sigs
    for feat in f1:
        if f1[feat] and f2[feat]:
            rule.ok('%s / %s' % (K1.module.rel, K2.module.rel), feat)
        else:
            who = K1 if not f1[feat] else K2
            rule.fail('composer-sibling|%s|%s' % (feat, who.name), who.module.rel, who.node.lineno, who.qualname, feat,
                      'the %s composer does not have the feature "%s" that its sibling has: nodes / errors differ between the '
                      'back-ends for documents that exercise it' % ('Python' if who is K1 else 'C', feat))
    # non-specific tag test: None or '!'
    t1 = norm(K1.methods['compose_scalar_node'].node)
    t2 = norm(K2.methods['_compose_scalar_node'].node)
    if "tag is None or tag == '!'" in t1 and "tag == NULL" in t2.replace('self.parsed_event.data.scalar.', '') \
            and "tag[0] == '!'" in t2.replace('self.parsed_event.data.scalar.', ''):
        rule.ok(K1.module.rel, 'both resolve when the tag is absent or "!"')
    else:
        rule.fail('composer-sibling|nonspecific', K1.module.rel, K1.node.lineno, K1.qualname, "tag is None or tag == '!'",
                  'the two composers disagree on when a tag is non-specific')
    return rule


def r_serializer_sibling(ctx, repo):
    rule = ctx.rule('R-SERIALIZER-SIBLING', 'Serializer and CEmitter agree on state errors, anchor numbering, per-document reset and resolver use')
    S = repo.cls('serializer.Serializer')
    C = repo.cls('_yaml.CEmitter')
    checks = []
    for name in ('open', 'close', 'serialize'):
        a, b = S.methods.get(name), C.methods.get(name)
        if a is None or b is None:
            raise AnalysisError('%s missing in Serializer/CEmitter' % name)
        ma = sorted(A.const_str(c.args[0]) for c in A.func_calls(a.node) if norm(c.func) == 'SerializerError' and c.args)
        mb = sorted(A.const_str(c.args[0]) for c in A.func_calls(b.node) if norm(c.func) == 'SerializerError' and c.args)
        checks.append(('%s: SerializerError messages %s' % (name, ma), ma == mb and bool(ma)))
    ta, tb = norm(S.methods['anchor_node'].node), norm(C.methods['_anchor_node'].node)
    checks.append(('first-visit anchor numbering', 'self.anchors[node] is None' in ta and 'self.anchors[node] is None' in tb
                   and 'self.anchors[node] = None' in ta and 'self.anchors[node] = None' in tb))
    from . import match as M
    tp = {e['__t'].value for n, e in M.find(S.methods['generate_anchor'].node, '__t % self.last_anchor_id')
          if isinstance(e['__t'], ast.Constant)} if 'generate_anchor' in S.methods else set()
    tcs = {e['__t'].value for n, e in M.find(C.methods['_anchor_node'].node, '__t % self.last_alias_id')
           if isinstance(e['__t'], ast.Constant)}
    checks.append(('anchor template %s' % sorted(tp), bool(tp) and tp == tcs))
    ta, tb = norm(S.methods['serialize_node'].node), norm(C.methods['_serialize_node'].node)
    checks.append(('descend_resolver(parent, index) / ascend', 'self.descend_resolver(parent, index)' in ta and
                   'self.descend_resolver(parent, index)' in tb and 'self.ascend_resolver()' in ta and 'self.ascend_resolver()' in tb))
    checks.append(('sequence items serialized as (item, node, index)', 'self.serialize_node(item, node, index)' in ta and
                   '_serialize_node(item, node, item_index)' in tb))
    checks.append(('mapping key (key, node, None) / value (value, node, key)', 'self.serialize_node(key, node, None)' in ta and
                   'self.serialize_node(value, node, key)' in ta and '_serialize_node(item_key, node, None)' in tb and
                   '_serialize_node(item_value, node, item_key)' in tb))
    checks.append(('collection implicit = (tag == resolve(Kind, value, True))', 'self.resolve(SequenceNode, node.value, True)' in ta and
                   'self.resolve(SequenceNode, node.value, True)' in tb and 'self.resolve(MappingNode, node.value, True)' in ta and
                   'self.resolve(MappingNode, node.value, True)' in tb))
    ta, tb = norm(S.methods['serialize'].node), norm(C.methods['serialize'].node)
    checks.append(('per-document reset of serialized_nodes / anchors / counter',
                   all(x in ta for x in ('self.serialized_nodes = {}', 'self.anchors = {}', 'self.last_anchor_id = 0')) and
                   all(x in tb for x in ('self.serialized_nodes = {}', 'self.anchors = {}', 'self.last_alias_id = 0'))))
    for what, ok in checks:
        if ok:
            rule.ok('%s / %s' % (S.module.rel, C.module.rel), what)
        else:
            rule.fail('serializer-sibling|%s' % what[:50], S.module.rel, S.node.lineno, 'Serializer / CEmitter', what,
                      'the Python serializer and the C emitter differ on: %s' % what)
    return rule


def r_simple_key_limit(ctx, repo):
    rule = ctx.rule('R-SIMPLE-KEY-LIMIT', 'a simple-key candidate survives while the distance to the current position is at most 1024 '
                                          'characters (YAML 1.1: simple keys are limited to 1024 characters; libyaml uses the same bound)')
    f = repo.func('scanner.Scanner.stale_possible_simple_keys')
    tests = [n for n in walk_function(f.node) if isinstance(n, ast.If) and 'key.index' in norm(n.test)]
    if len(tests) != 1:
        raise AnalysisError('stale_possible_simple_keys: window test not found')
    t = tests[0].test
    bad = []
    for diff, want in ((0, False), (1, False), (1023, False), (1024, False), (1025, True), (5000, True)):
        src = norm(t).replace('key.line != self.line', 'False').replace('self.index - key.index', str(diff))
        v = CW.eval_cond(repo, ast.parse(src, mode='eval').body, {})
        if v is not want:
            bad.append((diff, v))
    src = norm(t).replace('key.line != self.line', 'True').replace('self.index - key.index', '0')
    line_ok = CW.eval_cond(repo, ast.parse(src, mode='eval').body, {}) is True
    if not bad and line_ok:
        rule.ok(f.loc(tests[0]), 'candidate kept for distances <= 1024 on the same line, dropped beyond or on a new line')
    else:
        rule.fail('%s|window' % f.qualname, f.module.rel, tests[0].lineno, f.qualname, norm(t)[:80],
                  'the simple-key window is not "more than 1024 characters or another line": %s - a key of exactly that width is '
                  'rejected by the Python scanner and accepted by libyaml (or vice versa)'
                  % (', '.join('distance %d -> stale=%s' % b for b in bad) or 'line change does not expire the key'))
    return rule


# ------------------------------------------------------------------------------------------------
# the documented event grammar as an oracle for the parser's empty-node decisions

GRAMMAR = {
    # nonterminal: list of alternatives; an alternative is a list of items; item = (symbol, kind) with kind in '1?*+'
    'stream': [[('STREAM-START', '1'), ('implicit_document', '?'), ('explicit_document', '*'), ('STREAM-END', '1')]],
    'implicit_document': [[('block_node', '1'), ('DOCUMENT-END', '*')]],
    'explicit_document': [[('DIRECTIVE', '*'), ('DOCUMENT-START', '1'), ('block_node@doc', '?'), ('DOCUMENT-END', '*')]],
    'block_node_or_indentless_sequence': [[('ALIAS', '1')], [('properties', '1'), ('block_content_or_indentless', '?')],
                                          [('block_content', '1')], [('indentless_sequence', '1')]],
    'block_content_or_indentless': [[('block_content', '1')], [('indentless_sequence', '1')]],
    'block_node': [[('ALIAS', '1')], [('properties', '1'), ('block_content', '?')], [('block_content', '1')]],
    'block_node@doc': [[('block_node', '1')]],
    'flow_node': [[('ALIAS', '1')], [('properties', '1'), ('flow_content', '?')], [('flow_content', '1')]],
    'properties': [[('TAG', '1'), ('ANCHOR', '?')], [('ANCHOR', '1'), ('TAG', '?')]],
    'block_content': [[('block_collection', '1')], [('flow_collection', '1')], [('SCALAR', '1')]],
    'flow_content': [[('flow_collection', '1')], [('SCALAR', '1')]],
    'block_collection': [[('block_sequence', '1')], [('block_mapping', '1')]],
    'flow_collection': [[('flow_sequence', '1')], [('flow_mapping', '1')]],
    'block_sequence': [[('BLOCK-SEQUENCE-START', '1'), ('block_sequence_entry', '*'), ('BLOCK-END', '1')]],
    'block_sequence_entry': [[('BLOCK-ENTRY', '1'), ('block_node@bseq', '?')]],
    'block_node@bseq': [[('block_node', '1')]],
    'indentless_sequence': [[('indentless_entry', '+')]],
    'indentless_entry': [[('BLOCK-ENTRY', '1'), ('block_node@iseq', '?')]],
    'block_node@iseq': [[('block_node', '1')]],
    'block_mapping': [[('BLOCK-MAPPING-START', '1'), ('block_mapping_entry', '*'), ('BLOCK-END', '1')]],
    'block_mapping_entry': [[('block_mapping_key', '?'), ('block_mapping_value', '?')]],
    'block_mapping_key': [[('KEY', '1'), ('bnois@bkey', '?')]],
    'block_mapping_value': [[('VALUE', '1'), ('bnois@bvalue', '?')]],
    'bnois@bkey': [[('block_node_or_indentless_sequence', '1')]],
    'bnois@bvalue': [[('block_node_or_indentless_sequence', '1')]],
    'flow_sequence': [[('FLOW-SEQUENCE-START', '1'), ('flow_sequence_entries', '1'), ('FLOW-SEQUENCE-END', '1')]],
    'flow_sequence_entries': [[('fs_entry_comma', '*'), ('flow_sequence_entry', '?')]],
    'fs_entry_comma': [[('flow_sequence_entry', '1'), ('FLOW-ENTRY', '1')]],
    'flow_sequence_entry': [[('flow_node', '1')], [('KEY', '1'), ('flow_node@fskey', '?'), ('fs_value', '?')]],
    'fs_value': [[('VALUE', '1'), ('flow_node@fsvalue', '?')]],
    'flow_node@fskey': [[('flow_node', '1')]],
    'flow_node@fsvalue': [[('flow_node', '1')]],
    'flow_mapping': [[('FLOW-MAPPING-START', '1'), ('flow_mapping_entries', '1'), ('FLOW-MAPPING-END', '1')]],
    'flow_mapping_entries': [[('fm_entry_comma', '*'), ('flow_mapping_entry', '?')]],
    'fm_entry_comma': [[('flow_mapping_entry', '1'), ('FLOW-ENTRY', '1')]],
    'flow_mapping_entry': [[('flow_node', '1')], [('KEY', '1'), ('flow_node@fmkey', '?'), ('fm_value', '?')]],
    'fm_value': [[('VALUE', '1'), ('flow_node@fmvalue', '?')]],
    'flow_node@fmkey': [[('flow_node', '1')]],
    'flow_node@fmvalue': [[('flow_node', '1')]],
}
TOKEN_CLASS = {
    'STREAM-END': 'StreamEndToken', 'DIRECTIVE': 'DirectiveToken', 'DOCUMENT-START': 'DocumentStartToken',
    'DOCUMENT-END': 'DocumentEndToken', 'BLOCK-ENTRY': 'BlockEntryToken', 'BLOCK-END': 'BlockEndToken', 'KEY': 'KeyToken',
    'VALUE': 'ValueToken', 'FLOW-ENTRY': 'FlowEntryToken', 'FLOW-SEQUENCE-END': 'FlowSequenceEndToken',
    'FLOW-MAPPING-END': 'FlowMappingEndToken', 'ALIAS': 'AliasToken', 'ANCHOR': 'AnchorToken', 'TAG': 'TagToken',
    'SCALAR': 'ScalarToken', 'BLOCK-SEQUENCE-START': 'BlockSequenceStartToken', 'BLOCK-MAPPING-START': 'BlockMappingStartToken',
    'FLOW-SEQUENCE-START': 'FlowSequenceStartToken', 'FLOW-MAPPING-START': 'FlowMappingStartToken', 'STREAM-START': 'StreamStartToken',
}
# parser function (and the token consumed just before the decision) -> grammar position of the optional node
EMPTY_DECISIONS = {
    ('parse_document_content', None): 'block_node@doc',
    ('parse_block_sequence_entry', 'BlockEntryToken'): 'block_node@bseq',
    ('parse_indentless_sequence_entry', 'BlockEntryToken'): 'block_node@iseq',
    ('parse_block_mapping_key', 'KeyToken'): 'bnois@bkey',
    ('parse_block_mapping_value', 'ValueToken'): 'bnois@bvalue',
    ('parse_flow_sequence_entry_mapping_key', None): 'flow_node@fskey',
    ('parse_flow_sequence_entry_mapping_value', 'ValueToken'): 'flow_node@fsvalue',
    ('parse_flow_mapping_key', 'KeyToken'): 'flow_node@fmkey',
    ('parse_flow_mapping_value', 'ValueToken'): 'flow_node@fmvalue',
}


def follow_sets():
    terms = set(TOKEN_CLASS)
    nullable = {}
    first = {}
    for nt in GRAMMAR:
        nullable[nt] = False
        first[nt] = set()

    def item_nullable(sym, kind):
        if kind in '?*':
            return True
        return sym not in terms and nullable[sym]

    def item_first(sym):
        return {sym} if sym in terms else first[sym]
    changed = True
    while changed:
        changed = False
        for nt, alts in GRAMMAR.items():
            for alt in alts:
                all_null = True
                for sym, kind in alt:
                    f = item_first(sym)
                    if not f <= first[nt]:
                        first[nt] |= f
                        changed = True
                    if not item_nullable(sym, kind):
                        all_null = False
                        break
                if all_null and not nullable[nt]:
                    nullable[nt] = True
                    changed = True
    follow = {nt: set() for nt in GRAMMAR}
    changed = True
    while changed:
        changed = False
        for nt, alts in GRAMMAR.items():
            for alt in alts:
                for i, (sym, kind) in enumerate(alt):
                    if sym in terms:
                        continue
                    fol = set()
                    if kind in '*+':
                        fol |= item_first(sym)
                    rest_null = True
                    for sym2, kind2 in alt[i + 1:]:
                        fol |= item_first(sym2)
                        if not item_nullable(sym2, kind2):
                            rest_null = False
                            break
                    if rest_null:
                        fol |= follow[nt]
                    if not fol <= follow[sym]:
                        follow[sym] |= fol
                        changed = True
    return first, follow


def r_parser_lookahead(ctx, repo):
    rule = ctx.rule('R-PARSER-LOOKAHEAD', 'every "empty node" decision of the parser tests exactly the FOLLOW set that the documented '
                                          'event grammar gives for that optional node (LL(1) oracle computed from the grammar)')
    first, follow = follow_sets()
    P = repo.cls('parser.Parser')
    found = 0
    for (fname, lead), pos in EMPTY_DECISIONS.items():
        f = P.methods.get(fname)
        if f is None:
            raise AnalysisError('Parser.%s has vanished' % fname)
        want = {TOKEN_CLASS[t] for t in follow[pos]}
        sites = []
        for n in walk_function(f.node):
            if not isinstance(n, ast.If):
                continue
            inner, pos_ = A.strip_not(n.test)
            if not (isinstance(inner, ast.Call) and norm(inner.func) == 'self.check_token'):
                continue
            empty_branch = n.orelse if not pos_ else n.body
            if not any(isinstance(c.func, ast.Attribute) and c.func.attr == 'process_empty_scalar' for c in A.calls_in(empty_branch)):
                continue
            # which token was consumed just before?
            par = getattr(n, '_parent', None)
            lead_here = None
            if isinstance(par, ast.If) and isinstance(par.test, ast.Call) and norm(par.test.func) == 'self.check_token' \
                    and n in par.body and len(par.test.args) == 1:
                lead_here = norm(par.test.args[0])
            if lead is not None and lead_here != lead:
                continue
            sites.append((n, {norm(a) for a in inner.args}))
        if len(sites) != 1:
            raise AnalysisError('Parser.%s: empty-node decision not recognised (%d candidates)' % (fname, len(sites)))
        n, got = sites[0]
        found += 1
        if got == want:
            rule.ok(f.loc(n), '%s: empty iff next token in %s' % (fname, sorted(t.replace('Token', '') for t in want)))
        else:
            rule.fail('%s|lookahead|+%s|-%s' % (f.qualname, sorted(got - want), sorted(want - got)), f.module.rel, n.lineno, f.qualname,
                      norm(n.test)[:90],
                      'the optional node at %s is taken to be empty for %s; the documented grammar gives FOLLOW = %s '
                      '(unexpected %s, missing %s): a document with the missing token after an empty entry is rejected by the '
                      'Python parser although it is grammatical (and accepted by libyaml)'
                      % (pos, sorted(got), sorted(want), sorted(got - want), sorted(want - got)))
    rule.require_min(9, 'empty-node decisions')
    return rule
