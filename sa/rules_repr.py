"""Representer / serializer / constructor agreement rules (C02, C14, C16, C17).

Variables are found by role (parameter position, "the local that receives self.construct_mapping(node)", "the loop target
over node.value"), conditions are CFG guard edges, values are followed through local copies (rules_order.Flow /
value_sources).  No rule compares the text of a local name or a frozen source fragment.
"""
import ast

from . import astutil as A
from . import rules_registry as RR
from .cfg import CFG, own_exprs
from .partial import local_value
from .rules_order import (Flow, _nodes_with, _self_call, _test_edges, call_arg, is_every_source, local_defs, mirror, name_node,
                          none_test_edges, on_cycle, only_raises, param_env, pmatch, raise_class_ok, reach_under, same,
                          self_attr, value_sources)
from .srcmodel import AnalysisError, ClassInfo, FuncInfo, norm, walk_function

CORE = 'tag:yaml.org,2002:'
SAFE_TYPES = {'type(None)', 'str', 'bytes', 'bool', 'int', 'float', 'list', 'tuple', 'dict', 'set',
              'datetime.date', 'datetime.datetime', 'None'}
KIND_OF_CALL = {'represent_scalar': 'scalar', 'represent_sequence': 'sequence', 'represent_mapping': 'mapping'}
CHILD_KIND = {'construct_scalar': 'scalar', 'construct_sequence': 'sequence', 'construct_mapping': 'mapping',
              'construct_pairs': 'mapping', 'flatten_mapping': 'mapping'}


def representer_outputs(repo, f, cls, _stack=(), bind=None):
    """[(tag expr, kind, call node, owner function, parameter bindings of the owner)] a representer function can emit,
    following self.represent_* helpers; the bindings map a helper's parameter to (argument expr, caller, caller's bindings)
    so that a tag handed down as an argument is resolved at the call site."""
    out = []
    if f in _stack:
        return out
    bind = bind or {}
    for c in A.func_calls(f.node):
        if isinstance(c.func, ast.Attribute) and norm(c.func.value) == f.params[0]:
            if c.func.attr in KIND_OF_CALL:
                t = call_arg(c, 0, 'tag')
                if t is not None:
                    out.append((t, KIND_OF_CALL[c.func.attr], c, f, bind))
            elif c.func.attr.startswith('represent_') and c.func.attr not in ('represent_data',):
                found = repo.lookup(cls, c.func.attr)
                if found and isinstance(found[1], FuncInfo):
                    g = found[1]
                    b = {}
                    for i, a in enumerate(c.args):
                        if not isinstance(a, ast.Starred) and i + 1 < len(g.params):
                            b[g.params[i + 1]] = (a, f, bind)
                    for k in c.keywords:
                        if k.arg:
                            b[k.arg] = (k.value, f, bind)
                    out.extend(representer_outputs(repo, g, cls, _stack + (f,), b))
    return out


def tag_prefix_of(f, t, bind=None):
    """constant tag, or constant prefix of `CONST + name` / a local bound to such a constant / a parameter bound to one at
    the call site."""
    s = A.const_str(t)
    if s is not None:
        return s, True
    if isinstance(t, ast.BinOp) and isinstance(t.op, (ast.Add, ast.Mod)):
        l = tag_prefix_of(f, t.left, bind)
        if l is not None:
            out = []
            for (s, exact) in (l if isinstance(l, list) else [l]):
                if isinstance(t.op, ast.Mod):
                    s = s.split('%')[0]
                out.append((s, False))
            return out if len(out) > 1 else out[0]
    if isinstance(t, ast.JoinedStr) and t.values and isinstance(t.values[0], ast.Constant) and isinstance(t.values[0].value, str):
        return t.values[0].value, False
    if isinstance(t, ast.Name):
        vals = [n.value for n in walk_function(f.node) if isinstance(n, ast.Assign)
                and any(isinstance(x, ast.Name) and x.id == t.id for x in n.targets)]
        if not vals and bind and t.id in bind:
            expr, caller, cbind = bind[t.id]
            return tag_prefix_of(caller, expr, cbind)
        res = []
        for v in vals:
            r = tag_prefix_of(f, v, bind)
            if r is None:
                return None
            res.extend(r if isinstance(r, list) else [r])
        if res:
            return res
    return None


def _tag_from_outside(f, t, bind):
    """the tag is not decided inside the representer tables: it is the yaml_tag attribute of the represented object / its
    class, or a parameter that no table function binds (YAMLObject.to_yaml hands it in)."""
    srcs = value_sources(f.node, t, f.params)
    if not srcs:
        return False
    for s in srcs:
        if isinstance(s, ast.Attribute) and s.attr == 'yaml_tag':
            continue
        if isinstance(s, ast.Name) and s.id in f.params[1:]:
            if bind and s.id in bind:
                expr, caller, cbind = bind[s.id]
                if _tag_from_outside(caller, expr, cbind):
                    continue
                return False
            continue
        return False
    return True


def constructor_kinds(repo, f, cls, _seen=None):
    """node kinds a constructor function accepts, from the kind constructors it calls / isinstance tests."""
    kinds = set()
    _seen = _seen or set()
    if f in _seen:
        return kinds
    _seen.add(f)
    for c in A.func_calls(f.node):
        if isinstance(c.func, ast.Attribute) and norm(c.func.value) == f.params[0]:
            if c.func.attr in CHILD_KIND:
                kinds.add(CHILD_KIND[c.func.attr])
            elif c.func.attr.startswith('construct_') or c.func.attr.startswith('make_'):
                found = repo.lookup(cls, c.func.attr)
                if found and isinstance(found[1], FuncInfo):
                    kinds |= constructor_kinds(repo, found[1], cls, _seen)
        if norm(c.func) == 'isinstance' and len(c.args) == 2:
            for x in ast.walk(c.args[1]):
                if isinstance(x, ast.Name):
                    for nm, kd in (('ScalarNode', 'scalar'), ('SequenceNode', 'sequence'), ('MappingNode', 'mapping')):
                        if x.id == nm:
                            kinds.add(kd)
    return kinds


def r_tag_vocab(ctx, repo, dumpers, loaders, rule_id, exact_types=None):
    rule = ctx.rule(rule_id, 'every tag a representer of %s can write has a constructor in %s that accepts the node kind written'
                    % ('/'.join(d.split('.')[-1] for d in dumpers), '/'.join(l.split('.')[-1] for l in loaders)))
    rm = RR.model(repo)
    for dq in dumpers:
        D = repo.cls(dq)
        reps = dict(rm.heap.table(D, 'yaml_representers'))
        multi = dict(rm.heap.table(D, 'yaml_multi_representers'))
        if exact_types is not None:
            keys = set(reps)
            if keys != exact_types or multi:
                rule.fail('%s|types|+%s|-%s' % (dq, sorted(keys - exact_types), sorted(exact_types - keys)), D.module.rel,
                          D.node.lineno, dq, 'yaml_representers',
                          'the representer table of %s is not the safe type universe: unexpected %s, missing %s, multi %s'
                          % (dq, sorted(keys - exact_types), sorted(exact_types - keys), sorted(multi)))
            else:
                rule.ok('%s:%d' % (D.module.rel, D.node.lineno), '%s represents exactly the %d safe types' % (D.name, len(keys)))
        for tkey, f in list(reps.items()) + list(multi.items()):
            for t, kind, call, owner, bind in representer_outputs(repo, f, D):
                tp = tag_prefix_of(owner, t, bind)
                if tp is None:
                    if _tag_from_outside(owner, t, bind):
                        continue      # tag supplied by the user class (YAMLObject)
                    raise AnalysisError('%s: tag expression %s not understood' % (owner.loc(call), norm(t)))
                for (tag, exact) in (tp if isinstance(tp, list) else [tp]):
                    for lq in loaders:
                        L = repo.cls(lq)
                        ctab = rm.heap.table(L, 'yaml_constructors')
                        mtab = rm.heap.table(L, 'yaml_multi_constructors')
                        cf = None
                        if exact and tag in ctab:
                            cf = ctab[tag]
                        elif not exact:
                            for pfx, g in mtab.items():
                                if pfx is not None and tag.startswith(pfx):
                                    cf = g
                        if cf is None and exact:
                            for pfx, g in mtab.items():
                                if pfx is not None and tag.startswith(pfx):
                                    cf = g
                        if cf is None:
                            rule.fail('%s|%s|%s|no-constructor' % (owner.qualname, tag, lq), owner.module.rel, call.lineno,
                                      owner.qualname, norm(call)[:80],
                                      '%s writes the tag %s%s, for which %s has no constructor: the dumped document cannot be loaded'
                                      % (owner.name, tag, '' if exact else '<name>', lq))
                            continue
                        kinds = constructor_kinds(repo, cf, L)
                        if kind in kinds or not kinds:
                            rule.ok(owner.loc(call), '%s -> %s %s node -> %s.%s' % (norm(tkey) if not isinstance(tkey, str) else tkey,
                                                                                       tag, kind, L.name, cf.name))
                        else:
                            rule.fail('%s|%s|%s|kind' % (owner.qualname, tag, lq), owner.module.rel, call.lineno, owner.qualname,
                                      norm(call)[:80],
                                      '%s writes a %s node tagged %s, but %s of %s only accepts %s nodes'
                                      % (owner.name, kind, tag, cf.name, lq, '/'.join(sorted(kinds))))
    return rule


RESOLUTIONS = (('self.resolve(ScalarNode, __v, (True, False))', 'plain'), ('self.resolve(ScalarNode, __v, (False, True))', 'quoted'))


def _scalar_resolutions(f, env):
    """[(call, kind, value expr)] of the self.resolve(ScalarNode, <value>, <flags>) calls of a serializer function."""
    out = []
    for c in A.func_calls(f.node):
        b = pmatch('self.resolve(ScalarNode, __v, __flags)', c, env)
        if b is None:
            continue
        kind = None
        for src, k in RESOLUTIONS:
            if pmatch(src, c, env) is not None:
                kind = k
        out.append((c, kind, b['__v'], b['__flags']))
    return out


def _flag_kind(flow, at, e, env):
    """which resolution an implicit-flag expression evaluated at CFG node `at` stands for: 'plain' / 'quoted' when it is
    true exactly if the node's tag equals self.resolve(ScalarNode, node.value, (True, False) / (False, True)), else None."""
    cfg = flow.cfg

    def is_tag(x, n):
        return flow.every(n, x, lambda s, m: pmatch('_N_node.tag', s, env) is not None)

    def resolution(x, n):
        kinds = set()

        def one(s, m):
            for src, k in RESOLUTIONS:
                b = pmatch(src, s, env)
                if b is not None and flow.every(m, b['__v'], lambda v, mm: pmatch('_N_node.value', v, env) is not None):
                    kinds.add(k)
                    return True
            return False
        if flow.every(n, x, one) and len(kinds) == 1:
            return kinds.pop()
        return None

    def compare_kind(s, n):
        b = pmatch('__a == __b', s)
        if b is None:
            return None
        for tag, res in ((b['__a'], b['__b']), (b['__b'], b['__a'])):
            if is_tag(tag, n):
                k = resolution(res, n)
                if k is not None:
                    return k
        return None

    srcs = flow.sources(at, e)
    if not srcs:
        return None
    # (1) the flag *is* the comparison
    kinds = {compare_kind(s, n) for (s, n) in srcs}
    if len(kinds) == 1 and None not in kinds:
        return kinds.pop()
    # (2) a 0/1 flag: cleared unconditionally, set exactly on the true edge of the comparison
    if not isinstance(e, ast.Name):
        return None
    sets, clears = [], []
    for d in flow.defs_at(at, e.id):
        a = d.ast
        if not (d.kind == 'stmt' and isinstance(a, ast.Assign) and len(a.targets) == 1 and isinstance(a.value, ast.Constant)):
            return None
        (sets if a.value.value else clears).append(d)
    if not sets or not clears:
        return None
    kinds = set()
    for n in cfg.nodes:
        if n.kind == 'test':
            k = compare_kind(n.ast, n)
            if k is not None:
                true_succ = [m for (m, l) in cfg.succ[n] if l is True]
                # the comparison's true edge leads to the event only through a set, and every set lies behind that edge
                if all(cfg.guarded(s, edges=[(n, True)]) for s in sets) and at not in cfg.reach(true_succ, blocked=sets, follow_exc=False):
                    kinds.add(k)
    return kinds.pop() if len(kinds) == 1 else None


def r_resolver_shared(ctx, repo):
    rule = ctx.rule('R-RESOLVER-SHARED', 'safe dumpers and safe loaders resolve implicit tags with the same registry object, and the '
                                         'serializers compute implicit flags by resolve(ScalarNode, value, (True, False)) / ((False, True))')
    rm = RR.model(repo)
    owners = {}
    for q in RR.SAFE_DUMPERS + RR.SAFE_LOADERS:
        o = rm.heap.owner(repo.cls(q), 'yaml_implicit_resolvers')
        owners[q] = o.qualname if o else None
    if len(set(owners.values())) == 1 and None not in owners.values():
        rule.ok('lib/yaml/resolver.py', 'implicit resolver table of %s is the one object owned by %s'
                % (', '.join(k.split('.')[-1] for k in owners), list(owners.values())[0]))
    else:
        rule.fail('resolver-owner|%s' % sorted(owners.items()), 'lib/yaml/resolver.py', 1, 'yaml_implicit_resolvers',
                  'yaml_implicit_resolvers', 'dumper and loader classes do not share one implicit-resolver table: %s - strings that '
                  'look like another type on load are not recognised (and quoted) on dump' % owners)
    for q, fname, event, flag_args in (('serializer.Serializer', 'serialize_node', 'ScalarEvent', None),
                                       ('_yaml.CEmitter', '_serialize_node', 'yaml_scalar_event_initialize', (5, 6))):
        f = repo.cls(q).methods.get(fname)
        if f is None:
            raise AnalysisError('%s.%s has vanished' % (q, fname))
        env = param_env(f, _N_node=1)
        cfg = CFG(f.node)
        flow = Flow(cfg, f.params)
        res = _scalar_resolutions(f, env)
        res_nodes = {id(c): _nodes_with(cfg, lambda x, c=c: x is c) for (c, k, v, fl) in res}
        kinds = sorted({str(k) for (c, k, v, fl) in res})
        own_text = all(rn and all(flow.every(n, v, lambda s, m: pmatch('_N_node.value', s, env) is not None) for n in rn)
                       for (c, k, v, fl) in res for rn in [res_nodes[id(c)]])
        if kinds == ['plain', 'quoted'] and own_text:
            rule.ok(f.loc(), '%s resolves node.value with (True, False) and (False, True)' % fname)
        else:
            rule.fail('%s|implicit-flags' % f.qualname, f.module.rel, f.node.lineno, f.qualname, 'self.resolve(ScalarNode, ...)',
                      '%s does not compute the plain / non-plain implicit flags by resolving the scalar\'s own text with '
                      '(True, False) and (False, True): got %s' % (fname, [(norm(v), norm(fl)) for (c, k, v, fl) in res]))
        # the scalar event receives (plain flag, non-plain flag) in that order
        events = []
        for n in cfg.nodes:
            if n.ast is None:
                continue
            for x in own_exprs(n):
                if isinstance(x, ast.Call) and isinstance(x.func, ast.Name) and x.func.id == event:
                    events.append((n, x))
        if not events:
            raise AnalysisError('%s: no %s(...) found' % (f.qualname, event))
        ok = True
        for n, call in events:
            if flag_args is None:
                imp = call_arg(call, 2, 'implicit')
                pair = None
                if imp is not None:
                    srcs = flow.sources(n, imp)
                    if srcs and len(srcs) == 1 and isinstance(srcs[0][0], ast.Tuple) and len(srcs[0][0].elts) == 2:
                        pair = [(e, srcs[0][1]) for e in srcs[0][0].elts]
            else:
                pair = [(call.args[i], n) for i in flag_args] if len(call.args) > max(flag_args) else None
            if pair is None or [_flag_kind(flow, at, e, env) for (e, at) in pair] != ['plain', 'quoted']:
                ok = False
        if ok:
            rule.ok(f.loc(), '%s: implicit[0] <- plain resolution, implicit[1] <- non-plain resolution' % fname)
        else:
            rule.fail('%s|flag-order' % f.qualname, f.module.rel, f.node.lineno, f.qualname, 'implicit',
                      '%s pairs the plain / non-plain resolutions with the wrong implicit flag' % fname)
    return rule


def r_event_brackets(ctx, repo):
    rule = ctx.rule('R-EVENT-BRACKETS', 'serialize() emits DocumentStart ... DocumentEnd around the node, each collection start is '
                                        'followed by its end after the children, and serialized_nodes is marked before children')
    for q, ser, sn in (('serializer.Serializer', 'serialize', 'serialize_node'), ('_yaml.CEmitter', 'serialize', '_serialize_node')):
        K = repo.cls(q)
        f = K.methods.get(ser)
        g = K.methods.get(sn)
        if f is None or g is None:
            raise AnalysisError('%s.%s/%s have vanished' % (q, ser, sn))
        pyx = q.startswith('_yaml')
        fcfg = CFG(f.node)
        gcfg = CFG(g.node)

        def event_nodes(cfg, name):
            return _nodes_with(cfg, lambda x: isinstance(x, ast.Call) and isinstance(x.func, ast.Name) and x.func.id == name)

        def child_calls(cfg):
            return _nodes_with(cfg, _self_call(sn))
        ds = event_nodes(fcfg, 'DocumentStartEvent' if not pyx else 'yaml_document_start_event_initialize')
        de = event_nodes(fcfg, 'DocumentEndEvent' if not pyx else 'yaml_document_end_event_initialize')
        body = child_calls(fcfg)
        ok = bool(ds) and bool(de) and bool(body)
        if ok:
            for b in body:
                if not fcfg.guarded(b, nodes=ds):
                    ok = False
                starts = [m for (m, lab) in fcfg.succ[b] if lab != 'exc']
                r = fcfg.reach(starts, blocked=de, follow_exc=False)
                if any(x in r for x in fcfg.normal_exits()):
                    ok = False
        if ok:
            rule.ok(f.loc(), '%s.%s: DocumentStart before, DocumentEnd after the node on every normal path' % (K.name, ser))
        else:
            rule.fail('%s|document-bracket' % f.qualname, f.module.rel, f.node.lineno, f.qualname, 'DocumentStart/End',
                      '%s.%s does not bracket the serialized node with a document start and a document end event on every path'
                      % (K.name, ser))
        kids = child_calls(gcfg)
        for start, end in ((('SequenceStartEvent', 'SequenceEndEvent') if not pyx else
                            ('yaml_sequence_start_event_initialize', 'yaml_sequence_end_event_initialize')),
                           (('MappingStartEvent', 'MappingEndEvent') if not pyx else
                            ('yaml_mapping_start_event_initialize', 'yaml_mapping_end_event_initialize'))):
            sts, ens = event_nodes(gcfg, start), event_nodes(gcfg, end)
            good = bool(sts) and bool(ens)
            for s0 in sts:
                starts = [m for (m, lab) in gcfg.succ[s0] if lab != 'exc']
                r = gcfg.reach(starts, blocked=ens, follow_exc=False)
                if any(x in r for x in gcfg.normal_exits()):
                    good = False
            # exactly one end per start: the end event is not repeated (it does not lie on a cycle, e.g. the child loop)
            for e0 in ens:
                if on_cycle(gcfg, e0):
                    good = False
            if good:
                rule.ok(g.loc(), '%s: %s ... children ... %s' % (sn, start, end))
            else:
                rule.fail('%s|%s' % (g.qualname, start), g.module.rel, g.node.lineno, g.qualname, '%s/%s' % (start, end),
                          '%s does not close every %s with exactly one %s after its children' % (sn, start, end))
        # serialized_nodes[node] = True dominates the child calls
        genv = param_env(g, _N_node=1)
        marks = [n for n in gcfg.nodes if n.kind == 'stmt' and isinstance(n.ast, ast.Assign)
                 and any(pmatch('self.serialized_nodes[_N_node]', t, genv) is not None for t in n.ast.targets)]
        if marks and kids and all(gcfg.guarded(k, nodes=marks) for k in kids):
            rule.ok(g.loc(), '%s marks the node as serialized before its children (recursive nodes become aliases)' % sn)
        else:
            rule.fail('%s|mark-order' % g.qualname, g.module.rel, g.node.lineno, g.qualname, 'self.serialized_nodes[node] = True',
                      '%s serializes children before marking the node: a recursive container recurses without bound' % sn)
    return rule


def _is_table_dispatch(x):
    """a call of an entry of the representer tables: self.yaml_representers[...](...) / self.yaml_multi_representers[...](...)"""
    return isinstance(x, ast.Call) and isinstance(x.func, ast.Subscript) and isinstance(x.func.value, ast.Attribute) \
        and x.func.value.attr in ('yaml_representers', 'yaml_multi_representers')


def _dispatching_methods(repo, cls):
    """names of the methods of cls that (transitively, through self-calls) call an entry of the representer tables."""
    direct = set()
    calls = {}
    for k in cls.mro_classes():
        for name, m in k.methods.items():
            if name in calls:
                continue
            calls[name] = set()
            for c in A.func_calls(m.node):
                if _is_table_dispatch(c):
                    direct.add(name)
                if isinstance(c.func, ast.Attribute) and isinstance(c.func.value, ast.Name) and m.params and \
                        c.func.value.id == m.params[0]:
                    calls[name].add(c.func.attr)
    out = set(direct)
    changed = True
    while changed:
        changed = False
        for name, cs in calls.items():
            if name not in out and cs & out:
                out.add(name)
                changed = True
    return out


IMMUTABLE_ATOMS = {'str', 'bytes', 'bool', 'int', 'float', 'complex', 'type(None)', 'NoneType'}


def r_alias_key(ctx, repo):
    rule = ctx.rule('R-ALIAS-KEY', 'represent_data keys represented_objects by id(data) only for objects that are kept alive in '
                                   'object_keeper for the whole document; ignore_aliases returns True only for immutable atoms')
    f = repo.func('representer.BaseRepresenter.represent_data')
    env = param_env(f, _N_self=0, _N_data=1)
    data = f.params[1]
    cfg = CFG(f.node)
    # the alias key: whatever receives id(data)
    keys = []
    for n in cfg.nodes:
        if n.kind == 'stmt' and isinstance(n.ast, ast.Assign) and any(
                pmatch('id(_N_data)', x, env) is not None for x in ast.walk(n.ast.value)):
            keys.extend(n.ast.targets)
    keep = _nodes_with(cfg, lambda x: pmatch('self.object_keeper.append(_N_data)', x, env) is not None)
    # the object is represented: an entry of the representer tables is called here, or in a method this one hands the
    # object to
    helpers = _dispatching_methods(repo, f.cls) - {f.name}

    def represents(x):
        if _is_table_dispatch(x):
            return True
        return isinstance(x, ast.Call) and isinstance(x.func, ast.Attribute) and isinstance(x.func.value, ast.Name) \
            and x.func.value.id == f.params[0] and x.func.attr in helpers \
            and any(isinstance(a, ast.Name) and a.id == data for a in list(x.args) + [k.value for k in x.keywords])
    dispatch = _nodes_with(cfg, represents)
    if not keys or not dispatch:
        raise AnalysisError('represent_data: id()/dispatch not found')
    # every path on which the object is represented under an id key passes object_keeper.append(data); paths on which
    # the key is None (the `key is None` edge, the true edge of ignore_aliases(data)) need no keeper
    none_edges = none_test_edges(cfg, keys)
    none_edges += _test_edges(cfg, lambda inner: (True if pmatch('self.ignore_aliases(_N_data)', inner, env) is not None else None))
    ok = bool(keep)
    for d in dispatch:
        if d in cfg.reach([cfg.entry], blocked=keep, blocked_edges=none_edges):
            ok = False
    if ok:
        rule.ok(f.loc(), 'objects keyed by id() are appended to object_keeper before they are represented')
    else:
        rule.fail('%s|object_keeper' % f.qualname, f.module.rel, f.node.lineno, f.qualname, 'self.object_keeper.append(data)',
                  'an object is registered under id(data) without being kept alive in object_keeper: a temporary (e.g. the state '
                  'built by __reduce_ex__/__getstate__) can be freed and its id reused, so a later object is written as an alias '
                  'of an unrelated earlier one')
    # ignore_aliases of the safe representer
    g = repo.func('representer.SafeRepresenter.ignore_aliases')
    genv = param_env(g, _N_data=1)
    gcfg = CFG(g.node)

    def class_names(e):
        return {norm(c) for c in (e.elts if isinstance(e, ast.Tuple) else [e])}

    def atom_kind(inner):
        """'atom' if the condition alone makes the value an immutable atom, 'tuple' / 'empty' for the two halves of the
        empty-tuple test."""
        if pmatch('_N_data is None', inner, genv) is not None:
            return 'atom'
        b = pmatch('isinstance(_N_data, __t)', inner, genv)
        if b is not None:
            names = class_names(b['__t'])
            if names <= IMMUTABLE_ATOMS:
                return 'atom'
            if names == {'tuple'}:
                return 'tuple'
        if pmatch('_N_data == ()', inner, genv) is not None:
            return 'empty'
        return None
    atom_edges = _test_edges(gcfg, lambda inner: True if atom_kind(inner) == 'atom' else None)
    tuple_edges = _test_edges(gcfg, lambda inner: True if atom_kind(inner) == 'tuple' else None)
    empty_edges = _test_edges(gcfg, lambda inner: True if atom_kind(inner) == 'empty' else None)
    accept = list(atom_edges)
    accept += [(n, lab) for (n, lab) in empty_edges if tuple_edges and gcfg.guarded(n, edges=tuple_edges)]
    accept += [(n, lab) for (n, lab) in tuple_edges if empty_edges and gcfg.guarded(n, edges=empty_edges)]

    def implies_atom(e):
        """does the truth of expression e imply that the value is an immutable atom?"""
        if isinstance(e, ast.BoolOp) and isinstance(e.op, ast.Or):
            return all(implies_atom(v) for v in e.values)
        if isinstance(e, ast.BoolOp) and isinstance(e.op, ast.And):
            kinds = {atom_kind(A.strip_not(v)[0]) if A.strip_not(v)[1] else None for v in e.values}
            return 'atom' in kinds or {'tuple', 'empty'} <= kinds or any(implies_atom(v) for v in e.values if isinstance(v, ast.BoolOp))
        inner, pos = A.strip_not(e)
        return pos and atom_kind(inner) == 'atom'
    idx = 0
    for ret in [n for n in gcfg.nodes if n.kind == 'return' and n.ast.value is not None]:
        v = ret.ast.value
        if isinstance(v, ast.Constant) and not v.value:
            continue
        idx += 1
        ok = (accept and gcfg.guarded(ret, edges=accept)) or (not isinstance(v, ast.Constant) and implies_atom(v))
        if ok:
            rule.ok(g.loc(ret.ast), 'ignore_aliases -> True only for None / immutable atoms / the empty tuple')
        else:
            rule.fail('%s|true-return|%d' % (g.qualname, idx), g.module.rel, ret.lineno, g.qualname, norm(ret.ast)[:80],
                      'ignore_aliases returns True for values that are not immutable atoms: a mutable container referenced from '
                      'several places is written out separately each time and loads back as distinct objects')
    if idx == 0:
        raise AnalysisError('SafeRepresenter.ignore_aliases: no true result found')
    return rule


def r_sort_gate(ctx, repo):
    rule = ctx.rule('R-SORT-GATE', 'represent_mapping sorts the item list with sorted() on every path where sort_keys is set, the only '
                                   'handler catches TypeError and leaves the list untouched; sets are represented through a dict')
    f = repo.func('representer.BaseRepresenter.represent_mapping')
    if len(f.params) < 3:
        raise AnalysisError('represent_mapping: expected (self, tag, mapping, ...)')
    m = f.params[2]
    cfg = CFG(f.node)
    flow = Flow(cfg, f.params)
    problems = []                # (code, text)
    inplace = [c for c in A.func_calls(f.node) if isinstance(c.func, ast.Attribute) and c.func.attr in ('sort', 'reverse')]
    if inplace:
        problems.append(('inplace', 'sorts in place (%s): when the comparison fails half-way the list is left partially sorted instead of in '
                         'insertion order, so the output depends on where the TypeError occurred' % norm(inplace[0])))
    # the item loop: the loop whose body represents the items
    loops = [n for n in cfg.nodes if n.kind == 'for' and any(
        _self_call('represent_data')(x) for s in n.stmt.body for x in ast.walk(s))]
    item_loops = [n for n in loops if isinstance(n.ast, ast.Name)]
    if not item_loops:
        problems.append(('no-loop', 'the node is not built by iterating the item list'))
    else:
        loop = item_loops[0]
        items = loop.ast.id
        # names that are plain copies of one another (`mapping = items`) denote the same item list
        alias = {items}
        grew = True
        while grew:
            grew = False
            for st in walk_function(f.node):
                if isinstance(st, ast.Assign) and len(st.targets) == 1 and isinstance(st.targets[0], ast.Name) \
                        and isinstance(st.value, ast.Name):
                    a, b = st.targets[0].id, st.value.id
                    if a in alias and b not in alias and b != m:
                        alias.add(b)
                        grew = True

        def from_mapping(e):
            """the expression is (a copy of) the mapping / its item list"""
            names = {x.id for x in ast.walk(e) if isinstance(x, ast.Name) and isinstance(x.ctx, ast.Load)}
            return bool(names & ({m} | alias)) and names <= ({m, 'list', 'sorted'} | alias)
        sorted_calls = [c for c in A.func_calls(f.node) if isinstance(c.func, ast.Name) and c.func.id == 'sorted']
        sorts = [n for n in cfg.nodes if n.kind == 'stmt' and isinstance(n.ast, ast.Assign) and len(n.ast.targets) == 1
                 and isinstance(n.ast.targets[0], ast.Name) and n.ast.targets[0].id in alias
                 and isinstance(n.ast.value, ast.Call) and n.ast.value in sorted_calls and len(n.ast.value.args) == 1
                 and not n.ast.value.keywords and from_mapping(n.ast.value.args[0])]
        if not sorted_calls:
            problems.append(('no-sorted', 'no sorted(%s) call' % m))
        elif len(sorts) != len(sorted_calls):
            problems.append(('not-assigned', 'the sorted list is not assigned back to the item list'))
        if sorts:
            sk_edges = _test_edges(cfg, lambda inner: True if pmatch('self.sort_keys', inner) is not None else None)
            if not sk_edges or not all(cfg.guarded(s, edges=sk_edges) for s in sorts):
                problems.append(('unconditional', 'sorting is not conditional on self.sort_keys alone'))

            def atom(t):
                inner, pos = A.strip_not(t)
                v = None
                if pmatch('self.sort_keys', inner) is not None:
                    v = True
                elif pmatch("hasattr(__x, 'items')", inner) is not None:
                    v = True
                return v if (pos or v is None) else (not v)
            # with sort_keys set (and a real mapping) every path to the item loop sorts
            if loop in reach_under(cfg, atom, [cfg.entry], blocked=sorts):
                problems.append(('extra-conditions', 'sorting is subject to extra conditions besides self.sort_keys'))
            # a failing comparison: only TypeError is caught, and the handler leaves the list as it was
            for s in sorts:
                for (h, lab) in cfg.succ[s]:
                    if lab != 'exc' or h.kind != 'handler':
                        continue
                    r = cfg.reach([h], blocked=[loop], follow_exc=False)
                    touched = [x for x in r if x is not h and (x.kind == 'raise' or (x.ast is not None and any(
                        isinstance(y, ast.Name) and y.id in alias and isinstance(y.ctx, ast.Store)
                        and not (isinstance(x.ast, ast.Assign) and isinstance(x.ast.value, ast.Name) and x.ast.value.id in alias)
                        for y in own_exprs(x))) or any(
                        isinstance(mu.root, ast.Name) and mu.root.id == items for mu in A.find_mutations(
                            [y for y in own_exprs(x)] if x.ast is not None else [])))]
                    if h.ast.type is None or norm(h.ast.type) != 'TypeError' or touched or loop not in cfg.reach([h], follow_exc=False):
                        problems.append(('handler', 'the handler around sorted() is not exactly `except TypeError: pass`'))
    if problems:
        rule.fail('%s|%s' % (f.qualname, ';'.join(sorted({c for c, t in problems}))), f.module.rel, f.node.lineno, f.qualname,
                  'sorted(mapping)', 'represent_mapping: ' + '; '.join(t for c, t in problems))
    else:
        rule.ok(f.loc(), 'items sorted with sorted() iff sort_keys; TypeError falls back to insertion order')
    g = repo.func('representer.SafeRepresenter.represent_set')

    def is_dict_expr(d):
        return isinstance(d, (ast.Dict, ast.DictComp)) or (isinstance(d, ast.Call) and norm(d.func) in ('dict', 'dict.fromkeys'))
    calls = [c for c in A.func_calls(g.node) if _self_call('represent_mapping')(c)]
    ok = bool(calls)
    for c in calls:
        a = call_arg(c, 1, 'mapping')
        if a is None or not is_every_source(g.node, a, is_dict_expr):
            ok = False
    if ok:
        rule.ok(g.loc(), 'represent_set goes through a dict, hence through the sort gate')
    else:
        rule.fail('%s|dict' % g.qualname, g.module.rel, g.node.lineno, g.qualname, 'self.represent_mapping(...)',
                  'represent_set does not hand represent_mapping a dict: a value without .items() bypasses the sort_keys sort, so '
                  'the text of a dumped set depends on hash seed / insertion order')
    return rule


NONDET = {'random', 'time', 'uuid', 'secrets', 'os.urandom', 'os.environ', 'os.getpid', 'os.getenv', 'os.get_terminal_size',
          'shutil.get_terminal_size', 'shutil', 'locale', 'platform', 'getpass', 'socket', 'sys.argv', 'datetime.datetime.now',
          'datetime.date.today', 'hash'}


def r_no_nondeterminism(ctx, repo):
    rule = ctx.rule('R-NO-NONDETERMINISM', 'nothing on the dump path consults a source of run-to-run variation; id() is used only as the '
                                           'alias key of represent_data')
    mods = ['representer', 'serializer', 'emitter', 'dumper', 'resolver', 'nodes', 'events']
    n = 0
    for f in repo.all_functions(mods + ['_yaml']):
        if f.module.name == '_yaml' and (f.cls is None or f.cls.name != 'CEmitter'):
            continue
        n += 1
        bad = []
        for c in A.func_calls(f.node):
            fn = norm(c.func)
            root = fn.split('.')[0]
            if fn in NONDET or root in ('random', 'time', 'uuid', 'secrets') or fn.startswith('os.'):
                bad.append((c, fn))
            if fn == 'id':
                # the one legitimate use: the whole value (or one arm of a conditional value) of the assignment that sets
                # the alias key in represent_data, with the represented object as argument
                st = A.enclosing_stmt(c)
                ok = f.qualname == 'representer.BaseRepresenter.represent_data' and isinstance(st, ast.Assign) and \
                    len(c.args) == 1 and isinstance(c.args[0], ast.Name) and len(f.params) > 1 and c.args[0].id == f.params[1] and \
                    (st.value is c or (isinstance(st.value, ast.IfExp) and (st.value.body is c or st.value.orelse is c)))
                if not ok:
                    bad.append((c, 'id() outside the alias key'))
        for node in walk_function(f.node):
            if isinstance(node, ast.BinOp) and isinstance(node.op, ast.Mod) and any(
                    isinstance(x, ast.Call) and norm(x.func) == 'id' for x in ast.walk(node.right)):
                bad.append((node, 'id() formatted into text'))
            if isinstance(node, ast.JoinedStr) and any(isinstance(x, ast.Call) and norm(x.func) == 'id' for x in ast.walk(node)):
                bad.append((node, 'id() formatted into text'))
        if bad:
            for c, what in bad:
                rule.fail('%s|%s' % (f.qualname, what), f.module.rel, c.lineno, f.qualname, norm(c)[:70],
                          '%s on the dump path: the output depends on something else than the dumped value' % what)
        else:
            rule.ok(f.loc(), '%s: no nondeterminism source' % f.qualname)
    # anchor names: template % counter
    from . import match as M
    S = repo.cls('serializer.Serializer')
    g = S.methods.get('generate_anchor')
    if g is None:
        raise AnalysisError('Serializer.generate_anchor has vanished')

    def template_of(fn, counter):
        """the constant template formatted with the counter, if the name is derived from the counter alone."""
        incs = M.find(fn.node, 'self.%s += 1' % counter)
        fmts = M.find(fn.node, '__tpl %% self.%s' % counter)
        tpls = {e['__tpl'].value for n, e in fmts if isinstance(e['__tpl'], ast.Constant) and isinstance(e['__tpl'].value, str)}
        if incs and len(tpls) == 1 and len(fmts) == len([1 for n, e in fmts if isinstance(e['__tpl'], ast.Constant)]):
            return tpls.pop()
        return None
    tpy = template_of(g, 'last_anchor_id')
    if tpy is not None and tpy.count('%') == 1:
        rule.ok(g.loc(), 'anchor names = %r of a per-document counter' % tpy)
    else:
        rule.fail('%s|template' % g.qualname, g.module.rel, g.node.lineno, g.qualname, 'generate_anchor',
                  'anchor names are not derived from the per-document counter alone')
    C = repo.cls('_yaml.CEmitter')
    h = C.methods.get('_anchor_node')
    if h is None:
        raise AnalysisError('CEmitter._anchor_node has vanished')
    tc = template_of(h, 'last_alias_id')
    if tc is not None and (tpy is None or tc == tpy):
        rule.ok(h.loc(), 'C anchor names = %r of a per-document counter (same template as the Python serializer)' % tc)
    else:
        rule.fail('%s|template' % h.qualname, h.module.rel, h.node.lineno, h.qualname, '_anchor_node',
                  'the C serializer derives anchor names differently from the Python serializer')
    return rule


REORDERING = ('sorted', 'reversed', 'set', 'frozenset')


def r_insertion_order_load(ctx, repo):
    rule = ctx.rule('R-INSERTION-ORDER-LOAD', 'construct_mapping / construct_pairs / compose_mapping_node insert in document order')
    for q in ('constructor.BaseConstructor.construct_mapping', 'constructor.BaseConstructor.construct_pairs'):
        f = repo.func(q)
        env = param_env(f, _N_node=1)
        # the loops that construct the children walk node.value itself, front to back
        loops = [n for n in walk_function(f.node) if isinstance(n, (ast.For, ast.comprehension)) and any(
            _self_call('construct_object')(x) for x in ast.walk(getattr(n, '_parent', n) if isinstance(n, ast.comprehension) else n))]
        ok = bool(loops) and all(is_every_source(f.node, l.iter, lambda e: pmatch('_N_node.value', e, env) is not None, f.params)
                                 for l in loops) and \
            not any(isinstance(c.func, ast.Name) and c.func.id in REORDERING for c in A.func_calls(f.node)) and \
            not any(isinstance(c.func, ast.Attribute) and c.func.attr in ('sort', 'reverse', 'insert') for c in A.func_calls(f.node))
        if ok:
            rule.ok(f.loc(), '%s iterates node.value in order' % f.name)
        else:
            rule.fail('%s|order' % f.qualname, f.module.rel, f.node.lineno, f.qualname, 'for ... in node.value',
                      '%s no longer inserts the pairs in the order of node.value' % f.name)
    for q, comp in (('composer.Composer.compose_mapping_node', 'compose_node'), ('_yaml.CParser._compose_mapping_node', '_compose_node')):
        f = repo.func(q)
        cfg = CFG(f.node)
        defs = local_defs(f.node)
        # the node under construction and its pair list
        nodes = {nm for nm, ds in defs.items() if ds and all(
            d is not None and isinstance(d, ast.Call) and isinstance(d.func, ast.Name) and d.func.id == 'MappingNode' for d in ds)}
        lists = {a.id for nm in nodes for d in defs[nm] for a in list(d.args) + [k.value for k in d.keywords] if isinstance(a, ast.Name)
                 and defs.get(a.id) and all(isinstance(x, ast.List) and not x.elts for x in defs[a.id] if x is not None)}

        def is_pair_list(e):
            return (isinstance(e, ast.Attribute) and e.attr == 'value' and isinstance(e.value, ast.Name) and e.value.id in nodes) or \
                (isinstance(e, ast.Name) and e.id in lists)
        composed = {}                 # local -> CFG nodes where it receives self.compose_node(...)
        for n in cfg.nodes:
            if n.kind == 'stmt' and isinstance(n.ast, ast.Assign) and len(n.ast.targets) == 1 and isinstance(n.ast.targets[0], ast.Name) \
                    and _self_call(comp)(n.ast.value):
                composed.setdefault(n.ast.targets[0].id, []).append(n)
        adds = [(n, x) for n in cfg.nodes if n.ast is not None for x in own_exprs(n)
                if isinstance(x, ast.Call) and isinstance(x.func, ast.Attribute) and is_pair_list(x.func.value)]
        good = bool(adds)
        for n, c in adds:
            if c.func.attr != 'append' or len(c.args) != 1:
                good = False          # insert / extend / sort / reverse ... on the pair list
                continue
            t = c.args[0]
            if not (isinstance(t, ast.Tuple) and len(t.elts) == 2 and all(isinstance(e, ast.Name) for e in t.elts)):
                good = False
                continue
            k, v = t.elts[0].id, t.elts[1].id
            kd, vd = composed.get(k, []), composed.get(v, [])
            # key composed first, then the value, then the pair is appended - and nothing else is ever bound to them
            if not kd or not vd or k == v or len(defs.get(k, [])) != len(kd) or len(defs.get(v, [])) != len(vd):
                good = False
            elif not all(cfg.guarded(x, nodes=kd) for x in vd) or not cfg.guarded(n, nodes=vd):
                good = False
            elif any(x in cfg.reach([m for (m, l) in cfg.succ[y] if l != 'exc'], blocked=[n], follow_exc=False) for y in vd for x in kd):
                good = False          # a second key could be composed before the pair is appended
        if good:
            rule.ok(f.loc(), '%s appends pairs in event order' % f.name)
        else:
            rule.fail('%s|order' % f.qualname, f.module.rel, f.node.lineno, f.qualname, 'node.value.append((item_key, item_value))',
                      '%s does not append the (key, value) pairs in event order' % f.name)
    return rule


# ------------------------------------------------------------------------------------------------ C14

def _kind_edges(cfg, var, kind):
    """edges on which isinstance(<var>, <kind class>) holds; `var` is a local / parameter name."""
    def m(inner):
        if isinstance(inner, ast.Call) and norm(inner.func) == 'isinstance' and len(inner.args) == 2 \
                and isinstance(inner.args[0], ast.Name) and inner.args[0].id == var and norm(inner.args[1]) == kind:
            return True
        return None
    return _test_edges(cfg, m)


def _test_edges_resolved(cfg, match):
    """_test_edges, with the left operand of a comparison read through a local that stands for an expression there
    (`n = len(x.value) ... if n != 1` is the test `len(x.value) != 1`; partial.local_value states when that holds)."""
    out = []
    cache = {}
    for n in cfg.nodes:
        if n.kind != 'test':
            continue
        inner, pos = A.strip_not(n.ast)
        for cand in (inner, mirror(inner)):
            if cand is None:
                continue
            if isinstance(cand, ast.Compare) and len(cand.ops) == 1 and isinstance(cand.left, ast.Name):
                v = local_value(cfg, n, cand.left.id, cache)
                if v is not None:
                    cand = ast.Compare(left=v, ops=cand.ops, comparators=cand.comparators)
            r = match(cand)
            if r is not None:
                out.append((n, r if pos else (not r)))
                break
    return out


def _value_uses(cfg, var, kinds=None):
    """CFG nodes that read <var>.value other than to take its length."""
    out = []
    for n in cfg.nodes:
        if n.ast is None or (kinds is not None and n.kind not in kinds):
            continue
        for s in own_exprs(n):
            if isinstance(s, ast.Attribute) and s.attr == 'value' and isinstance(s.value, ast.Name) and s.value.id == var:
                par = getattr(s, '_parent', None)
                if isinstance(par, ast.Call) and norm(par.func) == 'len' and par.args and par.args[0] is s:
                    continue
                out.append(n)
                break
    return out


def _pair_site(repo, f, idx, _depth=0):
    """(function, node parameter name) where a sequence of single-pair mappings is walked: the constructor itself, or
    the method it hands its node to."""
    node = f.params[idx]
    env = {'_N_node': name_node(node)}
    for n in walk_function(f.node):
        if isinstance(n, (ast.For, ast.comprehension)) and is_every_source(
                f.node, n.iter, lambda e: pmatch('_N_node.value', e, env) is not None, f.params):
            return f, node
    if _depth >= 3 or f.cls is None:
        return None
    for c in A.func_calls(f.node):
        if isinstance(c.func, ast.Attribute) and isinstance(c.func.value, ast.Name) and c.func.value.id == f.params[0]:
            found = repo.lookup(f.cls, c.func.attr)
            if not found or not isinstance(found[1], FuncInfo):
                continue
            for i, a in enumerate(c.args):
                if isinstance(a, ast.Name) and a.id == node and i + 1 < len(found[1].params):
                    r = _pair_site(repo, found[1], i + 1, _depth + 1)
                    if r is not None:
                        return r
    return None


def r_shape_dispatch_total(ctx, repo):
    """node-shape guards in the constructors: every use of a node as mapping/sequence/scalar is dominated by the isinstance
    test whose failure raises ConstructorError."""
    rule = ctx.rule('R-SHAPE-DISPATCH-TOTAL', 'every use of a node as scalar / sequence / mapping / single-pair mapping in the core '
                                              'constructors is dominated by the isinstance / length test whose failure raises ConstructorError')
    cerr = repo.cls('constructor.ConstructorError')
    targets = [('constructor.BaseConstructor.construct_scalar', 'ScalarNode'),
               ('constructor.BaseConstructor.construct_sequence', 'SequenceNode'),
               ('constructor.BaseConstructor.construct_mapping', 'MappingNode'),
               ('constructor.BaseConstructor.construct_pairs', 'MappingNode')]
    for q, kind in targets:
        f = repo.func(q)
        cfg = CFG(f.node)
        node = f.params[1]
        uses = _value_uses(cfg, node)
        edges = _kind_edges(cfg, node, kind)
        for (n, pos) in edges:
            # the failing edge raises ConstructorError
            only, raises = only_raises(cfg, [m for (m, lab) in cfg.succ[n] if lab != pos and lab != 'exc'])
            if only and raises and all(raise_class_ok(repo, f, x, cerr) for x in raises):
                rule.ok(f.loc(n.ast), '%s: wrong node kind -> ConstructorError' % f.name)
            else:
                rule.fail('%s|reject' % f.qualname, f.module.rel, n.lineno, f.qualname, norm(n.ast),
                          '%s does not reject a node of the wrong kind with ConstructorError' % f.name)
        for u in uses:
            if edges and cfg.guarded(u, edges=edges):
                rule.ok(f.loc(u.ast) if isinstance(u.ast, ast.AST) else f.loc(), '%s: the node\'s value is used only after isinstance(node, %s)'
                        % (f.name, kind))
            else:
                rule.fail('%s|use' % f.qualname, f.module.rel, u.lineno, f.qualname, norm(u.ast).split('\n')[0][:70],
                          '%s uses %s.value without a dominating isinstance(%s, %s) test: a node of another kind under this tag '
                          'raises TypeError/ValueError (or is silently mis-read) instead of ConstructorError'
                          % (f.name, node, node, kind))
        if not uses or not edges:
            raise AnalysisError('%s: node kind guard not found' % q)
    # omap / pairs: a sequence whose entries are mappings with exactly one pair
    for q in ('constructor.SafeConstructor.construct_yaml_omap', 'constructor.SafeConstructor.construct_yaml_pairs'):
        f = repo.func(q)
        site = _pair_site(repo, f, 1)
        if site is None:
            raise AnalysisError('%s: omap/pairs shape not recognised (no loop over the entries of the node)' % q)
        g, node = site
        cfg = CFG(g.node)
        env = {'_N_node': name_node(node)}
        loops = [n for n in cfg.nodes if n.kind == 'for' and is_every_source(
            g.node, n.ast, lambda e: pmatch('_N_node.value', e, env) is not None, g.params)]
        entries = [(n, n.stmt.target.id) for n in loops if isinstance(n.stmt.target, ast.Name)]
        if not entries or len(entries) != len(loops):
            raise AnalysisError('%s: omap/pairs shape not recognised (entries are not bound to a name)' % q)
        seq_edges = _kind_edges(cfg, node, 'SequenceNode')
        checks = []
        for loop, sub in entries:
            uses = _value_uses(cfg, sub)
            if not uses:
                raise AnalysisError('%s: omap/pairs shape not recognised (the entries\' pairs are never read)' % q)
            senv = {'_N_sub': name_node(sub)}

            def one(inner):
                for src, lab in (('len(_N_sub.value) != 1', False), ('len(_N_sub.value) == 1', True)):
                    if pmatch(src, inner, senv) is not None:
                        return lab
                return None
            checks.append((loop, seq_edges, 'the node is a sequence'))
            for u in uses:
                checks.append((u, _kind_edges(cfg, sub, 'MappingNode'), 'each entry is a mapping'))
                checks.append((u, _test_edges_resolved(cfg, one), 'each entry has exactly one pair'))
        for target, edges, what in checks:
            if edges and cfg.guarded(target, edges=edges):
                rule.ok(f.loc(), '%s checks that %s' % (f.name, what))
            else:
                rule.fail('%s|%s' % (f.qualname, what), g.module.rel, target.lineno, f.qualname, norm(target.ast).split('\n')[0][:70],
                          '%s no longer checks that %s before using it: an ill-shaped !!omap/!!pairs value raises '
                          'TypeError/ValueError/IndexError instead of ConstructorError (or is silently accepted)' % (f.name, what))
        # a failing shape test raises ConstructorError
        for (n, pos) in seq_edges + [e for (loop, sub) in entries for e in _kind_edges(cfg, sub, 'MappingNode')]:
            only, raises = only_raises(cfg, [m for (m, lab) in cfg.succ[n] if lab != pos and lab != 'exc'])
            if only and raises and all(raise_class_ok(repo, g, x, cerr) for x in raises):
                rule.ok(g.loc(n.ast), '%s: ill-shaped value -> ConstructorError' % f.name)
            else:
                rule.fail('%s|reject|%s' % (f.qualname, norm(n.ast.args[1]) if isinstance(n.ast, ast.Call) else ''), g.module.rel,
                          n.lineno, f.qualname, norm(n.ast), '%s does not reject an ill-shaped value with ConstructorError' % f.name)
    # merge keys: the value of `<<` and the entries of a merge list are used as mappings / sequences only under the
    # matching isinstance test, anything else is rejected with ConstructorError
    f = repo.func('constructor.SafeConstructor.flatten_mapping')
    cfg = CFG(f.node)
    node = f.params[1]
    derived = _derived_nodes(f.node, node)
    n_checked = n_reject = 0
    for var in sorted(derived):
        uses = _value_uses(cfg, var, kinds=('stmt', 'for', 'return'))
        if not uses:
            continue
        map_edges = _kind_edges(cfg, var, 'MappingNode')
        seq_edges = _kind_edges(cfg, var, 'SequenceNode')
        role = derived[var]
        for u in uses:
            n_checked += 1
            edges = map_edges + (seq_edges if u.kind == 'for' else [])
            if edges and cfg.guarded(u, edges=edges):
                rule.ok(f.loc(), 'flatten_mapping reads the pairs of %s only if it is a mapping%s'
                        % (role, ' / iterates it only if it is a sequence' if u.kind == 'for' else ''))
            else:
                rule.fail('%s|%s' % (f.qualname, role), f.module.rel, u.lineno, f.qualname, norm(u.ast).split('\n')[0][:70],
                          'flatten_mapping merges the value of %s (%s.value) without checking that it is a mapping node' % (role, var))
        tests = map_edges + seq_edges
        if tests:
            n_reject += 1

            def atom(t, var=var):
                inner, pos = A.strip_not(t)
                if isinstance(inner, ast.Call) and norm(inner.func) == 'isinstance' and len(inner.args) == 2 \
                        and isinstance(inner.args[0], ast.Name) and inner.args[0].id == var:
                    return (not pos)
                return None
            starts = [m for (n, pos) in tests for (m, lab) in cfg.succ[n] if lab != pos and lab != 'exc']
            only, raises = only_raises(cfg, starts, atom)
            if only and raises and all(raise_class_ok(repo, f, x, cerr) for x in raises):
                rule.ok(f.loc(), 'flatten_mapping rejects %s of any other kind with ConstructorError' % role)
            else:
                rule.fail('%s|reject|%s' % (f.qualname, role), f.module.rel, tests[0][0].lineno, f.qualname, 'raise ConstructorError',
                          'flatten_mapping no longer rejects merge values that are neither a mapping nor a list of mappings '
                          '(%s of another kind is not answered with ConstructorError)' % role)
    if n_checked < 1 or n_reject < 1:
        raise AnalysisError('flatten_mapping: no use of a merge value under a node-kind test found')
    return rule


def _derived_nodes(fnode, node):
    """{local name: role description} of the locals that hold nodes taken out of <node>.value (pair elements, entries of
    a merge list), transitively."""
    derived = {}
    tracked = {node: 'the node'}
    changed = True

    def from_tracked(e):
        """e is T.value / T.value[i] for a tracked T -> T"""
        if isinstance(e, ast.Subscript):
            e = e.value
        if isinstance(e, ast.Attribute) and e.attr == 'value' and isinstance(e.value, ast.Name) and e.value.id in tracked:
            return e.value.id
        return None
    while changed:
        changed = False
        for n in walk_function(fnode):
            tgt = src = None
            if isinstance(n, ast.Assign) and len(n.targets) == 1 and isinstance(n.value, ast.Subscript):
                tgt, src = n.targets[0], from_tracked(n.value)
            elif isinstance(n, (ast.For, ast.comprehension)):
                tgt, src = n.target, from_tracked(n.iter) if not isinstance(n.iter, ast.Subscript) else None
            if src is None:
                continue
            names = [x for x in (tgt.elts if isinstance(tgt, (ast.Tuple, ast.List)) else [tgt]) if isinstance(x, ast.Name)]
            for i, x in enumerate(names):
                if x.id not in tracked:
                    if isinstance(tgt, (ast.Tuple, ast.List)):
                        role = 'the %s node of a pair of %s' % ('key' if i == 0 else 'value', tracked[src])
                    else:
                        role = 'an entry of %s' % tracked[src]
                    tracked[x.id] = role
                    derived[x.id] = role
                    changed = True
    return derived


HASHABLE = ('collections.abc.Hashable', 'Hashable', 'collections.Hashable')


def r_hashable_guard(ctx, repo):
    rule = ctx.rule('R-HASHABLE-GUARD', 'the dict store of construct_mapping is dominated by `not isinstance(key, Hashable) -> raise '
                                        'ConstructorError`; sets and maps obtain their content only through construct_mapping')
    f = repo.func('constructor.BaseConstructor.construct_mapping')
    cerr = repo.cls('constructor.ConstructorError')
    cfg = CFG(f.node)
    # key stores: item assignment / setdefault / update on a local dict
    stores = []
    for n in cfg.nodes:
        if n.kind == 'stmt' and isinstance(n.ast, ast.Assign):
            for t in n.ast.targets:
                if isinstance(t, ast.Subscript) and isinstance(t.value, ast.Name):
                    stores.append((n, t.slice))
        if n.ast is not None and n.kind == 'stmt':
            for x in own_exprs(n):
                if isinstance(x, ast.Call) and isinstance(x.func, ast.Attribute) and x.func.attr in ('setdefault', '__setitem__') \
                        and isinstance(x.func.value, ast.Name) and x.args:
                    stores.append((n, x.args[0]))
    if not stores:
        raise AnalysisError('construct_mapping: dict store not found')
    for s, key in stores:
        def hashable(inner, key=key):
            if isinstance(inner, ast.Call) and norm(inner.func) == 'isinstance' and len(inner.args) == 2 and same(inner.args[0], key) \
                    and norm(inner.args[1]) in HASHABLE:
                return True
            return None
        edges = _test_edges(cfg, hashable)
        rejects = True
        for (n, pos) in edges:
            only, raises = only_raises(cfg, [m for (m, lab) in cfg.succ[n] if lab != pos and lab != 'exc'])
            if not (only and raises and all(raise_class_ok(repo, f, x, cerr) for x in raises)):
                rejects = False
        if edges and rejects and cfg.guarded(s, edges=edges):
            rule.ok(f.loc(s.ast), 'the dict store happens only for Hashable keys')
        else:
            rule.fail('%s|hashable' % f.qualname, f.module.rel, s.lineno, f.qualname, norm(s.ast),
                      'a key is stored in the dict without a dominating isinstance(key, collections.abc.Hashable) test: an '
                      'unhashable key (e.g. a !!set or a sequence) raises a bare TypeError instead of ConstructorError')
    for q in ('constructor.SafeConstructor.construct_yaml_set', 'constructor.SafeConstructor.construct_yaml_map'):
        g = repo.func(q)
        calls = [c for c in A.func_calls(g.node) if isinstance(c.func, ast.Attribute) and c.func.attr.startswith('construct_')]
        if calls and all(c.func.attr == 'construct_mapping' for c in calls):
            rule.ok(g.loc(), '%s fills itself from construct_mapping only' % g.name)
        else:
            rule.fail('%s|source' % g.qualname, g.module.rel, g.node.lineno, g.qualname, 'self.construct_mapping(node)',
                      '%s builds its content without going through construct_mapping (and its hashability check)' % g.name)
    return rule


def r_merge_shape(ctx, repo):
    """structural invariants of flatten_mapping that precedence and source re-use rest on."""
    rule = ctx.rule('R-MERGE-SHAPE', 'flatten_mapping only mutates fresh lists and the value list of the node being flattened, and '
                                     'places merged pairs before the node\'s own pairs (node.value = merged + node.value)')
    f = repo.func('constructor.SafeConstructor.flatten_mapping')
    node = f.params[1]
    own = '%s.value' % node
    # locals that may alias the value list of another node
    foreign = {}
    for n in walk_function(f.node):
        if isinstance(n, ast.Assign) and isinstance(n.value, ast.Attribute) and n.value.attr == 'value' \
                and norm(n.value.value) != node:
            for t in n.targets:
                if isinstance(t, ast.Name):
                    foreign.setdefault(t.id, norm(n.value))
    muts = A.find_mutations(f.node)
    n_foreign = 0
    for m in muts:
        if isinstance(m.root, ast.Name) and m.root.id in foreign and m.kind != 'rebind':
            n_foreign += 1
            rule.fail('%s|foreign|alias|%d' % (f.qualname, n_foreign), f.module.rel, m.node.lineno, f.qualname, norm(m.stmt)[:70],
                      'the local %s may be the value list of another node (%s) and is mutated here: flattening one mapping '
                      'changes a merge source that other mappings share' % (m.root.id, foreign[m.root.id]))
    for m in muts:
        root = m.root
        if isinstance(root, ast.Attribute) and root.attr == 'value' and norm(root) != own and m.kind != 'rebind':
            n_foreign += 1
            rule.fail('%s|foreign|value|%d' % (f.qualname, n_foreign), f.module.rel, m.node.lineno, f.qualname, norm(m.stmt)[:70],
                      'flatten_mapping mutates %s, the value list of a node other than the one being flattened' % norm(root))
    # mutations of node.value: deletion of merge keys and one final prepend
    n_del = n_prepend = n_other = 0
    for m in muts:
        if norm(m.root) == own or (m.kind == 'rebind' and norm(m.receiver) == own):
            if m.kind == 'delitem':
                n_del += 1
                continue
            if m.kind == 'rebind' and isinstance(m.stmt, ast.Assign) and isinstance(m.stmt.value, ast.BinOp) \
                    and isinstance(m.stmt.value.op, ast.Add) and norm(m.stmt.value.right) == own \
                    and isinstance(m.stmt.value.left, ast.Name) and m.stmt.value.left.id not in foreign:
                n_prepend += 1
                continue
            n_other += 1
            rule.fail('%s|own-order|%d' % (f.qualname, n_other), f.module.rel, m.node.lineno, f.qualname, norm(m.stmt)[:70],
                      'node.value is rearranged by something else than deleting merge keys and prepending the merged pairs: merged '
                      'pairs that do not precede all own pairs override keys the mapping defines itself')
    # nothing is filtered out of the merged pairs: the list that is prepended only grows (append / extend / + / reverse) -
    # a pair that is dropped is a node that is never constructed, so its tag is never dispatched (and never rejected)
    prepended = set()
    for m in muts:
        if m.kind == 'rebind' and isinstance(m.stmt, ast.Assign) and isinstance(m.stmt.value, ast.BinOp) \
                and isinstance(m.stmt.value.op, ast.Add) and norm(m.stmt.value.right) == own and isinstance(m.stmt.value.left, ast.Name):
            prepended.add(m.stmt.value.left.id)
    n_filter = 0
    for L in sorted(prepended):
        for n in walk_function(f.node):
            bad = None
            if isinstance(n, ast.Assign) and any(isinstance(t, ast.Name) and t.id == L for t in n.targets):
                v = n.value
                if isinstance(v, (ast.ListComp, ast.GeneratorExp)) and any(g.ifs for g in v.generators):
                    bad = 'rebuilt by a filtering comprehension'
                elif isinstance(v, ast.Call) and norm(v.func) in ('filter', 'list') and v.args and \
                        any(isinstance(x, (ast.ListComp, ast.GeneratorExp)) and any(g.ifs for g in x.generators) or
                            (isinstance(x, ast.Call) and norm(x.func) == 'filter') for x in ast.walk(v)):
                    bad = 'rebuilt through a filter'
                elif isinstance(v, ast.Subscript) and isinstance(v.slice, ast.Slice):
                    bad = 'cut by a slice'
            elif isinstance(n, ast.Delete) and any(isinstance(t, ast.Subscript) and isinstance(t.value, ast.Name) and t.value.id == L
                                                   for t in n.targets):
                bad = 'entries deleted'
            elif isinstance(n, ast.Call) and isinstance(n.func, ast.Attribute) and isinstance(n.func.value, ast.Name) \
                    and n.func.value.id == L and n.func.attr in ('remove', 'pop', 'clear'):
                bad = 'entries removed with .%s()' % n.func.attr
            if bad:
                n_filter += 1
                rule.fail('%s|filtered|%d' % (f.qualname, n_filter), f.module.rel, n.lineno, f.qualname, norm(n)[:70],
                          'the list of merged pairs is %s before it is prepended: a merged pair that is dropped is never '
                          'constructed, so whatever tag it carries is never dispatched and never rejected' % bad)
    if n_del >= 1 and n_prepend >= 1:
        rule.ok(f.loc(), 'node.value: merge keys deleted, merged pairs prepended')
    elif not rule.failed:
        raise AnalysisError('flatten_mapping: expected deletion + prepend of node.value not found')
    if not rule.failed:
        rule.ok(f.loc(), 'no foreign value list is mutated')
    return rule


# ------------------------------------------------------------------------------------------------ C17

def _assigned_from(fnode, pred):
    """names of the locals that are bound (only) to expressions satisfying pred."""
    return {nm for nm, ds in local_defs(fnode).items() if ds and all(d is not None and pred(d) for d in ds)}


def r_field_vocab(ctx, repo):
    rule = ctx.rule('R-FIELD-VOCAB', 'the mapping keys represent_object writes are keys construct_python_object_apply reads; list items '
                                     'are applied with extend and dict items by item assignment (pickle\'s protocol); arguments are '
                                     'constructed deep')
    w = repo.func('representer.Representer.represent_object')
    r = repo.func('constructor.FullConstructor.construct_python_object_apply')
    # written: constant keys stored into a dict that is handed to represent_mapping
    handed = set()
    for c in A.func_calls(w.node):
        if _self_call('represent_mapping')(c):
            a = call_arg(c, 1, 'mapping')
            if isinstance(a, ast.Name):
                handed.add(a.id)
    written = set()
    for n in walk_function(w.node):
        if isinstance(n, ast.Assign):
            for t in n.targets:
                if isinstance(t, ast.Subscript) and isinstance(t.value, ast.Name) and t.value.id in handed:
                    s = A.const_str(t.slice)
                    if s:
                        written.add(s)
                if isinstance(t, ast.Name) and t.id in handed and isinstance(n.value, ast.Dict):
                    for k in n.value.keys:
                        s = A.const_str(k) if k is not None else None
                        if s:
                            written.add(s)
    if not written:
        raise AnalysisError('represent_object: no constant key written into a mapping handed to represent_mapping')
    # read: constant keys looked up in the local that receives self.construct_mapping(node)
    if len(r.params) < 3:
        raise AnalysisError('construct_python_object_apply: expected (self, suffix, node, ...)')
    fields = _assigned_from(r.node, lambda d: _self_call('construct_mapping')(d))
    read = set()
    field_of = {}                 # local -> key it receives

    def field_key(e):
        """the constant key when e reads a field of the constructed mapping: m.get(k[, default]) / m.pop(k[, default]) / m[k],
        also with a fallback for a missing / empty field (`m.get(k) or default`)."""
        if isinstance(e, ast.BoolOp) and isinstance(e.op, ast.Or):
            e = e.values[0]
        if isinstance(e, ast.Call) and isinstance(e.func, ast.Attribute) and e.func.attr in ('get', 'pop') \
                and isinstance(e.func.value, ast.Name) and e.func.value.id in fields and e.args:
            return A.const_str(e.args[0])
        if isinstance(e, ast.Subscript) and isinstance(e.ctx, ast.Load) and isinstance(e.value, ast.Name) and e.value.id in fields:
            return A.const_str(e.slice)
        return None
    for n in walk_function(r.node):
        key = field_key(n) if isinstance(n, (ast.Call, ast.Subscript)) else None
        if key:
            read.add(key)
    # the locals that receive a field: any binding of the name (plain, or element-wise in a parallel assignment
    # `a, b = m.get('a'), m.get('b')`) whose value is such a read; plain copies of such locals carry the same field
    defs = local_defs(r.node)
    grew = True
    while grew:
        grew = False
        for nm, ds in defs.items():
            if nm in field_of:
                continue
            for d in ds:
                key = None
                if d is not None:
                    key = field_key(d) or (field_of.get(d.id) if isinstance(d, ast.Name) else None)
                if key:
                    field_of[nm] = key
                    grew = True
                    break
    if written <= read:
        rule.ok(w.loc(), 'written %s subset of read %s' % (sorted(written), sorted(read)))
    else:
        rule.fail('field-vocab|%s' % sorted(written - read), w.module.rel, w.node.lineno, w.qualname, 'value[...]',
                  'represent_object writes the keys %s that construct_python_object_apply does not read: that part of the '
                  'object state is lost on load' % sorted(written - read))
    # application protocol
    insts = _assigned_from(r.node, lambda d: _self_call('make_python_instance')(d))
    if not insts:
        raise AnalysisError('construct_python_object_apply: the instance (result of make_python_instance) was not found')
    def mentions_field(e, key):
        """the expression reads the field `key` of the constructed mapping (directly or through the local that received it)"""
        for x in ast.walk(e):
            if isinstance(x, ast.Name) and field_of.get(x.id) == key:
                return True
            if isinstance(x, ast.Call) and isinstance(x.func, ast.Attribute) and x.func.attr in ('get', 'pop') \
                    and isinstance(x.func.value, ast.Name) and x.func.value.id in fields and x.args and A.const_str(x.args[0]) == key:
                return True
            if isinstance(x, ast.Subscript) and isinstance(x.value, ast.Name) and x.value.id in fields and A.const_str(x.slice) == key:
                return True
        return False
    ext = [c for c in A.func_calls(r.node) if isinstance(c.func, ast.Attribute) and c.func.attr == 'extend'
           and isinstance(c.func.value, ast.Name) and c.func.value.id in insts and len(c.args) == 1
           and mentions_field(c.args[0], 'listitems')]
    setitem = [n for n in walk_function(r.node) if isinstance(n, ast.Assign) and isinstance(n.targets[0], ast.Subscript)
               and isinstance(n.targets[0].value, ast.Name) and n.targets[0].value.id in insts
               and any(mentions_field(p.iter, 'dictitems') for p in _enclosing_loops(n, r.node))]
    other = [c for c in A.func_calls(r.node) if isinstance(c.func, ast.Attribute) and isinstance(c.func.value, ast.Name)
             and c.func.value.id in insts and c.func.attr not in ('extend',)]
    if ext and setitem and not other:
        rule.ok(r.loc(), 'listitems via extend, dictitems via instance[key] = value')
    else:
        rule.fail('%s|apply-protocol' % r.qualname, r.module.rel, r.node.lineno, r.qualname, 'instance.extend / instance[key] = ...',
                  'list items / dict items are not applied the way pickle applies them (extend; one __setitem__ per item)%s: '
                  'classes that override __setitem__ or lack the substituted method are rebuilt differently'
                  % (' - uses %s' % norm(other[0]) if other else ''))
    deep = [c for c in A.func_calls(r.node) if isinstance(c.func, ast.Attribute) and c.func.attr in ('construct_sequence', 'construct_mapping')]
    if deep and all(any(k.arg == 'deep' and isinstance(k.value, ast.Constant) and k.value.value is True for k in c.keywords)
                    or (len(c.args) >= 2 and isinstance(c.args[1], ast.Constant) and c.args[1].value is True) for c in deep):
        rule.ok(r.loc(), 'constructor arguments are constructed with deep=True')
    else:
        rule.fail('%s|deep' % r.qualname, r.module.rel, r.node.lineno, r.qualname, 'deep=True',
                  'construct_python_object_apply does not construct its arguments eagerly: the callable receives containers that '
                  'are still empty')
    # construct_python_object: the state mapping is constructed deep exactly when the instance has __setstate__
    o = repo.func('constructor.FullConstructor.construct_python_object')
    oinsts = _assigned_from(o.node, lambda d: _self_call('make_python_instance')(d))

    def has_setstate(e):
        b = pmatch("hasattr(_N_i, '__setstate__')", e)
        return b is not None and b['_N_i'].id in oinsts
    states = [c for c in A.func_calls(o.node) if _self_call('construct_mapping')(c)]
    ok = bool(states) and bool(oinsts)
    for c in states:
        d = call_arg(c, 1, 'deep')
        if d is None or not is_every_source(o.node, d, has_setstate):
            ok = False
    if ok:
        rule.ok(o.loc(), 'state is constructed deep exactly when __setstate__ will consume it')
    else:
        rule.fail('%s|deep' % o.qualname, o.module.rel, o.node.lineno, o.qualname, "deep = hasattr(instance, '__setstate__')",
                  'construct_python_object no longer constructs the state eagerly when it is handed to __setstate__')
    return rule


def _enclosing_loops(n, stop):
    p = getattr(n, '_parent', None)
    while p is not None and p is not stop:
        if isinstance(p, (ast.For, ast.AsyncFor)):
            yield p
        p = getattr(p, '_parent', None)


def r_state_applied(ctx, repo):
    """R-STATE-APPLIED: must-use analysis of the object state in set_python_instance_state.

    pickle applies *both* halves of a (dict_state, slot_state) pair.  Tracked values: the state parameter and every local
    that receives (part of) a tracked value (tuple unpacking, subscripts, `y.update(x)` transfers).  From each definition of a
    tracked name, every normal path to the exit must pass a statement that *applies* it (argument of a call, iterable of a
    `for`, right-hand side of another tracked definition) or leave through the false edge of a plain truthiness test of that
    name (nothing to apply).  A path on which a half is silently dropped is a violation.
    """
    rule = ctx.rule('R-STATE-APPLIED', 'every part of the object state (dict half and slot half) is applied to the instance on '
                                       'every normal path of set_python_instance_state')
    f = repo.func('constructor.FullConstructor.set_python_instance_state')
    if len(f.params) < 3:
        raise AnalysisError('set_python_instance_state: expected (self, instance, state, ...)')
    state = f.params[2]
    cfg = CFG(f.node)

    def names_loaded(e):
        return {x.id for x in ast.walk(e) if isinstance(x, ast.Name) and isinstance(x.ctx, ast.Load)}

    # taint closure over local names
    tracked = {state}
    changed = True
    while changed:
        changed = False
        for n in cfg.nodes:
            a = n.ast
            if n.kind == 'stmt' and isinstance(a, ast.Assign) and names_loaded(a.value) & tracked:
                for t in a.targets:
                    for x in ast.walk(t):
                        if isinstance(x, ast.Name) and isinstance(x.ctx, ast.Store) and x.id not in tracked:
                            tracked.add(x.id)
                            changed = True
            if n.kind == 'stmt' and isinstance(a, ast.Expr) and isinstance(a.value, ast.Call) and \
                    isinstance(a.value.func, ast.Attribute) and a.value.func.attr in ('update', 'extend', 'append') and \
                    isinstance(a.value.func.value, ast.Name) and any(names_loaded(x) & tracked for x in a.value.args):
                if a.value.func.value.id not in tracked:
                    tracked.add(a.value.func.value.id)
                    changed = True

    def applies(n, v):
        """does CFG node n hand the value of v on (call argument / loop iterable / source of another definition)?"""
        a = n.ast
        if a is None:
            return False
        if n.kind == 'for':
            return v in names_loaded(a)
        if n.kind in ('stmt', 'return'):
            if isinstance(a, ast.Assign):
                return v in names_loaded(a.value)
            for c in ast.walk(a):
                if isinstance(c, ast.Call):
                    for x in list(c.args) + [k.value for k in c.keywords]:
                        if v in names_loaded(x):
                            # isinstance/len/hasattr only inspect
                            if norm(c.func) in ('isinstance', 'len', 'hasattr', 'type', 'bool'):
                                continue
                            return True
        return False

    def is_def(n, v):
        a = n.ast
        if n.kind == 'stmt' and isinstance(a, ast.Assign):
            if any(isinstance(x, ast.Name) and x.id == v and isinstance(x.ctx, ast.Store) for t in a.targets for x in ast.walk(t)):
                # empty literal: nothing to apply
                if isinstance(a.value, (ast.Dict, ast.List, ast.Tuple, ast.Set)) and not (getattr(a.value, 'keys', None) or getattr(a.value, 'elts', None)):
                    return False
                if isinstance(a.value, ast.Constant) and not a.value.value:
                    return False
                return True
        if n.kind == 'stmt' and isinstance(a, ast.Expr) and isinstance(a.value, ast.Call) and isinstance(a.value.func, ast.Attribute) \
                and a.value.func.attr in ('update', 'extend', 'append') and isinstance(a.value.func.value, ast.Name) \
                and a.value.func.value.id == v and any(names_loaded(x) & tracked for x in a.value.args):
            return True
        return False

    # a stable, name-free label for each tracked value: the parameter, then the locals in order of first binding
    first_def = {}
    for n in cfg.nodes:
        for v in tracked:
            if v != state and v not in first_def and n.ast is not None and is_def(n, v):
                first_def[v] = (n.lineno, n.id)
    order = [state] + sorted((v for v in tracked if v != state), key=lambda v: first_def.get(v, (10 ** 9, 0)))
    label = {v: ('state' if i == 0 else 'part-%d' % i) for i, v in enumerate(order)}
    n_obl = 0
    for v in order:
        consumers = [n for n in cfg.nodes if applies(n, v) and not (is_def(n, v) and not (n.kind == 'stmt' and isinstance(n.ast, ast.Assign) and v in names_loaded(n.ast.value)))]
        empty_edges = [(n, False) for n in cfg.nodes if n.kind == 'test' and isinstance(n.ast, ast.Name) and n.ast.id == v]
        empty_edges += [(n, True) for n in cfg.nodes if n.kind == 'test' and isinstance(n.ast, ast.UnaryOp)
                        and isinstance(n.ast.op, ast.Not) and isinstance(n.ast.operand, ast.Name) and n.ast.operand.id == v]
        starts = [cfg.entry] if v == state else []
        starts += [n for n in cfg.nodes if is_def(n, v)]
        for d in starts:
            n_obl += 1
            first = [m for (m, lab) in cfg.succ[d] if lab != 'exc']
            r = cfg.reach(first, blocked=consumers, blocked_edges=empty_edges, follow_exc=False)
            dropped = [x for x in cfg.normal_exits() if x in r]
            # a consumer that is itself the start (e.g. `state, slot = state`) was already passed
            if dropped:
                rule.fail('%s|%s dropped' % (f.qualname, label[v]), f.module.rel, d.lineno or f.node.lineno, f.qualname, v,
                          'on some path from line %d to the end of the function the value of `%s` (part of the object state) is '
                          'neither applied to the instance nor known to be empty: pickle restores both the __dict__ half and the '
                          'slots half of a (dict_state, slot_state) pair, here one half is silently dropped for some classes '
                          '(e.g. a class with __slots__ in a base and an instance __dict__)' % (d.lineno or f.node.lineno, v))
            else:
                rule.ok(f.loc(d.ast if d.ast is not None else f.node), '`%s` is applied on every path' % v)
    if n_obl < 2:
        raise AnalysisError('R-STATE-APPLIED: fewer than 2 state definitions found in set_python_instance_state')
    return rule
