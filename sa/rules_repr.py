"""Representer / serializer / constructor agreement rules (C02, C14, C16, C17)."""
import ast

from . import astutil as A
from . import rules_registry as RR
from .cfg import CFG, own_exprs
from .srcmodel import AnalysisError, ClassInfo, FuncInfo, norm, walk_function

CORE = 'tag:yaml.org,2002:'
SAFE_TYPES = {'type(None)', 'str', 'bytes', 'bool', 'int', 'float', 'list', 'tuple', 'dict', 'set',
              'datetime.date', 'datetime.datetime', 'None'}
KIND_OF_CALL = {'represent_scalar': 'scalar', 'represent_sequence': 'sequence', 'represent_mapping': 'mapping'}
CHILD_KIND = {'construct_scalar': 'scalar', 'construct_sequence': 'sequence', 'construct_mapping': 'mapping',
              'construct_pairs': 'mapping', 'flatten_mapping': 'mapping'}


def representer_outputs(repo, f, cls, _seen=None):
    """[(tag text or const, kind, call node)] a representer function can emit (following self.represent_* helpers)."""
    out = []
    _seen = _seen or set()
    if f in _seen:
        return out
    _seen.add(f)
    for c in A.func_calls(f.node):
        if isinstance(c.func, ast.Attribute) and norm(c.func.value) == f.params[0]:
            if c.func.attr in KIND_OF_CALL and c.args:
                t = c.args[0]
                out.append((t, KIND_OF_CALL[c.func.attr], c, f))
            elif c.func.attr.startswith('represent_') and c.func.attr not in ('represent_data',):
                found = repo.lookup(cls, c.func.attr)
                if found and isinstance(found[1], FuncInfo):
                    out.extend(representer_outputs(repo, found[1], cls, _seen))
    return out


def tag_prefix_of(f, t):
    """constant tag, or constant prefix of `CONST + name` / a local bound to such a constant."""
    s = A.const_str(t)
    if s is not None:
        return s, True
    if isinstance(t, ast.BinOp) and isinstance(t.op, (ast.Add, ast.Mod)):
        l = tag_prefix_of(f, t.left)
        if l is not None:
            out = []
            for (s, exact) in (l if isinstance(l, list) else [l]):
                if isinstance(t.op, ast.Mod):
                    s = s.split('%')[0]
                out.append((s, False))
            return out if len(out) > 1 else out[0]
    if isinstance(t, ast.Name):
        vals = [n.value for n in walk_function(f.node) if isinstance(n, ast.Assign)
                and any(isinstance(x, ast.Name) and x.id == t.id for x in n.targets)]
        res = [tag_prefix_of(f, v) for v in vals]
        res = [r for r in res if r is not None]
        if res and len(res) == len(vals):
            return res
    return None


def constructor_kinds(repo, f, cls, _seen=None):
    """node kinds a constructor function accepts, from the kind constructors it calls / isinstance tests."""
    kinds = set()
    _seen = _seen or set()
    if f in _seen:
        return kinds
    _seen.add(f)
    for c in A.func_calls(f.node):
        if isinstance(c.func, ast.Attribute) and norm(c.func.value) == f.params[0]:
            if c.func.attr in CHILD_KIND:
                kinds.add(CHILD_KIND[c.func.attr])
            elif c.func.attr.startswith('construct_') or c.func.attr.startswith('make_'):
                found = repo.lookup(cls, c.func.attr)
                if found and isinstance(found[1], FuncInfo):
                    kinds |= constructor_kinds(repo, found[1], cls, _seen)
        if norm(c.func) == 'isinstance' and len(c.args) == 2:
            k = norm(c.args[1])
            for nm, kd in (('ScalarNode', 'scalar'), ('SequenceNode', 'sequence'), ('MappingNode', 'mapping')):
                if nm in k:
                    kinds.add(kd)
    return kinds


def r_tag_vocab(ctx, repo, dumpers, loaders, rule_id, exact_types=None):
    rule = ctx.rule(rule_id, 'every tag a representer of %s can write has a constructor in %s that accepts the node kind written'
                    % ('/'.join(d.split('.')[-1] for d in dumpers), '/'.join(l.split('.')[-1] for l in loaders)))
    rm = RR.model(repo)
    for dq in dumpers:
        D = repo.cls(dq)
        reps = dict(rm.heap.table(D, 'yaml_representers'))
        multi = dict(rm.heap.table(D, 'yaml_multi_representers'))
        if exact_types is not None:
            keys = set(reps)
            if keys != exact_types or multi:
                rule.fail('%s|types|+%s|-%s' % (dq, sorted(keys - exact_types), sorted(exact_types - keys)), D.module.rel,
                          D.node.lineno, dq, 'yaml_representers',
                          'the representer table of %s is not the safe type universe: unexpected %s, missing %s, multi %s'
                          % (dq, sorted(keys - exact_types), sorted(exact_types - keys), sorted(multi)))
            else:
                rule.ok('%s:%d' % (D.module.rel, D.node.lineno), '%s represents exactly the %d safe types' % (D.name, len(keys)))
        for tkey, f in list(reps.items()) + list(multi.items()):
            for t, kind, call, owner in representer_outputs(repo, f, D):
                tp = tag_prefix_of(owner, t)
                if tp is None:
                    if owner.name in ('represent_yaml_object',):
                        continue      # tag supplied by the user class (YAMLObject)
                    raise AnalysisError('%s: tag expression %s not understood' % (owner.loc(call), norm(t)))
                for (tag, exact) in (tp if isinstance(tp, list) else [tp]):
                    for lq in loaders:
                        L = repo.cls(lq)
                        ctab = rm.heap.table(L, 'yaml_constructors')
                        mtab = rm.heap.table(L, 'yaml_multi_constructors')
                        cf = None
                        if exact and tag in ctab:
                            cf = ctab[tag]
                        elif not exact:
                            for pfx, g in mtab.items():
                                if pfx is not None and tag.startswith(pfx):
                                    cf = g
                            if cf is None and tag in ctab:
                                cf = None
                        if cf is None and exact:
                            for pfx, g in mtab.items():
                                if pfx is not None and tag.startswith(pfx):
                                    cf = g
                        if cf is None:
                            rule.fail('%s|%s|%s|no-constructor' % (owner.qualname, tag, lq), owner.module.rel, call.lineno,
                                      owner.qualname, norm(call)[:80],
                                      '%s writes the tag %s%s, for which %s has no constructor: the dumped document cannot be loaded'
                                      % (owner.name, tag, '' if exact else '<name>', lq))
                            continue
                        kinds = constructor_kinds(repo, cf, L)
                        if kind in kinds or not kinds:
                            rule.ok(owner.loc(call), '%s -> %s %s node -> %s.%s' % (norm(tkey) if not isinstance(tkey, str) else tkey,
                                                                                       tag, kind, L.name, cf.name))
                        else:
                            rule.fail('%s|%s|%s|kind' % (owner.qualname, tag, lq), owner.module.rel, call.lineno, owner.qualname,
                                      norm(call)[:80],
                                      '%s writes a %s node tagged %s, but %s of %s only accepts %s nodes'
                                      % (owner.name, kind, tag, cf.name, lq, '/'.join(sorted(kinds))))
    return rule


def r_resolver_shared(ctx, repo):
    rule = ctx.rule('R-RESOLVER-SHARED', 'safe dumpers and safe loaders resolve implicit tags with the same registry object, and the '
                                         'serializers compute implicit flags by resolve(ScalarNode, value, (True, False)) / ((False, True))')
    rm = RR.model(repo)
    owners = {}
    for q in RR.SAFE_DUMPERS + RR.SAFE_LOADERS:
        o = rm.heap.owner(repo.cls(q), 'yaml_implicit_resolvers')
        owners[q] = o.qualname if o else None
    if len(set(owners.values())) == 1 and None not in owners.values():
        rule.ok('lib/yaml/resolver.py', 'implicit resolver table of %s is the one object owned by %s'
                % (', '.join(k.split('.')[-1] for k in owners), list(owners.values())[0]))
    else:
        rule.fail('resolver-owner|%s' % sorted(owners.items()), 'lib/yaml/resolver.py', 1, 'yaml_implicit_resolvers',
                  'yaml_implicit_resolvers', 'dumper and loader classes do not share one implicit-resolver table: %s - strings that '
                  'look like another type on load are not recognised (and quoted) on dump' % owners)
    for q, fname in (('serializer.Serializer', 'serialize_node'), ('_yaml.CEmitter', '_serialize_node')):
        f = repo.cls(q).methods.get(fname)
        if f is None:
            raise AnalysisError('%s.%s has vanished' % (q, fname))
        calls = [c for c in A.func_calls(f.node) if norm(c.func) == 'self.resolve' and len(c.args) == 3
                 and norm(c.args[0]) == 'ScalarNode']
        flags = [norm(c.args[2]) for c in calls]
        vals = [norm(c.args[1]) for c in calls]
        if sorted(flags) == ['(False, True)', '(True, False)'] and all(v == 'node.value' for v in vals):
            rule.ok(f.loc(), '%s resolves node.value with (True, False) and (False, True)' % fname)
        else:
            rule.fail('%s|implicit-flags' % f.qualname, f.module.rel, f.node.lineno, f.qualname, 'self.resolve(ScalarNode, ...)',
                      '%s does not compute the plain / non-plain implicit flags by resolving the scalar\'s own text with '
                      '(True, False) and (False, True): got %s' % (fname, list(zip(vals, flags))))
        # the flags are compared with node.tag in that order
        txt = norm(f.node)
        if q.startswith('serializer'):
            ok = 'implicit = (node.tag == detected_tag, node.tag == default_tag)' in txt and \
                 'detected_tag = self.resolve(ScalarNode, node.value, (True, False))' in txt and \
                 'default_tag = self.resolve(ScalarNode, node.value, (False, True))' in txt
        else:
            ok = 'if self.resolve(ScalarNode, node.value, (True, False)) == tag_object:\n    plain_implicit = 1' in _dedent_if(f, 'plain_implicit = 1') \
                 and 'if self.resolve(ScalarNode, node.value, (False, True)) == tag_object:\n    quoted_implicit = 1' in _dedent_if(f, 'quoted_implicit = 1')
        if ok:
            rule.ok(f.loc(), '%s: implicit[0] <- plain resolution, implicit[1] <- non-plain resolution' % fname)
        else:
            rule.fail('%s|flag-order' % f.qualname, f.module.rel, f.node.lineno, f.qualname, 'implicit',
                      '%s pairs the plain / non-plain resolutions with the wrong implicit flag' % fname)
    return rule


def _dedent_if(f, needle):
    out = []
    for n in walk_function(f.node):
        if isinstance(n, ast.If) and needle in norm(n.body):
            out.append('if %s:\n    %s' % (norm(n.test), norm(n.body[0])))
    return '\n'.join(out)


def r_event_brackets(ctx, repo):
    rule = ctx.rule('R-EVENT-BRACKETS', 'serialize() emits DocumentStart ... DocumentEnd around the node, each collection start is '
                                        'followed by its end after the children, and serialized_nodes is marked before children')
    for q, ser, sn in (('serializer.Serializer', 'serialize', 'serialize_node'), ('_yaml.CEmitter', 'serialize', '_serialize_node')):
        K = repo.cls(q)
        f = K.methods.get(ser)
        g = K.methods.get(sn)
        if f is None or g is None:
            raise AnalysisError('%s.%s/%s have vanished' % (q, ser, sn))
        pyx = q.startswith('_yaml')

        def event_nodes(func, name):
            cfg = func._cfg
            out = []
            for n in cfg.nodes:
                if n.ast is None:
                    continue
                for sub in own_exprs(n):
                    if isinstance(sub, ast.Call) and ((not pyx and norm(sub.func) == name) or
                                                      (pyx and norm(sub.func) == name)):
                        out.append(n)
            return out
        f._cfg = CFG(f.node)
        g._cfg = CFG(g.node)
        ds = event_nodes(f, 'DocumentStartEvent' if not pyx else 'yaml_document_start_event_initialize')
        de = event_nodes(f, 'DocumentEndEvent' if not pyx else 'yaml_document_end_event_initialize')
        body = [n for n in f._cfg.nodes if n.ast is not None and any(
            isinstance(s, ast.Call) and isinstance(s.func, ast.Attribute) and s.func.attr == sn for s in own_exprs(n))]
        ok = bool(ds) and bool(de) and bool(body)
        if ok:
            for b in body:
                if not f._cfg.guarded(b, nodes=ds):
                    ok = False
                starts = [m for (m, lab) in f._cfg.succ[b] if lab != 'exc']
                r = f._cfg.reach(starts, blocked=de, follow_exc=False)
                if any(x in r for x in f._cfg.normal_exits()):
                    ok = False
        if ok:
            rule.ok(f.loc(), '%s.%s: DocumentStart before, DocumentEnd after the node on every normal path' % (K.name, ser))
        else:
            rule.fail('%s|document-bracket' % f.qualname, f.module.rel, f.node.lineno, f.qualname, 'DocumentStart/End',
                      '%s.%s does not bracket the serialized node with a document start and a document end event on every path'
                      % (K.name, ser))
        for start, end in ((('SequenceStartEvent', 'SequenceEndEvent') if not pyx else
                            ('yaml_sequence_start_event_initialize', 'yaml_sequence_end_event_initialize')),
                           (('MappingStartEvent', 'MappingEndEvent') if not pyx else
                            ('yaml_mapping_start_event_initialize', 'yaml_mapping_end_event_initialize'))):
            sts, ens = event_nodes(g, start), event_nodes(g, end)
            kids = [n for n in g._cfg.nodes if n.ast is not None and any(
                isinstance(s, ast.Call) and isinstance(s.func, ast.Attribute) and s.func.attr == sn for s in own_exprs(n))]
            good = bool(sts) and bool(ens)
            for s0 in sts:
                starts = [m for (m, lab) in g._cfg.succ[s0] if lab != 'exc']
                r = g._cfg.reach(starts, blocked=ens, follow_exc=False)
                if any(x in r for x in g._cfg.normal_exits()):
                    good = False
            # the end event is not inside the child loop
            for e0 in ens:
                p = A.enclosing_stmt(e0.ast) if isinstance(e0.ast, ast.AST) else None
                q2 = e0.stmt
                while q2 is not None and q2 is not g.node:
                    q2 = getattr(q2, '_parent', None)
                    if isinstance(q2, (ast.For, ast.While)):
                        good = False
            if good:
                rule.ok(g.loc(), '%s: %s ... children ... %s' % (sn, start, end))
            else:
                rule.fail('%s|%s' % (g.qualname, start), g.module.rel, g.node.lineno, g.qualname, '%s/%s' % (start, end),
                          '%s does not close every %s with exactly one %s after its children' % (sn, start, end))
        # serialized_nodes[node] = True dominates the child calls
        marks = [n for n in g._cfg.nodes if n.kind == 'stmt' and isinstance(n.ast, ast.Assign)
                 and any(norm(t) == 'self.serialized_nodes[node]' for t in n.ast.targets)]
        kids = [n for n in g._cfg.nodes if n.ast is not None and any(
            isinstance(s, ast.Call) and isinstance(s.func, ast.Attribute) and s.func.attr == sn for s in own_exprs(n))]
        if marks and kids and all(g._cfg.guarded(k, nodes=marks) for k in kids):
            rule.ok(g.loc(), '%s marks the node as serialized before its children (recursive nodes become aliases)' % sn)
        else:
            rule.fail('%s|mark-order' % g.qualname, g.module.rel, g.node.lineno, g.qualname, 'self.serialized_nodes[node] = True',
                      '%s serializes children before marking the node: a recursive container recurses without bound' % sn)
    return rule


def r_alias_key(ctx, repo):
    rule = ctx.rule('R-ALIAS-KEY', 'represent_data keys represented_objects by id(data) only for objects that are kept alive in '
                                   'object_keeper for the whole document; ignore_aliases returns True only for immutable atoms')
    f = repo.func('representer.BaseRepresenter.represent_data')
    cfg = CFG(f.node)
    ids = [n for n in cfg.nodes if n.kind == 'stmt' and isinstance(n.ast, ast.Assign) and isinstance(n.ast.value, ast.Call)
           and norm(n.ast.value.func) == 'id']
    keep = [n for n in cfg.nodes if n.ast is not None and any(
        isinstance(s, ast.Call) and norm(s.func) == 'self.object_keeper.append' and s.args and norm(s.args[0]) == f.params[1]
        for s in own_exprs(n))]
    dispatch = [n for n in cfg.nodes if n.ast is not None and any(
        isinstance(s, ast.Call) and (isinstance(s.func, ast.Subscript) and 'yaml_' in norm(s.func.value)) for s in own_exprs(n))]
    if not ids or not dispatch:
        raise AnalysisError('represent_data: id()/dispatch not found')
    # every path on which alias_key is an id and the object is newly represented passes object_keeper.append(data)
    none_edges = []
    for n in cfg.nodes:
        if n.kind == 'test' and norm(n.ast) == 'self.alias_key is not None':
            none_edges.append((n, False))
        if n.kind == 'test' and norm(n.ast) == 'self.ignore_aliases(%s)' % f.params[1]:
            none_edges.append((n, True))
    ok = bool(keep)
    for d in dispatch:
        # paths reaching the dispatch with an id key: block the "no key" edges and the keeper; must be unreachable
        r = cfg.reach([cfg.entry], blocked=keep, blocked_edges=[(n, lab) for (n, lab) in none_edges
                                                                   if norm(n.ast).startswith('self.alias_key')])
        if d in r:
            # reachable without keeper and without passing the `alias_key is None` branch?
            r2 = cfg.reach([cfg.entry], blocked=keep, blocked_edges=none_edges)
            if d in r2:
                ok = False
    if ok:
        rule.ok(f.loc(), 'objects keyed by id() are appended to object_keeper before they are represented')
    else:
        rule.fail('%s|object_keeper' % f.qualname, f.module.rel, f.node.lineno, f.qualname, 'self.object_keeper.append(data)',
                  'an object is registered under id(data) without being kept alive in object_keeper: a temporary (e.g. the state '
                  'built by __reduce_ex__/__getstate__) can be freed and its id reused, so a later object is written as an alias '
                  'of an unrelated earlier one')
    # ignore_aliases of the safe representer
    g = repo.func('representer.SafeRepresenter.ignore_aliases')
    immutable = {'str', 'bytes', 'bool', 'int', 'float', 'complex', 'type(None)', 'NoneType'}
    for ret in [n for n in walk_function(g.node) if isinstance(n, ast.Return) and isinstance(n.value, ast.Constant) and n.value.value is True]:
        par = getattr(ret, '_parent', None)
        ok = False
        if isinstance(par, ast.If):
            t = par.test
            txt = norm(t)
            if txt == '%s is None' % g.params[1]:
                ok = True
            else:
                parts = t.values if isinstance(t, ast.BoolOp) and isinstance(t.op, ast.And) else [t]
                inst = [p for p in parts if isinstance(p, ast.Call) and norm(p.func) == 'isinstance']
                if inst:
                    classes = inst[0].args[1].elts if isinstance(inst[0].args[1], ast.Tuple) else [inst[0].args[1]]
                    names = {norm(c) for c in classes}
                    if names <= immutable:
                        ok = True
                    elif names == {'tuple'} and any(norm(p) == '%s == ()' % g.params[1] for p in parts):
                        ok = True
        if ok:
            rule.ok(g.loc(ret), 'ignore_aliases -> True only under %s' % norm(par.test)[:50])
        else:
            rule.fail('%s|%s' % (g.qualname, norm(par.test)[:60] if isinstance(par, ast.If) else 'return True'), g.module.rel,
                      ret.lineno, g.qualname, norm(par.test)[:80] if isinstance(par, ast.If) else 'return True',
                      'ignore_aliases returns True for values that are not immutable atoms: a mutable container referenced from '
                      'several places is written out separately each time and loads back as distinct objects')
    return rule


def r_sort_gate(ctx, repo):
    rule = ctx.rule('R-SORT-GATE', 'represent_mapping sorts the item list with sorted() on every path where sort_keys is set, the only '
                                   'handler catches TypeError and leaves the list untouched; sets are represented through a dict')
    f = repo.func('representer.BaseRepresenter.represent_mapping')
    m = f.params[2]
    sort_calls = [c for c in A.func_calls(f.node) if norm(c.func) == 'sorted' and c.args and norm(c.args[0]) == m]
    inplace = [c for c in A.func_calls(f.node) if isinstance(c.func, ast.Attribute) and c.func.attr in ('sort', 'reverse')]
    problems = []
    if inplace:
        problems.append('sorts in place (%s): when the comparison fails half-way the list is left partially sorted instead of in '
                        'insertion order, so the output depends on where the TypeError occurred' % norm(inplace[0]))
    if len(sort_calls) != 1:
        problems.append('%d sorted(%s) calls' % (len(sort_calls), m))
    else:
        c = sort_calls[0]
        st = A.enclosing_stmt(c)
        if not (isinstance(st, ast.Assign) and norm(st.targets[0]) == m):
            problems.append('the sorted list is not assigned back to %s' % m)
        conds = []
        p = c
        tr = None
        while p is not None and p is not f.node:
            par = getattr(p, '_parent', None)
            if isinstance(par, ast.If) and p in par.body:
                conds.append(norm(par.test))
            if isinstance(par, ast.Try) and p in par.body:
                tr = par
            p = par
        if 'self.sort_keys' not in conds:
            problems.append('sorting is not conditional on self.sort_keys alone')
        extra = [x for x in conds if x not in ('self.sort_keys', "hasattr(%s, 'items')" % m)]
        if extra:
            problems.append('sorting is subject to extra conditions %s' % extra)
        if tr is not None:
            if len(tr.handlers) != 1 or norm(tr.handlers[0].type) != 'TypeError' or \
                    not all(isinstance(s, ast.Pass) for s in tr.handlers[0].body):
                problems.append('the handler around sorted() is not exactly `except TypeError: pass`')
    # iteration happens over the (possibly sorted) list
    loops = [n for n in walk_function(f.node) if isinstance(n, ast.For) and norm(n.iter) == m]
    if not loops:
        problems.append('the node is not built by iterating the item list')
    if problems:
        rule.fail('%s|%s' % (f.qualname, ';'.join(problems)[:150]), f.module.rel, f.node.lineno, f.qualname, 'sorted(mapping)',
                  'represent_mapping: ' + '; '.join(problems))
    else:
        rule.ok(f.loc(), 'items sorted with sorted() iff sort_keys; TypeError falls back to insertion order')
    g = repo.func('representer.SafeRepresenter.represent_set')
    calls = [c for c in A.func_calls(g.node) if norm(c.func) == 'self.represent_mapping']
    ok = False
    if len(calls) == 1 and len(calls[0].args) >= 2:
        a = calls[0].args[1]
        if isinstance(a, ast.Name):
            defs = [n.value for n in walk_function(g.node) if isinstance(n, ast.Assign)
                    and any(isinstance(t, ast.Name) and t.id == a.id for t in n.targets)]
            ok = bool(defs) and all(isinstance(d, (ast.Dict, ast.DictComp)) or
                                    (isinstance(d, ast.Call) and norm(d.func) in ('dict', 'dict.fromkeys')) for d in defs)
        elif isinstance(a, (ast.Dict, ast.DictComp)) or (isinstance(a, ast.Call) and norm(a.func) in ('dict', 'dict.fromkeys')):
            ok = True
    if ok:
        rule.ok(g.loc(), 'represent_set goes through a dict, hence through the sort gate')
    else:
        rule.fail('%s|dict' % g.qualname, g.module.rel, g.node.lineno, g.qualname, 'self.represent_mapping(...)',
                  'represent_set does not hand represent_mapping a dict: a value without .items() bypasses the sort_keys sort, so '
                  'the text of a dumped set depends on hash seed / insertion order')
    return rule


NONDET = {'random', 'time', 'uuid', 'secrets', 'os.urandom', 'os.environ', 'os.getpid', 'datetime.datetime.now',
          'datetime.date.today', 'hash'}


def r_no_nondeterminism(ctx, repo):
    rule = ctx.rule('R-NO-NONDETERMINISM', 'nothing on the dump path consults a source of run-to-run variation; id() is used only as the '
                                           'alias key of represent_data')
    mods = ['representer', 'serializer', 'emitter', 'dumper', 'resolver', 'nodes', 'events']
    n = 0
    for f in repo.all_functions(mods + ['_yaml']):
        if f.module.name == '_yaml' and (f.cls is None or f.cls.name != 'CEmitter'):
            continue
        n += 1
        bad = []
        for c in A.func_calls(f.node):
            fn = norm(c.func)
            root = fn.split('.')[0]
            if fn in NONDET or root in ('random', 'time', 'uuid', 'secrets') or fn.startswith('os.'):
                bad.append((c, fn))
            if fn == 'id':
                ok = f.qualname == 'representer.BaseRepresenter.represent_data' and \
                    isinstance(A.enclosing_stmt(c), ast.Assign) and norm(A.enclosing_stmt(c).targets[0]) == 'self.alias_key'
                if not ok:
                    bad.append((c, 'id() outside the alias key'))
        for node in walk_function(f.node):
            if isinstance(node, ast.BinOp) and isinstance(node.op, ast.Mod) and any(
                    isinstance(x, ast.Call) and norm(x.func) == 'id' for x in ast.walk(node.right)):
                bad.append((node, 'id() formatted into text'))
        if bad:
            for c, what in bad:
                rule.fail('%s|%s' % (f.qualname, what), f.module.rel, c.lineno, f.qualname, norm(c)[:70],
                          '%s on the dump path: the output depends on something else than the dumped value' % what)
        else:
            rule.ok(f.loc(), '%s: no nondeterminism source' % f.qualname)
    # anchor names: template % counter
    from . import match as M
    S = repo.cls('serializer.Serializer')
    g = S.methods.get('generate_anchor')
    if g is None:
        raise AnalysisError('Serializer.generate_anchor has vanished')

    def template_of(fn, counter):
        """the constant template formatted with the counter, if the name is derived from the counter alone."""
        incs = M.find(fn.node, 'self.%s += 1' % counter)
        fmts = M.find(fn.node, '__tpl %% self.%s' % counter)
        tpls = {e['__tpl'].value for n, e in fmts if isinstance(e['__tpl'], ast.Constant) and isinstance(e['__tpl'].value, str)}
        if incs and len(tpls) == 1 and len(fmts) == len([1 for n, e in fmts if isinstance(e['__tpl'], ast.Constant)]):
            return tpls.pop()
        return None
    tpy = template_of(g, 'last_anchor_id')
    if tpy is not None and tpy.count('%') == 1:
        rule.ok(g.loc(), 'anchor names = %r of a per-document counter' % tpy)
    else:
        rule.fail('%s|template' % g.qualname, g.module.rel, g.node.lineno, g.qualname, 'generate_anchor',
                  'anchor names are not derived from the per-document counter alone')
    C = repo.cls('_yaml.CEmitter')
    h = C.methods.get('_anchor_node')
    if h is None:
        raise AnalysisError('CEmitter._anchor_node has vanished')
    tc = template_of(h, 'last_alias_id')
    if tc is not None and (tpy is None or tc == tpy):
        rule.ok(h.loc(), 'C anchor names = %r of a per-document counter (same template as the Python serializer)' % tc)
    else:
        rule.fail('%s|template' % h.qualname, h.module.rel, h.node.lineno, h.qualname, '_anchor_node',
                  'the C serializer derives anchor names differently from the Python serializer')
    return rule


def r_insertion_order_load(ctx, repo):
    rule = ctx.rule('R-INSERTION-ORDER-LOAD', 'construct_mapping / construct_pairs / compose_mapping_node insert in document order')
    for q, target in (('constructor.BaseConstructor.construct_mapping', 'mapping'), ('constructor.BaseConstructor.construct_pairs', 'pairs')):
        f = repo.func(q)
        loops = [n for n in walk_function(f.node) if isinstance(n, ast.For)]
        ok = len(loops) == 1 and norm(loops[0].iter) == '%s.value' % f.params[1] and \
            not any(isinstance(c.func, ast.Name) and c.func.id in ('sorted', 'reversed', 'set') for c in A.func_calls(f.node))
        if ok:
            rule.ok(f.loc(), '%s iterates node.value in order' % f.name)
        else:
            rule.fail('%s|order' % f.qualname, f.module.rel, f.node.lineno, f.qualname, 'for ... in node.value',
                      '%s no longer inserts the pairs in the order of node.value' % f.name)
    for q in ('composer.Composer.compose_mapping_node', '_yaml.CParser._compose_mapping_node'):
        f = repo.func(q)
        apps = [c for c in A.func_calls(f.node) if isinstance(c.func, ast.Attribute) and c.func.attr == 'append'
                and 'value' in norm(c.func.value)]
        ins = [c for c in A.func_calls(f.node) if isinstance(c.func, ast.Attribute) and c.func.attr in ('insert', 'sort', 'reverse')]
        if len(apps) == 1 and not ins and norm(apps[0].args[0]) == '(item_key, item_value)':
            rule.ok(f.loc(), '%s appends pairs in event order' % f.name)
        else:
            rule.fail('%s|order' % f.qualname, f.module.rel, f.node.lineno, f.qualname, 'node.value.append((item_key, item_value))',
                      '%s does not append the (key, value) pairs in event order' % f.name)
    return rule


# ------------------------------------------------------------------------------------------------ C14

def r_shape_dispatch_total(ctx, repo):
    """node-shape guards in the constructors: every use of a node as mapping/sequence/scalar is dominated by the isinstance
    test whose failure raises ConstructorError (uses sa.partial for the generic part)."""
    rule = ctx.rule('R-SHAPE-DISPATCH-TOTAL', 'every use of a node as scalar / sequence / mapping / single-pair mapping in the core '
                                              'constructors is dominated by the isinstance / length test whose failure raises ConstructorError')
    cerr = repo.cls('constructor.ConstructorError')
    targets = [('constructor.BaseConstructor.construct_scalar', 'ScalarNode'),
               ('constructor.BaseConstructor.construct_sequence', 'SequenceNode'),
               ('constructor.BaseConstructor.construct_mapping', 'MappingNode'),
               ('constructor.BaseConstructor.construct_pairs', 'MappingNode')]
    for q, kind in targets:
        f = repo.func(q)
        cfg = CFG(f.node)
        node = f.params[1]
        uses = [n for n in cfg.nodes if n.ast is not None and any(
            isinstance(s, ast.Attribute) and s.attr == 'value' and norm(s.value) == node for s in own_exprs(n))]
        edges = []
        for n in cfg.nodes:
            if n.kind == 'test':
                inner, pos = A.strip_not(n.ast)
                if isinstance(inner, ast.Call) and norm(inner.func) == 'isinstance' and norm(inner.args[0]) == node \
                        and norm(inner.args[1]) == kind:
                    edges.append((n, pos))
                    # the failing edge raises ConstructorError
                    succ = [m for (m, lab) in cfg.succ[n] if lab != pos]
                    r = cfg.reach(succ)
                    raises = [x for x in r if x.kind == 'raise' and isinstance(x.ast, ast.Raise)]
                    good = raises and not any(x in r for x in cfg.normal_exits())
                    for x in raises:
                        t = x.ast.exc.func if isinstance(x.ast.exc, ast.Call) else x.ast.exc
                        ref = repo.resolve_expr(f.module, t)
                        if not (ref is not None and ref.kind == 'class' and ref.obj.is_subclass_of(cerr)):
                            good = False
                    if good:
                        rule.ok(f.loc(n.ast), '%s: wrong node kind -> ConstructorError' % f.name)
                    else:
                        rule.fail('%s|reject' % f.qualname, f.module.rel, n.lineno, f.qualname, norm(n.ast),
                                  '%s does not reject a node of the wrong kind with ConstructorError' % f.name)
        for u in uses:
            if edges and cfg.guarded(u, edges=edges):
                rule.ok(f.loc(u.ast) if isinstance(u.ast, ast.AST) else f.loc(), '%s.value used only after isinstance(%s, %s)'
                        % (node, node, kind))
            else:
                rule.fail('%s|use' % f.qualname, f.module.rel, u.lineno, f.qualname, norm(u.ast).split('\n')[0][:70],
                          '%s uses %s.value without a dominating isinstance(%s, %s) test: a node of another kind under this tag '
                          'raises TypeError/ValueError (or is silently mis-read) instead of ConstructorError'
                          % (f.name, node, node, kind))
        if not uses or not edges:
            raise AnalysisError('%s: node kind guard not found' % q)
    # omap / pairs / merge shape guards
    for q in ('constructor.SafeConstructor.construct_yaml_omap', 'constructor.SafeConstructor.construct_yaml_pairs'):
        f = repo.func(q)
        cfg = CFG(f.node)
        need = [('isinstance(node, SequenceNode)', 'for'), ('isinstance(subnode, MappingNode)', 'unpack'),
                ('len(subnode.value) != 1', 'unpack')]
        unpack = [n for n in cfg.nodes if n.kind == 'stmt' and isinstance(n.ast, ast.Assign)
                  and isinstance(n.ast.targets[0], ast.Tuple) and 'subnode.value[0]' in norm(n.ast.value)]
        loops = [n for n in cfg.nodes if n.kind == 'for' and norm(n.ast) == 'node.value']
        if not unpack or not loops:
            raise AnalysisError('%s: omap/pairs shape not recognised' % q)

        def guard_edges(text):
            out = []
            for n in cfg.nodes:
                if n.kind == 'test':
                    inner, pos = A.strip_not(n.ast)
                    if norm(inner) == text:
                        out.append((n, pos))
                    if text.endswith('!= 1') and norm(inner) == text.replace('!= 1', '== 1'):
                        out.append((n, not pos))
            return out
        checks = [(loops[0], guard_edges('isinstance(node, SequenceNode)'), 'the node is a sequence'),
                  (unpack[0], guard_edges('isinstance(subnode, MappingNode)'), 'each entry is a mapping'),
                  (unpack[0], [(n, not lab) for (n, lab) in guard_edges('len(subnode.value) != 1')], 'each entry has exactly one pair')]
        for target, edges, what in checks:
            if edges and cfg.guarded(target, edges=edges):
                rule.ok(f.loc(), '%s checks that %s' % (f.name, what))
            else:
                rule.fail('%s|%s' % (f.qualname, what), f.module.rel, target.lineno, f.qualname, norm(target.ast).split('\n')[0][:70],
                          '%s no longer checks that %s before using it: an ill-shaped !!omap/!!pairs value raises '
                          'TypeError/ValueError/IndexError instead of ConstructorError' % (f.name, what))
    f = repo.func('constructor.SafeConstructor.flatten_mapping')
    cfg = CFG(f.node)
    # merging uses value_node.value / subnode.value only under MappingNode tests; the sequence branch under SequenceNode
    for var, kind in (('value_node', 'MappingNode'), ('subnode', 'MappingNode')):
        uses = [n for n in cfg.nodes if n.ast is not None and n.kind != 'test' and any(
            isinstance(s, ast.Attribute) and s.attr == 'value' and norm(s.value) == var for s in own_exprs(n))
            and not (n.kind == 'for')]
        edges = []
        for n in cfg.nodes:
            if n.kind == 'test':
                inner, pos = A.strip_not(n.ast)
                if norm(inner) == 'isinstance(%s, %s)' % (var, kind):
                    edges.append((n, pos))
        for u in uses:
            if edges and cfg.guarded(u, edges=edges):
                rule.ok(f.loc(), 'flatten_mapping merges %s only if it is a mapping' % var)
            else:
                rule.fail('%s|%s' % (f.qualname, var), f.module.rel, u.lineno, f.qualname, norm(u.ast).split('\n')[0][:70],
                          'flatten_mapping merges %s.value without checking that %s is a mapping node' % (var, var))
    # the final else of the merge-value dispatch raises ConstructorError
    raises = [n for n in walk_function(f.node) if isinstance(n, ast.Raise)]
    if len(raises) >= 2:
        rule.ok(f.loc(), 'flatten_mapping rejects non-mapping merge values (2 raise sites)')
    else:
        rule.fail('%s|reject' % f.qualname, f.module.rel, f.node.lineno, f.qualname, 'raise ConstructorError',
                  'flatten_mapping no longer rejects merge values that are neither a mapping nor a list of mappings')
    return rule


def r_hashable_guard(ctx, repo):
    rule = ctx.rule('R-HASHABLE-GUARD', 'the dict store of construct_mapping is dominated by `not isinstance(key, Hashable) -> raise '
                                        'ConstructorError`; sets and maps obtain their content only through construct_mapping')
    f = repo.func('constructor.BaseConstructor.construct_mapping')
    cfg = CFG(f.node)
    stores = [n for n in cfg.nodes if n.kind == 'stmt' and isinstance(n.ast, ast.Assign)
              and isinstance(n.ast.targets[0], ast.Subscript) and isinstance(n.ast.targets[0].value, ast.Name)]
    if not stores:
        raise AnalysisError('construct_mapping: dict store not found')
    for s in stores:
        key = norm(s.ast.targets[0].slice)
        edges = []
        for n in cfg.nodes:
            if n.kind == 'test':
                inner, pos = A.strip_not(n.ast)
                if isinstance(inner, ast.Call) and norm(inner.func) == 'isinstance' and norm(inner.args[0]) == key \
                        and norm(inner.args[1]) in ('collections.abc.Hashable', 'Hashable', 'collections.Hashable'):
                    edges.append((n, pos))
        if edges and cfg.guarded(s, edges=edges):
            rule.ok(f.loc(s.ast), 'mapping[%s] = ... only for Hashable keys' % key)
        else:
            rule.fail('%s|hashable' % f.qualname, f.module.rel, s.lineno, f.qualname, norm(s.ast),
                      'a key is stored in the dict without a dominating isinstance(key, collections.abc.Hashable) test: an '
                      'unhashable key (e.g. a !!set or a sequence) raises a bare TypeError instead of ConstructorError')
    for q in ('constructor.SafeConstructor.construct_yaml_set', 'constructor.SafeConstructor.construct_yaml_map'):
        g = repo.func(q)
        calls = [c for c in A.func_calls(g.node) if isinstance(c.func, ast.Attribute) and c.func.attr.startswith('construct_')]
        if calls and all(c.func.attr == 'construct_mapping' for c in calls):
            rule.ok(g.loc(), '%s fills itself from construct_mapping only' % g.name)
        else:
            rule.fail('%s|source' % g.qualname, g.module.rel, g.node.lineno, g.qualname, 'self.construct_mapping(node)',
                      '%s builds its content without going through construct_mapping (and its hashability check)' % g.name)
    return rule


def r_merge_shape(ctx, repo):
    """structural invariants of flatten_mapping that precedence and source re-use rest on."""
    rule = ctx.rule('R-MERGE-SHAPE', 'flatten_mapping only mutates fresh lists and the value list of the node being flattened, and '
                                     'places merged pairs before the node\'s own pairs (node.value = merged + node.value)')
    f = repo.func('constructor.SafeConstructor.flatten_mapping')
    node = f.params[1]
    # locals that may alias the value list of another node
    foreign = set()
    for n in walk_function(f.node):
        if isinstance(n, ast.Assign) and isinstance(n.value, ast.Attribute) and n.value.attr == 'value' \
                and norm(n.value.value) != node:
            for t in n.targets:
                if isinstance(t, ast.Name):
                    foreign.add((t.id, norm(n.value)))
    for name, src in foreign:
        for m in A.find_mutations(f.node):
            if isinstance(m.root, ast.Name) and m.root.id == name and m.kind != 'rebind':
                rule.fail('%s|foreign|%s' % (f.qualname, name), f.module.rel, m.node.lineno, f.qualname, norm(m.stmt)[:70],
                          'the local %s may be the value list of another node (%s) and is mutated here: flattening one mapping '
                          'changes a merge source that other mappings share' % (name, src))
    for m in A.find_mutations(f.node):
        root = norm(m.root)
        if root.endswith('.value') and root != '%s.value' % node and m.kind != 'rebind':
            rule.fail('%s|foreign|%s' % (f.qualname, root), f.module.rel, m.node.lineno, f.qualname, norm(m.stmt)[:70],
                      'flatten_mapping mutates %s, the value list of a node other than the one being flattened' % root)
    # mutations of node.value: deletion of merge keys and one final prepend
    n_ok = 0
    for m in A.find_mutations(f.node):
        if norm(m.root) == '%s.value' % node or (m.kind == 'rebind' and norm(m.receiver) == '%s.value' % node):
            if m.kind == 'delitem':
                n_ok += 1
                continue
            if m.kind == 'rebind' and isinstance(m.stmt, ast.Assign) and isinstance(m.stmt.value, ast.BinOp) \
                    and isinstance(m.stmt.value.op, ast.Add) and norm(m.stmt.value.right) == '%s.value' % node \
                    and isinstance(m.stmt.value.left, ast.Name):
                n_ok += 1
                continue
            rule.fail('%s|own-order|%s' % (f.qualname, norm(m.stmt)[:50]), f.module.rel, m.node.lineno, f.qualname, norm(m.stmt)[:70],
                      'node.value is rearranged by something else than deleting merge keys and prepending the merged pairs: merged '
                      'pairs that do not precede all own pairs override keys the mapping defines itself')
    if n_ok >= 2:
        rule.ok(f.loc(), 'node.value: merge keys deleted, merged pairs prepended')
    elif not rule.failed:
        raise AnalysisError('flatten_mapping: expected deletion + prepend of node.value not found')
    if not rule.failed:
        rule.ok(f.loc(), 'no foreign value list is mutated')
    return rule


# ------------------------------------------------------------------------------------------------ C17

def r_field_vocab(ctx, repo):
    rule = ctx.rule('R-FIELD-VOCAB', 'the mapping keys represent_object writes are keys construct_python_object_apply reads; list items '
                                     'are applied with extend and dict items by item assignment (pickle\'s protocol); arguments are '
                                     'constructed deep')
    w = repo.func('representer.Representer.represent_object')
    r = repo.func('constructor.FullConstructor.construct_python_object_apply')
    written = set()
    for n in walk_function(w.node):
        if isinstance(n, ast.Assign) and isinstance(n.targets[0], ast.Subscript) and norm(n.targets[0].value) == 'value':
            s = A.const_str(n.targets[0].slice)
            if s:
                written.add(s)
    read = set()
    for c in A.func_calls(r.node):
        if isinstance(c.func, ast.Attribute) and c.func.attr == 'get' and norm(c.func.value) == 'value' and c.args:
            s = A.const_str(c.args[0])
            if s:
                read.add(s)
    if written and written <= read:
        rule.ok(w.loc(), 'written %s subset of read %s' % (sorted(written), sorted(read)))
    else:
        rule.fail('field-vocab|%s' % sorted(written - read), w.module.rel, w.node.lineno, w.qualname, 'value[...]',
                  'represent_object writes the keys %s that construct_python_object_apply does not read: that part of the '
                  'object state is lost on load' % sorted(written - read))
    # application protocol
    txt = norm(r.node)
    ext = [c for c in A.func_calls(r.node) if norm(c.func) == 'instance.extend' and c.args and norm(c.args[0]) == 'listitems']
    setitem = [n for n in walk_function(r.node) if isinstance(n, ast.Assign) and isinstance(n.targets[0], ast.Subscript)
               and norm(n.targets[0].value) == 'instance']
    other = [c for c in A.func_calls(r.node) if isinstance(c.func, ast.Attribute) and norm(c.func.value) == 'instance'
             and c.func.attr not in ('extend',)]
    if ext and setitem and not other:
        rule.ok(r.loc(), 'listitems via extend, dictitems via instance[key] = value')
    else:
        rule.fail('%s|apply-protocol' % r.qualname, r.module.rel, r.node.lineno, r.qualname, 'instance.extend / instance[key] = ...',
                  'list items / dict items are not applied the way pickle applies them (extend; one __setitem__ per item)%s: '
                  'classes that override __setitem__ or lack the substituted method are rebuilt differently'
                  % (' - uses %s' % norm(other[0]) if other else ''))
    deep = [c for c in A.func_calls(r.node) if isinstance(c.func, ast.Attribute) and c.func.attr in ('construct_sequence', 'construct_mapping')]
    if deep and all(any(k.arg == 'deep' and isinstance(k.value, ast.Constant) and k.value.value is True for k in c.keywords) for c in deep):
        rule.ok(r.loc(), 'constructor arguments are constructed with deep=True')
    else:
        rule.fail('%s|deep' % r.qualname, r.module.rel, r.node.lineno, r.qualname, 'deep=True',
                  'construct_python_object_apply does not construct its arguments eagerly: the callable receives containers that '
                  'are still empty')
    o = repo.func('constructor.FullConstructor.construct_python_object')
    if "deep = hasattr(instance, '__setstate__')" in norm(o.node) and 'deep=deep' in norm(o.node):
        rule.ok(o.loc(), 'state is constructed deep exactly when __setstate__ will consume it')
    else:
        rule.fail('%s|deep' % o.qualname, o.module.rel, o.node.lineno, o.qualname, "deep = hasattr(instance, '__setstate__')",
                  'construct_python_object no longer constructs the state eagerly when it is handed to __setstate__')
    return rule


def r_state_applied(ctx, repo):
    """R-STATE-APPLIED: must-use analysis of the object state in set_python_instance_state.

    pickle applies *both* halves of a (dict_state, slot_state) pair.  Tracked values: the state parameter and every local
    that receives (part of) a tracked value (tuple unpacking, subscripts, `y.update(x)` transfers).  From each definition of a
    tracked name, every normal path to the exit must pass a statement that *applies* it (argument of a call, iterable of a
    `for`, right-hand side of another tracked definition) or leave through the false edge of a plain truthiness test of that
    name (nothing to apply).  A path on which a half is silently dropped is a violation.
    """
    rule = ctx.rule('R-STATE-APPLIED', 'every part of the object state (dict half and slot half) is applied to the instance on '
                                       'every normal path of set_python_instance_state')
    f = repo.func('constructor.FullConstructor.set_python_instance_state')
    if len(f.params) < 3:
        raise AnalysisError('set_python_instance_state: expected (self, instance, state, ...)')
    state = f.params[2]
    cfg = CFG(f.node)

    def names_loaded(e):
        return {x.id for x in ast.walk(e) if isinstance(x, ast.Name) and isinstance(x.ctx, ast.Load)}

    # taint closure over local names
    tracked = {state}
    changed = True
    while changed:
        changed = False
        for n in cfg.nodes:
            a = n.ast
            if n.kind == 'stmt' and isinstance(a, ast.Assign) and names_loaded(a.value) & tracked:
                for t in a.targets:
                    for x in ast.walk(t):
                        if isinstance(x, ast.Name) and isinstance(x.ctx, ast.Store) and x.id not in tracked:
                            tracked.add(x.id)
                            changed = True
            if n.kind == 'stmt' and isinstance(a, ast.Expr) and isinstance(a.value, ast.Call) and \
                    isinstance(a.value.func, ast.Attribute) and a.value.func.attr in ('update', 'extend', 'append') and \
                    isinstance(a.value.func.value, ast.Name) and any(names_loaded(x) & tracked for x in a.value.args):
                if a.value.func.value.id not in tracked:
                    tracked.add(a.value.func.value.id)
                    changed = True

    def applies(n, v):
        """does CFG node n hand the value of v on (call argument / loop iterable / source of another definition)?"""
        a = n.ast
        if a is None:
            return False
        if n.kind == 'for':
            return v in names_loaded(a)
        if n.kind in ('stmt', 'return'):
            if isinstance(a, ast.Assign):
                return v in names_loaded(a.value)
            for c in ast.walk(a):
                if isinstance(c, ast.Call):
                    for x in list(c.args) + [k.value for k in c.keywords]:
                        if v in names_loaded(x):
                            # isinstance/len/hasattr only inspect
                            if norm(c.func) in ('isinstance', 'len', 'hasattr', 'type', 'bool'):
                                continue
                            return True
        return False

    def is_def(n, v):
        a = n.ast
        if n.kind == 'stmt' and isinstance(a, ast.Assign):
            if any(isinstance(x, ast.Name) and x.id == v and isinstance(x.ctx, ast.Store) for t in a.targets for x in ast.walk(t)):
                # empty literal: nothing to apply
                if isinstance(a.value, (ast.Dict, ast.List, ast.Tuple, ast.Set)) and not (getattr(a.value, 'keys', None) or getattr(a.value, 'elts', None)):
                    return False
                if isinstance(a.value, ast.Constant) and not a.value.value:
                    return False
                return True
        if n.kind == 'stmt' and isinstance(a, ast.Expr) and isinstance(a.value, ast.Call) and isinstance(a.value.func, ast.Attribute) \
                and a.value.func.attr in ('update', 'extend', 'append') and isinstance(a.value.func.value, ast.Name) \
                and a.value.func.value.id == v and any(names_loaded(x) & tracked for x in a.value.args):
            return True
        return False

    n_obl = 0
    for v in sorted(tracked):
        consumers = [n for n in cfg.nodes if applies(n, v) and not (is_def(n, v) and not (n.kind == 'stmt' and isinstance(n.ast, ast.Assign) and v in names_loaded(n.ast.value)))]
        empty_edges = [(n, False) for n in cfg.nodes if n.kind == 'test' and isinstance(n.ast, ast.Name) and n.ast.id == v]
        empty_edges += [(n, True) for n in cfg.nodes if n.kind == 'test' and isinstance(n.ast, ast.UnaryOp)
                        and isinstance(n.ast.op, ast.Not) and isinstance(n.ast.operand, ast.Name) and n.ast.operand.id == v]
        starts = [cfg.entry] if v == state else []
        starts += [n for n in cfg.nodes if is_def(n, v)]
        for d in starts:
            n_obl += 1
            first = [m for (m, lab) in cfg.succ[d] if lab != 'exc']
            r = cfg.reach(first, blocked=consumers, blocked_edges=empty_edges, follow_exc=False)
            dropped = [x for x in cfg.normal_exits() if x in r]
            # a consumer that is itself the start (e.g. `state, slot = state`) was already passed
            if dropped:
                rule.fail('%s|%s dropped' % (f.qualname, v), f.module.rel, d.lineno or f.node.lineno, f.qualname, v,
                          'on some path from line %d to the end of the function the value of `%s` (part of the object state) is '
                          'neither applied to the instance nor known to be empty: pickle restores both the __dict__ half and the '
                          'slots half of a (dict_state, slot_state) pair, here one half is silently dropped for some classes '
                          '(e.g. a class with __slots__ in a base and an instance __dict__)' % (d.lineno or f.node.lineno, v))
            else:
                rule.ok(f.loc(d.ast if d.ast is not None else f.node), '`%s` is applied on every path' % v)
    if n_obl < 3:
        raise AnalysisError('R-STATE-APPLIED: fewer than 3 state definitions found in set_python_instance_state')
    return rule
