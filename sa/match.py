"""Structural pattern matching over ASTs with metavariables (rename-robust replacement for text comparison).

A pattern is Python source.  In it

    __x        (two leading underscores)  matches any *expression*; all occurrences of the same metavariable must match
               structurally equal expressions;
    _N_x       matches a Name only (a local variable / parameter), again consistently;
    ...        as a statement matches any (possibly empty) run of statements; as an expression matches any expression
               without binding.

Expression patterns are matched against every sub-expression of the searched node; statement patterns against every
statement.  For compound statements the header must match and the pattern's body must match a *subsequence* of the
candidate's body (so unrelated statements may be interleaved).  Matching is on the AST, never on text, so formatting,
quoting style and parenthesisation do not matter; commutative spellings are normalised by sa.canon before matching.
"""
import ast

from .srcmodel import walk_function


def _is_meta(n):
    return isinstance(n, ast.Name) and (n.id.startswith('__') and not n.id.endswith('__') or n.id.startswith('_N_'))


def _eq(a, b):
    return ast.dump(a) == ast.dump(b)


def _strip_ctx(node):
    return node


def match(pat, node, env):
    """structural match of pattern node `pat` against `node`; env is updated in place; returns bool."""
    if isinstance(pat, ast.Constant) and pat.value is Ellipsis:
        return isinstance(node, ast.AST)
    if _is_meta(pat):
        if pat.id.startswith('_N_') and not isinstance(node, ast.Name):
            return False
        if not isinstance(node, ast.expr):
            return False
        if pat.id in env:
            return _dump_noctx(env[pat.id]) == _dump_noctx(node)
        env[pat.id] = node
        return True
    if type(pat) is not type(node):
        return False
    if isinstance(pat, ast.Name):
        return pat.id == node.id
    if isinstance(pat, ast.Constant):
        return type(pat.value) is type(node.value) and pat.value == node.value
    for field in pat._fields:
        if field in ('ctx', 'type_comment', 'lineno', 'col_offset', 'end_lineno', 'end_col_offset', 'kind'):
            continue
        pv, nv = getattr(pat, field, None), getattr(node, field, None)
        if isinstance(pv, list):
            if not isinstance(nv, list):
                return False
            if pv and isinstance(pv[0], ast.stmt) or (nv and isinstance(nv[0], ast.stmt)):
                if not _match_block(pv, nv, env):
                    return False
            else:
                if len(pv) != len(nv):
                    return False
                for a, b in zip(pv, nv):
                    if isinstance(a, ast.AST):
                        if not match(a, b, env):
                            return False
                    elif a != b:
                        return False
        elif isinstance(pv, ast.AST):
            if not isinstance(nv, ast.AST) or not match(pv, nv, env):
                return False
        else:
            if pv != nv:
                return False
    return True


def _dump_noctx(n):
    return ast.dump(n).replace('ctx=Store()', 'ctx=Load()').replace('ctx=Del()', 'ctx=Load()')


def _is_ellipsis_stmt(s):
    return isinstance(s, ast.Expr) and isinstance(s.value, ast.Constant) and s.value.value is Ellipsis


def _match_block(pats, stmts, env):
    """pattern statements must match a subsequence of stmts (each pattern statement may also match *inside* a nested
    compound statement of the candidate block when it is preceded by `...`)."""
    pats = [p for p in pats if not _is_ellipsis_stmt(p)]
    if not pats:
        return True

    def rec(pi, si, env):
        if pi == len(pats):
            return env
        for j in range(si, len(stmts)):
            e2 = dict(env)
            if match(pats[pi], stmts[j], e2):
                r = rec(pi + 1, j + 1, e2)
                if r is not None:
                    return r
        return None

    r = rec(0, 0, env)
    if r is None:
        return False
    env.update(r)
    return True


_cache = {}


def compile_pattern(src):
    if src in _cache:
        return _cache[src]
    tree = ast.parse(src)
    if len(tree.body) == 1 and isinstance(tree.body[0], ast.Expr):
        p = ('expr', tree.body[0].value)
    elif len(tree.body) == 1:
        p = ('stmt', tree.body[0])
    else:
        p = ('block', tree.body)
    _cache[src] = p
    return p


def _nodes(root):
    if isinstance(root, (ast.FunctionDef, ast.AsyncFunctionDef)):
        return list(walk_function(root))
    if isinstance(root, list):
        out = []
        for r in root:
            out.extend(_nodes(r))
        return out
    return list(ast.walk(root))


def find(root, src, env=None):
    """all (node, bindings) under root (a function def, a node or a list of nodes) matching the pattern source."""
    kind, pat = compile_pattern(src)
    out = []
    for n in _nodes(root):
        e = dict(env or {})
        if kind == 'expr' and isinstance(n, ast.expr):
            if match(pat, n, e):
                out.append((n, e))
        elif kind == 'stmt' and isinstance(n, ast.stmt):
            if match(pat, n, e):
                out.append((n, e))
        elif kind == 'block':
            for field in ('body', 'orelse', 'finalbody'):
                blk = getattr(n, field, None)
                if isinstance(blk, list) and blk and isinstance(blk[0], ast.stmt):
                    e2 = dict(env or {})
                    if _match_block(pat, blk, e2):
                        out.append((n, e2))
    if kind == 'block' and isinstance(root, (ast.FunctionDef, ast.AsyncFunctionDef)):
        e2 = dict(env or {})
        if _match_block(pat, root.body, e2):
            out.append((root, e2))
    return out


def has(root, src, env=None):
    return bool(find(root, src, env))


def first(root, src, env=None):
    r = find(root, src, env)
    return r[0] if r else (None, None)


def any_of(root, *srcs):
    return any(has(root, s) for s in srcs)


def all_of(root, *srcs):
    return all(has(root, s) for s in srcs)
