"""Source normalisation applied before any rule looks at the code (DESIGN 12.1).

Rules are written against the *shape* of the code.  Three behaviour-preserving refactorings change that shape without
changing the resolved program, and are undone here so that every rule sees through them:

  * **helper extraction** - a function/method that does not exist in the reference inventory of the package
    (sa/baseline_names.json: the function names of the tree the rules were confirmed on) and that is called from an
    analysed function is *inlined* at its call sites (parameters substituted, early returns turned into structured
    if/else, callee locals renamed only on a clash).  The helper itself stays in the model and is still analysed on its
    own by every rule that ranges over all functions.
  * **named constants** - a module-level / class-level name bound exactly once to a literal str/bytes/number (or a tuple
    of those) and never rebound is replaced by the literal where it is read.
  * **local literal aliases** - a local bound exactly once to such a literal is replaced the same way.

Inlining is semantic-preserving by construction (it is what the interpreter does); when a call site or callee is outside
the supported forms (generators, *args, returns inside loops/try, recursion, overridden methods) it is simply left
alone - the rules then see the call as before.
"""
import ast
import copy
import json
import os

HERE = os.path.dirname(os.path.abspath(__file__))
BASELINE_FILE = os.path.join(HERE, 'baseline_names.json')

MAX_ROUNDS = 4
MAX_CALLEE_STMTS = 120


def load_baseline():
    if not os.path.exists(BASELINE_FILE):
        return None
    with open(BASELINE_FILE, encoding='utf-8') as f:
        return json.load(f)


def _is_literal(node):
    if isinstance(node, ast.Constant) and isinstance(node.value, (str, bytes, int, float)) and not isinstance(node.value, bool):
        return True
    if isinstance(node, ast.Tuple) and node.elts and all(_is_literal(e) for e in node.elts):
        return True
    if isinstance(node, ast.UnaryOp) and isinstance(node.op, ast.USub) and isinstance(node.operand, ast.Constant) \
            and isinstance(node.operand.value, (int, float)):
        return True
    return False


def _walk_no_nested(node_or_list):
    """walk statements/expressions without entering nested function/class/lambda scopes."""
    stack = list(node_or_list) if isinstance(node_or_list, list) else [node_or_list]
    while stack:
        n = stack.pop()
        yield n
        for c in ast.iter_child_nodes(n):
            if isinstance(c, (ast.FunctionDef, ast.AsyncFunctionDef, ast.ClassDef, ast.Lambda)):
                continue
            stack.append(c)


def _stored_names(body):
    out = set()
    for n in _walk_no_nested(body):
        if isinstance(n, ast.Name) and isinstance(n.ctx, (ast.Store, ast.Del)):
            out.add(n.id)
        elif isinstance(n, ast.ExceptHandler) and n.name:
            out.add(n.name)
        elif isinstance(n, (ast.Import, ast.ImportFrom)):
            for a in n.names:
                out.add((a.asname or a.name).split('.')[0])
    return out


def _all_names(body):
    return {n.id for n in _walk_no_nested(body) if isinstance(n, ast.Name)}


def _params(fdef):
    a = fdef.args
    return [x.arg for x in a.posonlyargs + a.args]


def _strip_doc(body):
    if body and isinstance(body[0], ast.Expr) and isinstance(body[0].value, ast.Constant) and isinstance(body[0].value.value, str):
        return body[1:]
    return body


class _Subst(ast.NodeTransformer):
    """Name -> expression / Name -> new name, not entering nested scopes that rebind the name."""

    def __init__(self, exprs=None, renames=None):
        self.exprs = exprs or {}
        self.renames = renames or {}

    def visit_Name(self, node):
        if node.id in self.exprs and isinstance(node.ctx, ast.Load):
            return copy.deepcopy(self.exprs[node.id])
        if node.id in self.renames:
            return ast.copy_location(ast.Name(id=self.renames[node.id], ctx=node.ctx), node)
        return node

    def visit_ExceptHandler(self, node):
        if node.name in self.renames:
            node.name = self.renames[node.name]
        self.generic_visit(node)
        return node

    def visit_Lambda(self, node):
        shadow = {a.arg for a in node.args.args}
        sub = _Subst({k: v for k, v in self.exprs.items() if k not in shadow},
                     {k: v for k, v in self.renames.items() if k not in shadow})
        node.body = sub.visit(node.body)
        return node

    def visit_FunctionDef(self, node):
        return node

    visit_AsyncFunctionDef = visit_FunctionDef
    visit_ClassDef = visit_FunctionDef


class Expander:
    def __init__(self, modules, baseline):
        self.modules = modules                      # name -> srcmodel.Module
        self.baseline = baseline                    # {'functions': [...], 'classes': [...]} or None
        self.base_funcs = set(baseline['functions']) if baseline else None
        self.mod_funcs = {}                         # mod -> {name: FunctionDef}
        self.classes = {}                           # (mod, cname) -> ClassDef
        self.class_bases = {}                       # (mod, cname) -> [(mod, cname)]
        self.class_methods = {}                     # (mod, cname) -> {name: FunctionDef}
        self.star = {}                              # mod -> [internal module names star-imported]
        self.from_imports = {}                      # mod -> {local name: (mod, name)}
        self.subclasses = {}                        # (mod,cname) -> set of (mod,cname)
        self.stats = {'inlined_calls': 0, 'inlined_helpers': set(), 'constants': 0, 'local_literals': 0, 'skipped': []}
        self.counter = 0

    # ------------------------------------------------------------------ collection
    def collect(self):
        for mname, m in self.modules.items():
            funcs, star, frm = {}, [], {}
            for st in self._toplevel(m.tree.body):
                if isinstance(st, ast.FunctionDef):
                    funcs[st.name] = st
                elif isinstance(st, ast.ClassDef):
                    self.classes[(mname, st.name)] = st
                    self.class_methods[(mname, st.name)] = {s.name: s for s in st.body if isinstance(s, ast.FunctionDef)}
                elif isinstance(st, ast.ImportFrom) and st.level:
                    tgt = (st.module or '').split('.')[0] or '__init__'
                    if tgt in self.modules:
                        for a in st.names:
                            if a.name == '*':
                                star.append(tgt)
                            else:
                                frm[a.asname or a.name] = (tgt, a.name)
            self.mod_funcs[mname] = funcs
            self.star[mname] = star
            self.from_imports[mname] = frm
        for (mname, cname), cdef in self.classes.items():
            bases = []
            for b in cdef.bases:
                r = self._resolve_class(mname, b)
                if r:
                    bases.append(r)
            self.class_bases[(mname, cname)] = bases
        for k in self.classes:
            for anc in self._ancestors(k):
                self.subclasses.setdefault(anc, set()).add(k)

    def _toplevel(self, body):
        for st in body:
            yield st
            if isinstance(st, (ast.If, ast.Try)):
                for sub in ('body', 'orelse', 'finalbody'):
                    yield from self._toplevel(getattr(st, sub, []) or [])
                for h in getattr(st, 'handlers', []) or []:
                    yield from self._toplevel(h.body)

    def _resolve_class(self, mname, expr, _seen=None):
        if isinstance(expr, ast.Name):
            return self._find_class(mname, expr.id, set())
        return None

    def _find_class(self, mname, name, seen):
        if (mname, name) in seen:
            return None
        seen.add((mname, name))
        if (mname, name) in self.classes:
            return (mname, name)
        if name in self.from_imports.get(mname, {}):
            tm, tn = self.from_imports[mname][name]
            return self._find_class(tm, tn, seen)
        for s in self.star.get(mname, []):
            r = self._find_class(s, name, seen)
            if r:
                return r
        return None

    def _find_func(self, mname, name, seen=None):
        seen = seen if seen is not None else set()
        if (mname, name) in seen:
            return None
        seen.add((mname, name))
        if name in self.mod_funcs.get(mname, {}):
            return mname, self.mod_funcs[mname][name]
        if name in self.from_imports.get(mname, {}):
            tm, tn = self.from_imports[mname][name]
            return self._find_func(tm, tn, seen)
        for s in self.star.get(mname, []):
            tm = self.modules[s]
            allv = None
            for st in tm.tree.body:
                if isinstance(st, ast.Assign) and any(isinstance(t, ast.Name) and t.id == '__all__' for t in st.targets):
                    try:
                        allv = list(ast.literal_eval(st.value))
                    except Exception:
                        allv = None
            if (allv is not None and name not in allv) or (allv is None and name.startswith('_')):
                continue
            r = self._find_func(s, name, seen)
            if r:
                return r
        return None

    def _ancestors(self, k, seen=None):
        seen = seen if seen is not None else set()
        out = []
        for b in self.class_bases.get(k, []):
            if b not in seen:
                seen.add(b)
                out.append(b)
                out.extend(self._ancestors(b, seen))
        return out

    def _lookup_method(self, k, name):
        """(owner class key, FunctionDef) by a simple left-to-right depth-first search (enough to find *a* definition;
        uniqueness across the hierarchy is checked separately)."""
        if name in self.class_methods.get(k, {}):
            return k, self.class_methods[k][name]
        for b in self.class_bases.get(k, []):
            r = self._lookup_method(b, name)
            if r:
                return r
        return None

    def _method_defs_everywhere(self, name):
        return [(k, d[name]) for k, d in self.class_methods.items() if name in d]

    # ------------------------------------------------------------------ eligibility
    def _is_new(self, mname, cname, fname):
        if self.base_funcs is None:
            return False
        q = '%s.%s%s' % (mname, (cname + '.') if cname else '', fname)
        if q in self.base_funcs:
            return False
        if cname:
            # a method that the reference inventory knows under a subclass of its present owner was only moved to a new
            # base class: it is not a helper to inline
            for sub in self.subclasses.get((mname, cname), ()):
                if '%s.%s.%s' % (sub[0], sub[1], fname) in self.base_funcs:
                    return False
        return True

    def _callee_ok(self, fdef, allow_yield=False):
        if fdef.decorator_list:
            return False
        a = fdef.args
        if a.kwarg:
            # **options is supported when it is only forwarded (`f(..., **options)`)
            kw = a.kwarg.arg
            fwd = {id(k.value) for x in ast.walk(fdef) if isinstance(x, ast.Call) for k in x.keywords
                   if k.arg is None and isinstance(k.value, ast.Name) and k.value.id == kw}
            if any(isinstance(x, ast.Name) and x.id == kw and id(x) not in fwd for x in ast.walk(fdef)):
                return False
        if a.vararg:
            # *args is supported when it is only forwarded (`f(*args)`) or used as a tuple value
            va = a.vararg.arg
            if any(isinstance(x, ast.Name) and x.id == va and isinstance(x.ctx, (ast.Store, ast.Del)) for x in ast.walk(fdef)):
                return False
        body = _strip_doc(fdef.body)
        n = 0
        for x in _walk_no_nested(body):
            n += isinstance(x, ast.stmt)
            if isinstance(x, (ast.Yield, ast.YieldFrom)) and allow_yield:
                continue
            if isinstance(x, (ast.Yield, ast.YieldFrom, ast.Await, ast.Global, ast.Nonlocal)):
                return False
            if isinstance(x, ast.Name) and x.id in ('super', 'locals', 'vars', '__class__'):
                return False
            if isinstance(x, (ast.FunctionDef, ast.AsyncFunctionDef, ast.ClassDef)):
                return False
        if n > MAX_CALLEE_STMTS:
            return False
        # returns only in structured positions (not inside loops / try / with)
        if not self._returns_structured(body, False):
            return False
        return True

    def _returns_structured(self, stmts, in_unstructured):
        for s in stmts:
            if isinstance(s, ast.Return):
                if in_unstructured:
                    return False
            elif isinstance(s, ast.If):
                if not self._returns_structured(s.body, in_unstructured) or not self._returns_structured(s.orelse, in_unstructured):
                    return False
            elif isinstance(s, (ast.For, ast.While)) and not in_unstructured and self._loop_convertible(s):
                if not self._returns_structured(s.orelse, in_unstructured):
                    return False
            elif isinstance(s, ast.Try) and not in_unstructured and not s.finalbody and not s.orelse and s is not stmts[-1] \
                    and self._contains_return(s.body) and not any(self._contains_return(h.body) for h in s.handlers):
                if not self._returns_structured(s.body, in_unstructured):
                    return False
            elif isinstance(s, ast.Try) and not in_unstructured and not s.finalbody and s is stmts[-1]:
                # a try statement that ends its block: `return e` inside it becomes `r = e` and control leaves the try
                for blk in [s.body, s.orelse] + [h.body for h in s.handlers]:
                    if not self._returns_structured(blk, in_unstructured):
                        return False
            elif isinstance(s, (ast.For, ast.While, ast.Try, ast.With)):
                for sub in ('body', 'orelse', 'finalbody'):
                    if not self._returns_structured(getattr(s, sub, []) or [], True):
                        return False
                for h in getattr(s, 'handlers', []) or []:
                    if not self._returns_structured(h.body, True):
                        return False
        return True

    def _loop_convertible(self, loop):
        """returns inside the loop body sit only under `if`s (not in nested loops / try / with) and the loop has no `break`
        of its own: `return e` can become `r = e; break` with the code after the loop moved into the loop's else clause."""
        def ok(stmts):
            for s in stmts:
                if isinstance(s, ast.Break):
                    return False
                if isinstance(s, ast.If):
                    if not ok(s.body) or not ok(s.orelse):
                        return False
                elif isinstance(s, (ast.For, ast.While, ast.Try, ast.With)):
                    if self._contains_return([s]):
                        return False
                    if isinstance(s, (ast.Try, ast.With)) and any(isinstance(x, ast.Break) for x in _walk_no_nested([s])):
                        # a break of the outer loop nested in try/with: leave alone
                        inner_loops = [y for y in _walk_no_nested([s]) if isinstance(y, (ast.For, ast.While))]
                        if not inner_loops:
                            return False
            return True
        return ok(loop.body)

    # ------------------------------------------------------------------ resolution of a call
    def resolve_call(self, mname, cname, fdef, call):
        """-> (callee FunctionDef, bound receiver expr or None, callee module, callee class) or None"""
        f = call.func
        if any(isinstance(a, ast.Starred) for a in call.args) or any(k.arg is None for k in call.keywords):
            return None
        params = _params(fdef)
        if isinstance(f, ast.Name):
            # a helper defined inside this very function (a closure over its locals)
            nested = [st for st in fdef.body if isinstance(st, ast.FunctionDef) and st.name == f.id]
            if len(nested) == 1 and not nested[0].decorator_list:
                nd = nested[0]
                rebound = sum(1 for x in _walk_no_nested(fdef.body) if isinstance(x, ast.Name) and x.id == f.id
                              and isinstance(x.ctx, (ast.Store, ast.Del)))
                escapes = [x for x in _walk_no_nested(fdef.body) if isinstance(x, ast.Name) and x.id == f.id and isinstance(x.ctx, ast.Load)]
                calls_ = [c for c in _walk_no_nested(fdef.body) if isinstance(c, ast.Call) and c.func in escapes]
                recursive = any(isinstance(x, ast.Name) and x.id == f.id for x in ast.walk(nd))
                if not rebound and len(escapes) == len(calls_) and not recursive:
                    return nd, None, mname, cname
                return None
            r = self._find_func(mname, f.id)
            if not r:
                return None
            tm, tdef = r
            if tdef is fdef or not self._is_new(tm, None, tdef.name):
                return None
            return tdef, None, tm, None
        if isinstance(f, ast.Attribute) and isinstance(f.value, ast.Name) and cname and params and f.value.id == params[0] \
                and not any(d for d in fdef.decorator_list if isinstance(d, ast.Name) and d.id == 'staticmethod'):
            k = (mname, cname)
            r = self._lookup_method(k, f.attr)
            if not r:
                # a method of a class that is always combined with this one (mixins are resolved per universe; skip)
                return None
            owner, tdef = r
            if tdef is fdef or not self._is_new(owner[0], owner[1], tdef.name):
                return None
            # the name must have exactly one definition in the package (no override anywhere)
            if len(self._method_defs_everywhere(f.attr)) != 1:
                return None
            caller_is_cm = any(isinstance(d, ast.Name) and d.id == 'classmethod' for d in fdef.decorator_list)
            callee_is_cm = any(isinstance(d, ast.Name) and d.id == 'classmethod' for d in tdef.decorator_list)
            if caller_is_cm != callee_is_cm:
                return None
            return tdef, f.value, owner[0], owner[1]
        if isinstance(f, ast.Attribute) and isinstance(f.value, ast.Name) and call.args:
            # ClassName.method(self, ...)
            ck = self._find_class(mname, f.value.id, set())
            if ck:
                r = self._lookup_method(ck, f.attr)
                if r:
                    owner, tdef = r
                    if tdef is not fdef and self._is_new(owner[0], owner[1], tdef.name) \
                            and len(self._method_defs_everywhere(f.attr)) == 1 \
                            and not any(isinstance(d, ast.Name) and d.id in ('classmethod', 'staticmethod') for d in tdef.decorator_list):
                        return tdef, 'explicit', owner[0], owner[1]
        if isinstance(f, ast.Attribute) and isinstance(f.value, ast.Name):
            # ClassName.classmethod(...) / ClassName.staticmethod(...) of a class that is not in the inventory
            ck = self._find_class(mname, f.value.id, set())
            if ck:
                r = self._lookup_method(ck, f.attr)
                if r:
                    owner, tdef = r
                    kinds = {d.id for d in tdef.decorator_list if isinstance(d, ast.Name)}
                    if tdef is not fdef and kinds & {'classmethod', 'staticmethod'} and self._is_new(owner[0], owner[1], tdef.name) \
                            and len(self._method_defs_everywhere(f.attr)) == 1 and not self.subclasses.get(ck):
                        return tdef, f.value, owner[0], owner[1]
        return None

    # ------------------------------------------------------------------ inlining
    def _fresh(self, base, taken):
        if base not in taken:
            return base
        while True:
            self.counter += 1
            cand = '%s__i%d' % (base, self.counter)
            if cand not in taken:
                return cand

    def build_inline(self, caller_fdef, call, tdef, recv, mode, keep_names=(), allow_yield=False):
        """-> (stmts, result_expr) ; mode: 'value' (result needed), 'stmt' (result unused), 'tail' (return call)."""
        body = copy.deepcopy(_strip_doc(tdef.body))
        decos = tdef.decorator_list
        if any(True for d in decos if not (isinstance(d, ast.Name) and d.id in ('classmethod', 'staticmethod'))):
            return None
        is_static = any(isinstance(d, ast.Name) and d.id == 'staticmethod' for d in decos)
        if not self._callee_ok(ast.FunctionDef(name=tdef.name, args=tdef.args, body=tdef.body, decorator_list=[],
                                               returns=None, type_comment=None, lineno=tdef.lineno, col_offset=0),
                               allow_yield=allow_yield):
            return None
        cparams = _params(tdef)
        args = list(call.args)
        if recv is not None and recv != 'explicit' and not is_static:
            args = [recv] + args
        extra = []
        if len(args) > len(cparams):
            if tdef.args.vararg is None:
                return None
            extra = args[len(cparams):]
            args = args[:len(cparams)]
        binding = dict(zip(cparams, args))
        kwonly = [x.arg for x in tdef.args.kwonlyargs]
        extra_kw = []
        for k in call.keywords:
            if k.arg is None:
                return None
            if k.arg in kwonly and k.arg not in binding:
                binding[k.arg] = k.value
                continue
            if k.arg not in cparams and tdef.args.kwarg is not None:
                # lands in **options: forwarded as the same keyword (evaluated where the helper forwards it, so only names)
                if not (isinstance(k.value, (ast.Name, ast.Constant)) or (isinstance(k.value, ast.Attribute) and self._pure_chain(k.value))):
                    return None
                extra_kw.append((k.arg, k.value))
                continue
            if k.arg not in cparams or k.arg in binding:
                return None
            binding[k.arg] = k.value
        for x, d in zip(tdef.args.kwonlyargs, tdef.args.kw_defaults):
            if x.arg not in binding:
                if d is None or not (isinstance(d, (ast.Constant, ast.Name, ast.Attribute)) or _is_literal(d)):
                    return None
                binding[x.arg] = d
        cparams = cparams + kwonly
        npos = len(cparams) - len(kwonly)
        defaults = tdef.args.defaults
        for p, d in zip(cparams[npos - len(defaults):npos], defaults):
            if p not in binding and not (isinstance(d, (ast.Constant, ast.Name, ast.Attribute)) or _is_literal(d)):
                # a default that is evaluated once per process (a dict / list / call): not the same as a fresh value per call
                return None
            binding.setdefault(p, d)
        if set(binding) != set(cparams):
            return None
        caller_names = _all_names(caller_fdef.body) | set(_params(caller_fdef))
        callee_stored = _stored_names(body)
        pre = []
        exprs, renames = {}, {}
        for p in cparams:
            a = binding[p]
            simple = isinstance(a, (ast.Name, ast.Constant)) or (isinstance(a, ast.Attribute) and self._pure_chain(a)) \
                or _is_literal(a)
            if simple and p not in callee_stored:
                # a Name argument must not be rebound by the callee body under another role
                if isinstance(a, ast.Name) and a.id in callee_stored and a.id != p:
                    simple = False
            if simple and p not in callee_stored:
                exprs[p] = a
            else:
                new = self._fresh(p, caller_names - {p} if (isinstance(a, ast.Name) and a.id == p) else caller_names)
                if isinstance(a, ast.Name) and a.id == p and p not in callee_stored:
                    exprs[p] = a
                    continue
                renames[p] = new
                caller_names.add(new)
                pre.append(ast.Assign(targets=[ast.Name(id=new, ctx=ast.Store())], value=copy.deepcopy(a), lineno=call.lineno,
                                      col_offset=0))
        for v in sorted(callee_stored - set(cparams)):
            if v in caller_names and v not in keep_names:
                new = self._fresh(v + '__i', caller_names) if False else self._fresh(v, caller_names)
                renames[v] = new
                caller_names.add(new)
        sub = _Subst(exprs, renames)
        body = [sub.visit(s) for s in body]
        if tdef.args.vararg is not None:
            va = tdef.args.vararg.arg
            if not all(isinstance(x, (ast.Name, ast.Constant)) or (isinstance(x, ast.Attribute) and self._pure_chain(x)) for x in extra):
                # evaluate each extra argument once, in order
                tmp = []
                for x in extra:
                    nm = self._fresh('%s_arg' % va, caller_names)
                    caller_names.add(nm)
                    pre.append(ast.Assign(targets=[ast.Name(id=nm, ctx=ast.Store())], value=copy.deepcopy(x), lineno=call.lineno, col_offset=0))
                    tmp.append(ast.Name(id=nm, ctx=ast.Load()))
                extra = tmp

            class V(ast.NodeTransformer):
                def visit_Call(self, node):
                    self.generic_visit(node)
                    new_args = []
                    for a in node.args:
                        if isinstance(a, ast.Starred) and isinstance(a.value, ast.Tuple) and getattr(a.value, '_from_vararg', False):
                            new_args.extend(a.value.elts)
                        else:
                            new_args.append(a)
                    node.args = new_args
                    return node

                def visit_Name(self, node):
                    if node.id == va and isinstance(node.ctx, ast.Load):
                        t = ast.Tuple(elts=[copy.deepcopy(x) for x in extra], ctx=ast.Load())
                        t._from_vararg = True
                        return ast.copy_location(t, node)
                    return node
            body = [V().visit(s2) for s2 in body]
        if tdef.args.kwarg is not None:
            kwname = tdef.args.kwarg.arg

            class K(ast.NodeTransformer):
                def visit_Call(self, node):
                    self.generic_visit(node)
                    new_kw = []
                    for k in node.keywords:
                        if k.arg is None and isinstance(k.value, ast.Name) and k.value.id == kwname:
                            new_kw.extend(ast.keyword(arg=nm, value=copy.deepcopy(v)) for nm, v in extra_kw)
                        else:
                            new_kw.append(k)
                    node.keywords = new_kw
                    return node
            body = [K().visit(s2) for s2 in body]
        if mode == 'tail':
            stmts = pre + body
            if self._can_fall_through(body):
                synthetic = ast.Return(value=ast.Constant(None), lineno=call.lineno, col_offset=0)
                synthetic._synthetic = True
                stmts.append(synthetic)
            res = None
        else:
            rname = self._fresh('%s_result' % tdef.name.lstrip('_'), caller_names)
            has_value_return = any(isinstance(x, ast.Return) and x.value is not None for x in _walk_no_nested(body))
            conv, always = self._convert_returns(body, rname, [])
            if conv is None:
                return None
            stmts = pre
            if mode == 'value':
                if not always:
                    stmts = stmts + [ast.Assign(targets=[ast.Name(id=rname, ctx=ast.Store())], value=ast.Constant(None),
                                                lineno=call.lineno, col_offset=0)]
                stmts = stmts + conv
                res = ast.Name(id=rname, ctx=ast.Load())
                res._always = always
            else:
                # result unused: drop the result assignments whose value is a constant / name
                stmts = stmts + self._drop_result_stores(conv, rname)
                res = None
        for s in stmts:
            for x in ast.walk(s):
                if not hasattr(x, 'lineno'):
                    x.lineno = call.lineno
                    x.col_offset = 0
                if isinstance(x, ast.stmt) and not hasattr(x, '_inlined_from'):
                    x._inlined_from = tdef.name
            ast.fix_missing_locations(s)
        return stmts, res

    def _pure_chain(self, a):
        while isinstance(a, ast.Attribute):
            a = a.value
        return isinstance(a, ast.Name)

    def _can_fall_through(self, stmts):
        if not stmts:
            return True
        last = stmts[-1]
        if isinstance(last, (ast.Return, ast.Raise)):
            return False
        if isinstance(last, ast.If):
            return self._can_fall_through(last.body) or self._can_fall_through(last.orelse)
        return True

    def _contains_return(self, stmts):
        return any(isinstance(x, ast.Return) for x in _walk_no_nested(stmts))

    def _convert_returns(self, stmts, rname, cont):
        """structured conversion in continuation-passing style: `return e` -> `rname = e` (and nothing after it);
        an `if` that contains a return receives, in each branch that can fall through, its own copy of everything that
        follows it (`cont`).  Returns (new_stmts, always_assigns_result); None when a return sits inside a loop/try."""
        out = []
        for i, s in enumerate(stmts):
            if isinstance(s, ast.Return):
                out.append(ast.copy_location(ast.Assign(targets=[ast.Name(id=rname, ctx=ast.Store())],
                                                        value=s.value if s.value is not None else ast.Constant(None),
                                                        lineno=s.lineno, col_offset=0), s))
                return out, True
            if isinstance(s, ast.If) and self._contains_return([s]):
                k = list(stmts[i + 1:]) + list(cont)
                b, br = self._convert_returns(s.body, rname, k)
                o, orr = self._convert_returns(s.orelse, rname, k)
                if b is None or o is None:
                    return None, False
                out.append(ast.copy_location(ast.If(test=s.test, body=b or [ast.Pass()], orelse=o), s))
                return out, br and orr
            if isinstance(s, (ast.For, ast.While)) and self._contains_return(s.body) and self._loop_convertible(s):
                k = list(stmts[i + 1:]) + list(cont)
                body = self._returns_to_breaks(s.body, rname)
                o, orr = self._convert_returns(list(s.orelse), rname, k)
                if o is None:
                    return None, False
                if isinstance(s, ast.For):
                    new = ast.For(target=s.target, iter=s.iter, body=body, orelse=o, type_comment=None)
                else:
                    new = ast.While(test=s.test, body=body, orelse=o)
                out.append(ast.copy_location(new, s))
                return out, orr
            if isinstance(s, ast.Try) and not s.finalbody and not s.orelse and self._contains_return(s.body) \
                    and (stmts[i + 1:] or cont) and not any(self._contains_return(h.body) for h in s.handlers):
                # `try: return e  except K: <recover>` followed by more code: the code that follows runs only after a handler,
                # so it is placed at the end of every handler
                b, br = self._convert_returns(list(s.body), rname, [])
                if b is None or not br:
                    return None, False
                k = list(stmts[i + 1:]) + list(cont)
                hs, hall = [], True
                for h in s.handlers:
                    hb, hr = self._convert_returns(list(h.body), rname, k)
                    if hb is None:
                        return None, False
                    ends = bool(hb) and isinstance(hb[-1], ast.Raise)
                    hall = hall and (hr or ends)
                    hs.append(ast.copy_location(ast.ExceptHandler(type=h.type, name=h.name, body=hb or [ast.Pass()]), h))
                out.append(ast.copy_location(ast.Try(body=b, handlers=hs, orelse=[], finalbody=[]), s))
                return out, hall
            if isinstance(s, ast.Try) and not s.finalbody and self._contains_return([s]) and i == len(stmts) - 1 and not cont:
                b, br = self._convert_returns(list(s.body), rname, [])
                o, orr = self._convert_returns(list(s.orelse), rname, []) if s.orelse else ([], br)
                if b is None or o is None:
                    return None, False
                hs, hall = [], True
                for h in s.handlers:
                    hb, hr = self._convert_returns(list(h.body), rname, [])
                    if hb is None:
                        return None, False
                    ends = bool(hb) and isinstance(hb[-1], ast.Raise)
                    hall = hall and (hr or ends)
                    hs.append(ast.copy_location(ast.ExceptHandler(type=h.type, name=h.name, body=hb or [ast.Pass()]), h))
                out.append(ast.copy_location(ast.Try(body=b or [ast.Pass()], handlers=hs, orelse=o, finalbody=[]), s))
                return out, (orr if s.orelse else br) and hall
            if self._contains_return([s]):
                return None, False
            out.append(s)
        if cont:
            r, rr = self._convert_returns(copy.deepcopy(list(cont)), rname, [])
            if r is None:
                return None, False
            return out + r, rr
        return out, False

    def _returns_to_breaks(self, stmts, rname):
        out = []
        for s in stmts:
            if isinstance(s, ast.Return):
                out.append(ast.copy_location(ast.Assign(targets=[ast.Name(id=rname, ctx=ast.Store())],
                                                        value=s.value if s.value is not None else ast.Constant(None),
                                                        lineno=s.lineno, col_offset=0), s))
                out.append(ast.copy_location(ast.Break(), s))
                return out
            if isinstance(s, ast.If) and self._contains_return([s]):
                out.append(ast.copy_location(ast.If(test=s.test, body=self._returns_to_breaks(s.body, rname) or [ast.Pass()],
                                                    orelse=self._returns_to_breaks(s.orelse, rname)), s))
                continue
            out.append(s)
        return out

    def _always(self, stmts, rname):
        if not stmts:
            return False
        last = stmts[-1]
        if isinstance(last, ast.Assign) and isinstance(last.targets[0], ast.Name) and last.targets[0].id == rname:
            return True
        if isinstance(last, ast.Raise):
            return True
        if isinstance(last, ast.If):
            return bool(last.orelse) and self._always(last.body, rname) and self._always(last.orelse, rname)
        if isinstance(last, (ast.For, ast.While)) and last.orelse:
            return self._always(last.orelse, rname)
        if isinstance(last, ast.Try) and not last.finalbody:
            return self._always(last.orelse or last.body, rname) and all(self._always(h.body, rname) for h in last.handlers)
        return False

    def _drop_result_stores(self, stmts, rname):
        out = []
        for s in stmts:
            if isinstance(s, ast.Assign) and isinstance(s.targets[0], ast.Name) and s.targets[0].id == rname:
                if isinstance(s.value, (ast.Constant, ast.Name)):
                    continue
                out.append(ast.copy_location(ast.Expr(value=s.value), s))
                continue
            if isinstance(s, ast.If):
                s.body = self._drop_result_stores(s.body, rname) or [ast.Pass()]
                s.orelse = self._drop_result_stores(s.orelse, rname)
            out.append(s)
        return out

    # ------------------------------------------------------------------ statement rewriting
    def expand_function(self, mname, cname, fdef):
        changed = False
        fdef.body, c = self._expand_block(mname, cname, fdef, fdef.body)
        return c

    def _single_call(self, expr):
        """the call to consider when `expr` is the value of a statement."""
        if isinstance(expr, ast.Call):
            return expr
        return None

    def _expand_block(self, mname, cname, fdef, stmts):
        out = []
        changed = False
        for s in stmts:
            # recurse into compound statements first
            for sub in ('body', 'orelse', 'finalbody'):
                if isinstance(getattr(s, sub, None), list) and not isinstance(s, (ast.FunctionDef, ast.ClassDef, ast.AsyncFunctionDef)):
                    nb, c = self._expand_block(mname, cname, fdef, getattr(s, sub))
                    setattr(s, sub, nb)
                    changed |= c
            for h in getattr(s, 'handlers', []) or []:
                h.body, c = self._expand_block(mname, cname, fdef, h.body)
                changed |= c
            rep = self._expand_stmt(mname, cname, fdef, s)
            if rep is None:
                out.append(s)
            else:
                out.extend(rep)
                changed = True
        return out, changed

    def _expand_stmt(self, mname, cname, fdef, s):
        # 1. expression-bodied helpers anywhere inside the statement's own expressions
        self._inline_expr_helpers(mname, cname, fdef, s)
        # 2. statement-bodied helpers in value position
        call, mode = None, None
        if isinstance(s, ast.Expr) and isinstance(s.value, ast.Call):
            call, mode = s.value, 'stmt'
        elif isinstance(s, ast.Expr) and isinstance(s.value, ast.YieldFrom) and isinstance(s.value.value, ast.Call):
            # `yield from self._helper(...)` with a generator helper that has no return: its body, in place
            call, mode = s.value.value, 'yieldfrom'
        elif isinstance(s, ast.Return) and isinstance(s.value, ast.Call):
            call, mode = s.value, 'tail'
        elif isinstance(s, (ast.Assign, ast.AugAssign, ast.AnnAssign)) and isinstance(s.value, ast.Call):
            call, mode = s.value, 'value'
        elif isinstance(s, ast.If) and isinstance(s.test, ast.Call):
            call, mode = s.test, 'value'
        elif isinstance(s, ast.If) and isinstance(s.test, ast.UnaryOp) and isinstance(s.test.op, ast.Not) and isinstance(s.test.operand, ast.Call):
            call, mode = s.test.operand, 'value'
        r = self.resolve_call(mname, cname, fdef, call) if call is not None else None
        if not r:
            return self._hoist_nested(mname, cname, fdef, s)
        tdef, recv, tm, tc = r
        keep = ()
        if mode == 'value' and isinstance(s, ast.Assign) and len(s.targets) == 1 and self._simple_target(s.targets[0]):
            # names that the statement overwrites anyway need not be kept apart from the helper's locals of the same name
            keep = {x.id for x in ast.walk(s.targets[0]) if isinstance(x, ast.Name)}
            keep -= {x.id for a in list(call.args) + [k.value for k in call.keywords] for x in ast.walk(a) if isinstance(x, ast.Name)}
        if mode == 'yieldfrom':
            if self._contains_return(tdef.body) or not any(isinstance(x, (ast.Yield, ast.YieldFrom)) for x in _walk_no_nested(tdef.body)):
                return None
            built = self.build_inline(fdef, call, tdef, recv, 'tail', keep, allow_yield=True)
            if built is not None:
                # 'tail' appends `return None` when the body can fall through: not wanted here
                stmts0 = [x for x in built[0] if not (isinstance(x, ast.Return) and getattr(x, '_synthetic', False))]
                built = (stmts0, None)
                mode = 'stmt'
        else:
            built = self.build_inline(fdef, call, tdef, recv, mode, keep)
        if built is None:
            self.stats['skipped'].append('%s.%s -> %s' % (mname, fdef.name, tdef.name))
            return None
        stmts, res = built
        self.stats['inlined_calls'] += 1
        self.stats['inlined_helpers'].add('%s.%s%s' % (tm, (tc + '.') if tc else '', tdef.name))
        if mode == 'stmt':
            return stmts or [ast.copy_location(ast.Pass(), s)]
        if mode == 'tail':
            return stmts
        # value
        if isinstance(s, ast.If):
            if isinstance(s.test, ast.Call):
                s.test = res
            else:
                s.test.operand = res
        else:
            if isinstance(s, ast.Assign) and len(s.targets) == 1 and getattr(res, '_always', False) \
                    and self._simple_target(s.targets[0]):
                # `T = helper(...)`: store each returned value straight into T (gives back the code as it was before
                # the helper was extracted: `sign, value = -1, value[1:]`)
                self._retarget(stmts, res.id, s.targets[0])
                return self._drop_self_assign(stmts) or [ast.copy_location(ast.Pass(), s)]
            s.value = res
        return stmts + [s]

    # a helper call nested inside the statement's expression, evaluated unconditionally and before anything with an effect:
    # `merge.extend(self._pairs(node))`  ->  `r = <body of _pairs>; merge.extend(r)`
    def _hoist_nested(self, mname, cname, fdef, s):
        if isinstance(s, (ast.Expr, ast.Return, ast.Assign, ast.AnnAssign)):
            root = s.value
        elif isinstance(s, ast.AugAssign) and isinstance(s.target, ast.Name):
            root = s.value
        elif isinstance(s, ast.If):
            root = s.test
        elif isinstance(s, ast.For):
            root = s.iter
        elif isinstance(s, ast.Raise):
            root = s.exc
        else:
            return None
        if root is None:
            return None
        state = {'open': True, 'found': None, 'loaded_attrs': set(), 'loaded_names': set()}

        def visit(e):
            if not state['open'] or state['found'] is not None or e is None:
                return
            if isinstance(e, ast.Constant):
                return
            if isinstance(e, ast.Name):
                state['loaded_names'].add(e.id)
                return
            if isinstance(e, ast.Attribute):
                visit(e.value)
                state['loaded_attrs'].add(e.attr)
                return
            if isinstance(e, ast.Call):
                visit(e.func)
                for a in e.args:
                    visit(a.value if isinstance(a, ast.Starred) else a)
                for k in e.keywords:
                    visit(k.value)
                if not state['open'] or state['found'] is not None:
                    return
                if e is not root or not isinstance(s, (ast.Expr, ast.Return, ast.Assign, ast.AnnAssign, ast.AugAssign)):
                    r = self.resolve_call(mname, cname, fdef, e)
                    if r:
                        state['found'] = (e, r)
                        return
                state['open'] = False
                return
            if isinstance(e, (ast.BinOp,)):
                visit(e.left)
                visit(e.right)
                return
            if isinstance(e, ast.UnaryOp):
                visit(e.operand)
                return
            if isinstance(e, ast.Compare):
                visit(e.left)
                if len(e.comparators) == 1:
                    visit(e.comparators[0])
                else:
                    state['open'] = False
                return
            if isinstance(e, ast.Subscript):
                visit(e.value)
                if isinstance(e.slice, ast.Slice):
                    for x in (e.slice.lower, e.slice.upper, e.slice.step):
                        visit(x)
                else:
                    visit(e.slice)
                return
            if isinstance(e, (ast.Tuple, ast.List, ast.Set)):
                for x in e.elts:
                    visit(x)
                return
            if isinstance(e, ast.BoolOp):
                visit(e.values[0])
                state['open'] = False
                return
            if isinstance(e, ast.IfExp):
                visit(e.test)
                state['open'] = False
                return
            state['open'] = False

        visit(root)
        if state['found'] is None:
            return None
        call, (tdef, recv, tm, tc) = state['found']
        # what was loaded before the call must not be something the helper rebinds
        stored_attrs = {x.attr for x in _walk_no_nested(tdef.body) if isinstance(x, ast.Attribute) and isinstance(x.ctx, (ast.Store, ast.Del))}
        if stored_attrs & state['loaded_attrs']:
            return None
        if any(isinstance(x, (ast.Global, ast.Nonlocal)) for x in _walk_no_nested(tdef.body)):
            return None
        built = self.build_inline(fdef, call, tdef, recv, 'value')
        if built is None:
            self.stats['skipped'].append('%s.%s -> %s (nested)' % (mname, fdef.name, tdef.name))
            return None
        stmts, res = built
        self.stats['inlined_calls'] += 1
        self.stats['inlined_helpers'].add('%s.%s%s' % (tm, (tc + '.') if tc else '', tdef.name))

        class Rep(ast.NodeTransformer):
            def visit_Call(self, node):
                if node is call:
                    return ast.copy_location(res, node)
                return self.generic_visit(node)
        for fld in ('value', 'test', 'iter', 'exc'):
            v = getattr(s, fld, None)
            if isinstance(v, ast.AST) and any(x is call for x in ast.walk(v)):
                setattr(s, fld, Rep().visit(v))
        return stmts + [s]

    def _drop_self_assign(self, stmts):
        out = []
        for s in stmts:
            if isinstance(s, ast.Assign) and len(s.targets) == 1 and \
                    ast.dump(s.targets[0]).replace('Store()', 'Load()') == ast.dump(s.value):
                continue
            if isinstance(s, (ast.If, ast.For, ast.While)):
                s.body = self._drop_self_assign(s.body) or [ast.copy_location(ast.Pass(), s)]
                s.orelse = self._drop_self_assign(s.orelse)
            out.append(s)
        return out

    def _simple_target(self, t):
        if isinstance(t, ast.Name):
            return True
        if isinstance(t, ast.Attribute):
            return self._pure_chain(t)
        if isinstance(t, ast.Tuple):
            return all(isinstance(e, ast.Name) for e in t.elts)
        return False

    def _retarget(self, stmts, rname, target):
        for s in stmts:
            if isinstance(s, ast.Assign) and isinstance(s.targets[0], ast.Name) and s.targets[0].id == rname:
                s.targets = [copy.deepcopy(target)]
            elif isinstance(s, (ast.If, ast.For, ast.While, ast.Try)):
                self._retarget(s.body, rname, target)
                self._retarget(s.orelse, rname, target)
                for h in getattr(s, 'handlers', []) or []:
                    self._retarget(h.body, rname, target)

    def _inline_expr_helpers(self, mname, cname, fdef, s):
        """replace calls of helpers whose body is a single `return <expr>` by that expression, anywhere in the
        expressions evaluated by statement s itself (not in nested statement bodies)."""
        exp = self

        class T(ast.NodeTransformer):
            def visit_Call(self, node):
                self.generic_visit(node)
                r = exp.resolve_call(mname, cname, fdef, node)
                if not r:
                    return node
                tdef, recv, tm, tc = r
                body = _strip_doc(tdef.body)
                if len(body) != 1 or not isinstance(body[0], ast.Return) or body[0].value is None or tdef.decorator_list:
                    return node
                if not exp._callee_ok(tdef):
                    return node
                cparams = _params(tdef)
                args = list(node.args)
                if recv is not None and recv != 'explicit':
                    args = [recv] + args
                if len(args) > len(cparams):
                    return node
                binding = dict(zip(cparams, args))
                for k in node.keywords:
                    if k.arg not in cparams or k.arg in binding:
                        return node
                    binding[k.arg] = k.value
                for p, d in zip(cparams[len(cparams) - len(tdef.args.defaults):], tdef.args.defaults):
                    binding.setdefault(p, d)
                if set(binding) != set(cparams):
                    return node
                # every parameter used at most once or bound to a simple argument (no duplicated / reordered effects)
                expr = copy.deepcopy(body[0].value)
                uses = {}
                for x in ast.walk(expr):
                    if isinstance(x, ast.Name) and x.id in binding:
                        uses[x.id] = uses.get(x.id, 0) + 1
                for p, a in binding.items():
                    simple = isinstance(a, (ast.Name, ast.Constant)) or (isinstance(a, ast.Attribute) and exp._pure_chain(a)) or _is_literal(a)
                    if not simple and uses.get(p, 0) != 1:
                        return node
                if any(isinstance(x, (ast.Lambda, ast.ListComp, ast.DictComp, ast.SetComp, ast.GeneratorExp)) for x in ast.walk(expr)):
                    return node
                new = _Subst(binding, {}).visit(expr)
                exp.stats['inlined_calls'] += 1
                exp.stats['inlined_helpers'].add('%s.%s%s' % (tm, (tc + '.') if tc else '', tdef.name))
                return ast.copy_location(new, node)

            def visit_Lambda(self, node):
                return node

        t = T()
        for field, value in ast.iter_fields(s):
            if field in ('body', 'orelse', 'finalbody', 'handlers'):
                continue
            if isinstance(value, ast.AST):
                setattr(s, field, t.visit(value))
            elif isinstance(value, list):
                setattr(s, field, [t.visit(v) if isinstance(v, ast.AST) else v for v in value])

    # ------------------------------------------------------------------ constants
    def module_constants(self, mname):
        m = self.modules[mname]
        binds = {}
        for st in self._toplevel(m.tree.body):
            if isinstance(st, ast.Assign):
                for t in st.targets:
                    for x in ast.walk(t):
                        if isinstance(x, ast.Name):
                            binds.setdefault(x.id, []).append(st.value if (len(st.targets) == 1 and isinstance(t, ast.Name)) else None)
            elif isinstance(st, (ast.AugAssign, ast.AnnAssign)) and isinstance(st.target, ast.Name):
                binds.setdefault(st.target.id, []).append(None)
            elif isinstance(st, (ast.For,)):
                for x in ast.walk(st.target):
                    if isinstance(x, ast.Name):
                        binds.setdefault(x.id, []).append(None)
            elif isinstance(st, (ast.FunctionDef, ast.ClassDef)):
                binds.setdefault(st.name, []).append(None)
            elif isinstance(st, (ast.Import, ast.ImportFrom)):
                for a in st.names:
                    binds.setdefault((a.asname or a.name).split('.')[0], []).append(None)
        # names declared global anywhere in the module are not constants
        glob = set()
        for n in ast.walk(m.tree):
            if isinstance(n, ast.Global):
                glob |= set(n.names)
        out = {}
        for k, v in binds.items():
            if len(v) == 1 and v[0] is not None and _is_literal(v[0]) and k not in glob and not (k.startswith('__') and k.endswith('__')):
                out[k] = v[0]
        # names bound once to an expression over literals and such constants (CONST_A + 'xyz', '%s...' % CONST): folded
        from . import astutil as A
        for _ in range(2):
            env = {}
            for k, node in out.items():
                val = A.const_value(node)
                if val is not NotImplemented:
                    env[k] = val
            for k, v in binds.items():
                if k in out or len(v) != 1 or v[0] is None or k in glob or (k.startswith('__') and k.endswith('__')):
                    continue
                if isinstance(v[0], (ast.BinOp, ast.JoinedStr)):
                    ok, val = A.const_eval(v[0], env)
                    if ok and isinstance(val, (str, int)) and not isinstance(val, bool):
                        out[k] = ast.copy_location(ast.Constant(value=val), v[0])
        return out

    def class_constants(self):
        """attr name -> literal, for class-level names bound exactly once in the whole package and never stored through
        an instance/class attribute."""
        binds = {}
        for (mname, cname), cdef in self.classes.items():
            for st in cdef.body:
                if isinstance(st, ast.Assign):
                    for t in st.targets:
                        for x in ast.walk(t):
                            if isinstance(x, ast.Name):
                                binds.setdefault(x.id, []).append(st.value if (len(st.targets) == 1 and isinstance(t, ast.Name)) else None)
                elif isinstance(st, (ast.For, ast.While, ast.If, ast.Try)):
                    for x in ast.walk(st):
                        if isinstance(x, ast.Name) and isinstance(x.ctx, ast.Store):
                            binds.setdefault(x.id, []).append(None)
        stored_attrs = set()
        for m in self.modules.values():
            for n in ast.walk(m.tree):
                if isinstance(n, ast.Attribute) and isinstance(n.ctx, (ast.Store, ast.Del)):
                    stored_attrs.add(n.attr)
                if isinstance(n, ast.Call) and isinstance(n.func, ast.Name) and n.func.id == 'setattr':
                    stored_attrs.add('*')
        out = {}
        for k, v in binds.items():
            if len(v) == 1 and v[0] is not None and _is_literal(v[0]) and k not in stored_attrs \
                    and not (k.startswith('__') and k.endswith('__')) and not k.startswith('yaml_'):
                out[k] = v[0]
        return out

    def substitute_constants(self):
        cc = self.class_constants()
        for mname, m in self.modules.items():
            mc = self.module_constants(mname)
            # star-imported constants of internal modules
            for s in self.star.get(mname, []):
                for k, v in self.module_constants(s).items():
                    if not k.startswith('_'):
                        mc.setdefault(k, v)
            for k, (tm, tn) in self.from_imports.get(mname, {}).items():
                tc = self.module_constants(tm)
                if tn in tc:
                    mc.setdefault(k, tc[tn])
            exp = self

            for fdef in [n for n in ast.walk(m.tree) if isinstance(n, ast.FunctionDef)]:
                local_stored = _stored_names(fdef.body) | set(_params(fdef)) | \
                    {a.arg for a in fdef.args.kwonlyargs} | \
                    ({fdef.args.vararg.arg} if fdef.args.vararg else set()) | ({fdef.args.kwarg.arg} if fdef.args.kwarg else set())
                first = _params(fdef)[:1]

                class T(ast.NodeTransformer):
                    def visit_Name(self, node):
                        if isinstance(node.ctx, ast.Load) and node.id in mc and node.id not in local_stored:
                            exp.stats['constants'] += 1
                            return ast.copy_location(copy.deepcopy(mc[node.id]), node)
                        return node

                    def visit_Attribute(self, node):
                        self.generic_visit(node)
                        if isinstance(node.ctx, ast.Load) and node.attr in cc and isinstance(node.value, ast.Name) and \
                                (node.value.id in first or (m.name, node.value.id) in exp.classes
                                 or exp._find_class(m.name, node.value.id, set())):
                            exp.stats['constants'] += 1
                            return ast.copy_location(copy.deepcopy(cc[node.attr]), node)
                        return node

                    def visit_FunctionDef(self, node):
                        return node

                    def visit_Lambda(self, node):
                        return node

                t = T()
                fdef.body = [t.visit(s) for s in fdef.body]



    # ------------------------------------------------------------------ module-level helper calls
    def inline_module_level_calls(self):
        """`helper(A, B)` as a statement at module level, helper a module-level function of the same module that is not in the
        reference inventory, takes plain positional parameters and has a body without return / yield / nested scopes: the
        statement is replaced by the body with the arguments written for the parameters (registration helpers such as
        `_register_all(Cls.add_representer, TABLE)`)."""
        if self.base_funcs is None:
            return
        for mname, m in self.modules.items():
            helpers = {}
            for st in m.tree.body:
                if isinstance(st, ast.FunctionDef) and '%s.%s' % (mname, st.name) not in self.base_funcs \
                        and not st.decorator_list and not st.args.vararg and not st.args.kwarg and not st.args.kwonlyargs \
                        and not st.args.defaults \
                        and not any(isinstance(x, (ast.Return, ast.Yield, ast.YieldFrom, ast.Global, ast.Nonlocal, ast.FunctionDef,
                                                   ast.Lambda, ast.ClassDef)) for b in st.body for x in ast.walk(b)):
                    params = [a.arg for a in st.args.args]
                    stored = {x.id for b in st.body for x in ast.walk(b) if isinstance(x, ast.Name) and isinstance(x.ctx, ast.Store)}
                    if not (stored & set(params)):
                        helpers[st.name] = (st, params)
            if not helpers:
                continue

            def rewrite(body):
                out = []
                for st in body:
                    if isinstance(st, ast.Expr) and isinstance(st.value, ast.Call) and isinstance(st.value.func, ast.Name) \
                            and st.value.func.id in helpers and not st.value.keywords \
                            and len(st.value.args) == len(helpers[st.value.func.id][1]) \
                            and all(isinstance(a, (ast.Name, ast.Constant)) or (isinstance(a, ast.Attribute) and self._pure_chain(a))
                                    for a in st.value.args):
                        fdef, params = helpers[st.value.func.id]
                        binding = dict(zip(params, st.value.args))

                        class T(ast.NodeTransformer):
                            def visit_Name(self, node):
                                if isinstance(node.ctx, ast.Load) and node.id in binding:
                                    return ast.copy_location(copy.deepcopy(binding[node.id]), node)
                                return node
                        for b in fdef.body:
                            if isinstance(b, ast.Expr) and isinstance(b.value, ast.Constant):
                                continue
                            nb = T().visit(copy.deepcopy(b))
                            for x in ast.walk(nb):
                                if hasattr(x, 'lineno'):
                                    x.lineno = st.lineno
                                    x.end_lineno = getattr(st, 'end_lineno', st.lineno)
                            out.append(nb)
                        self.stats['inlined_calls'] += 1
                        self.stats['inlined_helpers'].add('%s.%s' % (mname, fdef.name))
                        continue
                    out.append(st)
                return out
            m.tree.body = rewrite(m.tree.body)

    # ------------------------------------------------------------------ character-set constants
    def substitute_charsets(self):
        """`_WORD = frozenset('abc...')` (module or class level, bound once; also set displays, set(...), unions with `|` of
        such constants) used as the right operand of `in` / `not in`: for a one-character left operand membership in the set
        is membership in the string of its elements, which is the spelling the character rules read."""
        def evaluate(node, env):
            if isinstance(node, ast.Call) and isinstance(node.func, ast.Name) and node.func.id in ('frozenset', 'set') \
                    and len(node.args) == 1 and not node.keywords:
                a = node.args[0]
                sv = strconst(a)
                if sv is not None:
                    return set(sv)
                return evaluate(a, env) if isinstance(a, (ast.Set, ast.Tuple, ast.List, ast.Name, ast.BinOp)) else None
            if isinstance(node, (ast.Set, ast.Tuple, ast.List)):
                if node.elts and all(isinstance(e, ast.Constant) and isinstance(e.value, str) and len(e.value) == 1 for e in node.elts):
                    return {e.value for e in node.elts}
                return None
            if isinstance(node, ast.Name):
                return env.get(node.id)
            if isinstance(node, ast.BinOp) and isinstance(node.op, ast.BitOr):
                l, r = evaluate(node.left, env), evaluate(node.right, env)
                return (l | r) if l is not None and r is not None else None
            return None

        def strconst(a):
            import string as _string
            if isinstance(a, ast.Constant) and isinstance(a.value, str):
                return a.value
            if isinstance(a, ast.Attribute) and isinstance(a.value, ast.Name) and a.value.id == 'string' \
                    and a.attr in ('ascii_letters', 'ascii_lowercase', 'ascii_uppercase', 'digits', 'hexdigits', 'octdigits'):
                return getattr(_string, a.attr)
            if isinstance(a, ast.BinOp) and isinstance(a.op, ast.Add):
                l, r = strconst(a.left), strconst(a.right)
                return l + r if l is not None and r is not None else None
            return None

        def is_set_expr(node):
            return (isinstance(node, ast.Call) and isinstance(node.func, ast.Name) and node.func.id in ('frozenset', 'set')) \
                or isinstance(node, ast.Set) or (isinstance(node, ast.BinOp) and isinstance(node.op, ast.BitOr))

        def lit(chars, at):
            return ast.copy_location(ast.Constant(value=''.join(sorted(chars))), at)

        stored_attrs = set()
        for m in self.modules.values():
            for n in ast.walk(m.tree):
                if isinstance(n, ast.Attribute) and isinstance(n.ctx, (ast.Store, ast.Del)):
                    stored_attrs.add(n.attr)
        cls_sets = {}
        for (mname, cname), cdef in self.classes.items():
            env, counts = {}, {}
            for st in cdef.body:
                for x in ast.walk(st):
                    if isinstance(x, ast.Name) and isinstance(x.ctx, ast.Store):
                        counts[x.id] = counts.get(x.id, 0) + 1
            for st in cdef.body:
                if isinstance(st, ast.Assign) and len(st.targets) == 1 and isinstance(st.targets[0], ast.Name) \
                        and counts.get(st.targets[0].id) == 1 and is_set_expr(st.value):
                    v = evaluate(st.value, env)
                    if v and st.targets[0].id not in stored_attrs:
                        env[st.targets[0].id] = v
            for k, v in env.items():
                cls_sets.setdefault(k, []).append(v)
        cls_sets = {k: v[0] for k, v in cls_sets.items() if len(v) == 1}
        for mname, m in self.modules.items():
            env, counts = {}, {}
            for st in self._toplevel(m.tree.body):
                for x in ast.walk(st):
                    if isinstance(x, ast.Name) and isinstance(x.ctx, ast.Store):
                        counts[x.id] = counts.get(x.id, 0) + 1
            glob = {g for n in ast.walk(m.tree) if isinstance(n, ast.Global) for g in n.names}
            for st in self._toplevel(m.tree.body):
                if isinstance(st, ast.Assign) and len(st.targets) == 1 and isinstance(st.targets[0], ast.Name) \
                        and counts.get(st.targets[0].id) == 1 and st.targets[0].id not in glob and is_set_expr(st.value):
                    v = evaluate(st.value, env)
                    if v:
                        env[st.targets[0].id] = v
            if not env and not cls_sets:
                continue
            exp = self
            for fdef in [n for n in ast.walk(m.tree) if isinstance(n, ast.FunctionDef)]:
                local_stored = _stored_names(fdef.body) | set(_params(fdef))

                class T(ast.NodeTransformer):
                    def visit_Compare(self, node):
                        self.generic_visit(node)
                        for i, (op, c) in enumerate(zip(node.ops, node.comparators)):
                            if not isinstance(op, (ast.In, ast.NotIn)):
                                continue
                            if isinstance(c, ast.Name) and c.id in env and c.id not in local_stored:
                                node.comparators[i] = lit(env[c.id], c)
                                exp.stats['constants'] += 1
                            elif isinstance(c, ast.Attribute) and isinstance(c.value, ast.Name) and c.attr in cls_sets:
                                node.comparators[i] = lit(cls_sets[c.attr], c)
                                exp.stats['constants'] += 1
                            elif is_set_expr(c) or isinstance(c, ast.Set):
                                v = evaluate(c, env)
                                if v:
                                    node.comparators[i] = lit(v, c)
                        return node
                T().visit(fdef)

    # ------------------------------------------------------------------ dispatch tables
    def const_dicts(self):
        """name -> ast.Dict for class-/module-level names bound exactly once in the package to a dict display with constant
        keys and constant values, never written through (no subscript store, no mutating call, no attribute rebind)."""
        binds = {}
        bodies = [cdef.body for cdef in self.classes.values()] + [list(self._toplevel(m.tree.body)) for m in self.modules.values()]
        for body in bodies:
            for st in body:
                if isinstance(st, ast.Assign):
                    for t in st.targets:
                        for x in ast.walk(t):
                            if isinstance(x, ast.Name):
                                binds.setdefault(x.id, []).append(st.value if (len(st.targets) == 1 and isinstance(t, ast.Name)) else None)
                elif isinstance(st, (ast.AugAssign, ast.AnnAssign)) and isinstance(st.target, ast.Name):
                    binds.setdefault(st.target.id, []).append(None)
        touched = set()
        for m in self.modules.values():
            for n in ast.walk(m.tree):
                if isinstance(n, ast.Attribute) and isinstance(n.ctx, (ast.Store, ast.Del)):
                    touched.add(n.attr)
                if isinstance(n, (ast.Subscript,)) and isinstance(n.ctx, (ast.Store, ast.Del)):
                    b = n.value
                    touched.add(b.attr if isinstance(b, ast.Attribute) else b.id if isinstance(b, ast.Name) else '')
                if isinstance(n, ast.Call) and isinstance(n.func, ast.Attribute) and n.func.attr in (
                        'update', 'pop', 'popitem', 'clear', 'setdefault', '__setitem__', '__delitem__'):
                    b = n.func.value
                    touched.add(b.attr if isinstance(b, ast.Attribute) else b.id if isinstance(b, ast.Name) else '')
                if isinstance(n, ast.Call) and isinstance(n.func, ast.Name) and n.func.id in ('setattr', 'delattr'):
                    touched.add('*')
        out = {}
        for k, v in binds.items():
            if len(v) == 1 and isinstance(v[0], ast.Dict) and v[0].keys and k not in touched and not k.startswith('yaml_') \
                    and all(isinstance(x, ast.Constant) for x in v[0].keys) and all(isinstance(x, ast.Constant) for x in v[0].values):
                out[k] = v[0]
        return out

    def expand_dispatch(self):
        """`n = T.get(K)` + `if n is not None: A else: B`  (T a constant table)  ->  `if K == k1: n = v1; A[n:=v1] elif ... else: n = None; B`
        and `if K in T: A` -> the same chain with T[K] replaced by the value."""
        tables = self.const_dicts()
        if not tables:
            return
        exp = self

        def table_of(e, first):
            if isinstance(e, ast.Name) and e.id in tables:
                return tables[e.id]
            if isinstance(e, ast.Attribute) and e.attr in tables and isinstance(e.value, ast.Name) and (
                    e.value.id in first or exp._find_class(cur['m'], e.value.id, set())):
                return tables[e.attr]
            if isinstance(e, ast.Attribute) and e.attr in tables and isinstance(e.value, ast.Attribute) \
                    and e.value.attr == '__class__':
                return tables[e.attr]
            return None

        def pure(e):
            return isinstance(e, (ast.Name, ast.Constant)) or (isinstance(e, ast.Attribute) and exp._pure_chain(e))

        def chain(key, table, make_body, orelse, at):
            """if key == k1: body(k1, v1) elif ... else: orelse"""
            cur_else = orelse
            for k, v in reversed(list(zip(table.keys, table.values))):
                test = ast.Compare(left=copy.deepcopy(key), ops=[ast.Eq()], comparators=[copy.deepcopy(k)])
                node = ast.If(test=test, body=make_body(k, v) or [ast.Pass()], orelse=cur_else)
                ast.copy_location(node, at)
                cur_else = [node]
            return cur_else

        class Sub(ast.NodeTransformer):
            def __init__(self, pred, value):
                self.pred, self.value = pred, value

            def generic_visit(self, node):
                if isinstance(node, (ast.FunctionDef, ast.Lambda, ast.ClassDef)):
                    return node
                return super().generic_visit(node)

            def visit(self, node):
                if self.pred(node):
                    return ast.copy_location(copy.deepcopy(self.value), node)
                return super().visit(node)

        def rewrite(stmts, first):
            out = []
            i = 0
            changed = False
            while i < len(stmts):
                s = stmts[i]
                for sub in ('body', 'orelse', 'finalbody'):
                    if isinstance(getattr(s, sub, None), list) and not isinstance(s, (ast.FunctionDef, ast.ClassDef)):
                        nb, c = rewrite(getattr(s, sub), first)
                        setattr(s, sub, nb)
                        changed |= c
                for h in getattr(s, 'handlers', []) or []:
                    h.body, c = rewrite(h.body, first)
                    changed |= c
                nxt = stmts[i + 1] if i + 1 < len(stmts) else None
                # form A
                if isinstance(s, ast.Assign) and len(s.targets) == 1 and isinstance(s.targets[0], ast.Name) \
                        and isinstance(s.value, ast.Call) and isinstance(s.value.func, ast.Attribute) and s.value.func.attr == 'get' \
                        and len(s.value.args) == 1 and not s.value.keywords and pure(s.value.args[0]) \
                        and isinstance(nxt, ast.If):
                    table = table_of(s.value.func.value, first)
                    name = s.targets[0].id
                    t = nxt.test
                    pos = None
                    if isinstance(t, ast.Name) and t.id == name and table is not None and all(x.value for x in table.values):
                        pos = True
                    elif isinstance(t, ast.UnaryOp) and isinstance(t.op, ast.Not) and isinstance(t.operand, ast.Name) \
                            and t.operand.id == name and table is not None and all(x.value for x in table.values):
                        pos = False
                    elif isinstance(t, ast.Compare) and len(t.ops) == 1 and isinstance(t.left, ast.Name) and t.left.id == name \
                            and isinstance(t.comparators[0], ast.Constant) and t.comparators[0].value is None \
                            and isinstance(t.ops[0], (ast.Is, ast.IsNot)):
                        pos = isinstance(t.ops[0], ast.IsNot)
                    key = s.value.args[0]
                    key_names = {x.id for x in ast.walk(key) if isinstance(x, ast.Name)}
                    if table is not None and pos is not None and name not in key_names \
                            and not any(x.value is None for x in table.values):
                        hit, miss = (nxt.body, nxt.orelse) if pos else (nxt.orelse, nxt.body)

                        def make_body(k, v, hit=hit, name=name):
                            body = [ast.Assign(targets=[ast.Name(id=name, ctx=ast.Store())], value=copy.deepcopy(v), lineno=s.lineno, col_offset=0)]
                            for h in copy.deepcopy(hit):
                                body.append(Sub(lambda n: isinstance(n, ast.Name) and n.id == name and isinstance(n.ctx, ast.Load), v).visit(h))
                            return body
                        stored_in_hit = any(isinstance(x, ast.Name) and x.id == name and isinstance(x.ctx, ast.Store)
                                            for x in _walk_no_nested(list(hit)))
                        if not stored_in_hit:
                            orelse = [ast.Assign(targets=[ast.Name(id=name, ctx=ast.Store())], value=ast.Constant(None),
                                                 lineno=s.lineno, col_offset=0)] + list(miss)
                            new = chain(key, table, make_body, orelse, nxt)
                            for n2 in new:
                                ast.fix_missing_locations(n2)
                            out.extend(new)
                            exp.stats['dispatch'] = exp.stats.get('dispatch', 0) + 1
                            i += 2
                            changed = True
                            continue
                # form B
                if isinstance(s, ast.If) and isinstance(s.test, ast.Compare) and len(s.test.ops) == 1 \
                        and isinstance(s.test.ops[0], (ast.In, ast.NotIn)) and pure(s.test.left):
                    table = table_of(s.test.comparators[0], first)
                    if table is not None:
                        key = s.test.left
                        ttxt = ast.dump(s.test.comparators[0])
                        ktxt = ast.dump(key)
                        pos = isinstance(s.test.ops[0], ast.In)
                        hit, miss = (s.body, s.orelse) if pos else (s.orelse, s.body)

                        def is_lookup(n, ttxt=ttxt, ktxt=ktxt):
                            return isinstance(n, ast.Subscript) and isinstance(n.ctx, ast.Load) and ast.dump(n.value) == ttxt \
                                and ast.dump(n.slice) == ktxt

                        def make_body(k, v, hit=hit):
                            return [Sub(is_lookup, v).visit(h) for h in copy.deepcopy(hit)]
                        key_stored = any(isinstance(x, ast.Name) and isinstance(x.ctx, ast.Store) and x.id in
                                         {y.id for y in ast.walk(key) if isinstance(y, ast.Name)} for x in _walk_no_nested(list(hit)))
                        if hit and not key_stored and (pos or s.orelse):
                            new = chain(key, table, make_body, list(miss), s)
                            for n2 in new:
                                ast.fix_missing_locations(n2)
                            out.extend(new)
                            exp.stats['dispatch'] = exp.stats.get('dispatch', 0) + 1
                            i += 1
                            changed = True
                            continue
                out.append(s)
                i += 1
            return out, changed

        cur = {'m': None}
        for mname, m in self.modules.items():
            cur['m'] = mname
            for fdef in [n for n in ast.walk(m.tree) if isinstance(n, ast.FunctionDef)]:
                fdef.body, _ = rewrite(fdef.body, _params(fdef)[:1])

    # ------------------------------------------------------------------ local aliases of attribute chains
    def _store_closure(self):
        """method/function name -> set of attribute names it may store (directly or through the calls it makes, by name)."""
        direct, calls = {}, {}
        for m in self.modules.values():
            for fdef in [n for n in ast.walk(m.tree) if isinstance(n, ast.FunctionDef)]:
                d = direct.setdefault(fdef.name, set())
                c = calls.setdefault(fdef.name, set())
                for x in _walk_no_nested(fdef.body):
                    if isinstance(x, ast.Attribute) and isinstance(x.ctx, (ast.Store, ast.Del)):
                        d.add(x.attr)
                    elif isinstance(x, ast.Call):
                        if isinstance(x.func, ast.Attribute):
                            if x.func.attr == '__init__' and isinstance(x.func.value, ast.Name):
                                c.add(x.func.value.id + '.__init__')
                            else:
                                c.add(x.func.attr)
                        elif isinstance(x.func, ast.Name):
                            c.add(x.func.id)
                            if x.func.id == 'setattr':
                                d.add('*')
        # calling a class runs its own __init__ (and what that one calls); a bare `.__init__` of an unknown receiver
        # stands for all of them
        every_init = set()
        for (mn, cn), cdef in self.classes.items():
            key = cn + '.__init__'
            d = direct.setdefault(key, set())
            c = calls.setdefault(key, set())
            for k in [(mn, cn)] + list(self._ancestors((mn, cn))):
                for st in self.classes.get(k, ast.ClassDef(body=[])).body if k in self.classes else []:
                    if isinstance(st, ast.FunctionDef) and st.name == '__init__':
                        for x in _walk_no_nested(st.body):
                            if isinstance(x, ast.Attribute) and isinstance(x.ctx, (ast.Store, ast.Del)):
                                d.add(x.attr)
                            elif isinstance(x, ast.Call):
                                if isinstance(x.func, ast.Attribute):
                                    if x.func.attr == '__init__' and isinstance(x.func.value, ast.Name):
                                        c.add(x.func.value.id + '.__init__')
                                    else:
                                        c.add(x.func.attr)
                                elif isinstance(x.func, ast.Name):
                                    c.add(x.func.id)
            calls.setdefault(cn, set()).add(key)
            every_init.add(key)
        direct['__init__'] = set()
        calls['__init__'] = set(every_init)
        changed = True
        while changed:
            changed = False
            for name, cs in calls.items():
                cur = direct.setdefault(name, set())
                for k in cs:
                    extra = direct.get(k, set()) - cur
                    if extra:
                        cur |= extra
                        changed = True
        return direct

    def propagate_attr_aliases(self):
        """`x = self.a.b` (x bound once, never through a nested scope) followed by uses of x with nothing in between that
        can rebind .a / .b: the uses are written as self.a.b again, the alias disappears."""
        from .cfg import CFG
        stores = self._store_closure()
        for m in self.modules.values():
            for fdef in [n for n in ast.walk(m.tree) if isinstance(n, ast.FunctionDef)]:
                if any(isinstance(x, (ast.Global, ast.Nonlocal)) for x in _walk_no_nested(fdef.body)):
                    continue
                bound = {}
                for x in _walk_no_nested(fdef.body):
                    if isinstance(x, ast.Name) and isinstance(x.ctx, (ast.Store, ast.Del)):
                        bound[x.id] = bound.get(x.id, 0) + 1
                params = set(_params(fdef)) | {a.arg for a in fdef.args.kwonlyargs}
                nested_reads = {x.id for sc in ast.walk(fdef) if sc is not fdef and isinstance(sc, (ast.FunctionDef, ast.Lambda))
                                for x in ast.walk(sc) if isinstance(x, ast.Name)}
                cands = []
                for st in _walk_no_nested(fdef.body):
                    if isinstance(st, ast.Assign) and len(st.targets) == 1 and isinstance(st.targets[0], ast.Name) \
                            and self._pure_expr(st.value):
                        nm = st.targets[0].id
                        attrs = [x.attr for x in ast.walk(st.value) if isinstance(x, ast.Attribute)]
                        names = {x.id for x in ast.walk(st.value) if isinstance(x, ast.Name)}
                        if not attrs and not isinstance(st.value, (ast.Constant, ast.IfExp, ast.Compare, ast.BoolOp, ast.UnaryOp)):
                            continue
                        if bound.get(nm) == 1 and nm not in params and nm not in nested_reads and nm not in names \
                                and all(bound.get(r, 0) <= 1 for r in names) and sum(1 for _ in ast.walk(st.value)) <= 40:
                            cands.append((st, nm, attrs, names))
                if not cands:
                    continue
                try:
                    cfg = CFG(fdef)
                except Exception:
                    continue
                for st, nm, attrs, vnames in cands:
                    dnodes = [n for n in cfg.nodes if n.ast is st]
                    if len(dnodes) != 1:
                        continue
                    dn = dnodes[0]
                    uses = [n for n in cfg.nodes if n.ast is not None and n is not dn and any(
                        isinstance(x, ast.Name) and x.id == nm and isinstance(x.ctx, ast.Load) for x in self._own(n))]
                    if not uses:
                        continue
                    fwd = cfg.reach([t for (t, lab) in cfg.succ[dn]])
                    # every use must be reached only through the definition
                    if any(u not in fwd for u in uses) or not all(cfg.dominates(dn, u) for u in uses):
                        continue
                    # nodes lying on a path from the definition to a use
                    back = set()
                    stack = list(uses)
                    while stack:
                        n = stack.pop()
                        if n in back:
                            continue
                        back.add(n)
                        for (p, lab) in cfg.pred[n]:
                            if p is not dn:
                                stack.append(p)
                    between = fwd & back
                    killed = False
                    for n in between:
                        if n.kind == 'for' and any(isinstance(x, ast.Name) and x.id in vnames for x in ast.walk(n.stmt.target)):
                            killed = True
                        for x in self._own(n):
                            if isinstance(x, ast.Name) and isinstance(x.ctx, (ast.Store, ast.Del)) and x.id in vnames:
                                killed = True
                            if isinstance(x, ast.Attribute) and isinstance(x.ctx, (ast.Store, ast.Del)) and x.attr in attrs:
                                killed = True
                            elif isinstance(x, ast.Call):
                                cn = x.func.attr if isinstance(x.func, ast.Attribute) else x.func.id if isinstance(x.func, ast.Name) else None
                                if cn is not None:
                                    st_attrs = stores.get(cn, set())
                                    if '*' in st_attrs or (st_attrs & set(attrs)):
                                        killed = True
                        if killed:
                            break
                    if killed:
                        continue
                    chain = st.value

                    class Rep(ast.NodeTransformer):
                        def visit_Name(self, node):
                            if node.id == nm and isinstance(node.ctx, ast.Load):
                                return ast.copy_location(copy.deepcopy(chain), node)
                            return node

                        def visit_FunctionDef(self, node):
                            return node

                        def visit_Lambda(self, node):
                            return node
                    fdef.body = [Rep().visit(b) for b in fdef.body]
                    self._remove_stmt(fdef, st)
                    self.stats['aliases'] = self.stats.get('aliases', 0) + 1

    # ------------------------------------------------------------------ scalar replacement of local aggregates
    def _namedtuples(self):
        """class name -> field list, for module-level `X = namedtuple('X', ...)` / `class X(NamedTuple): a: T ...`."""
        out = {}
        for m in self.modules.values():
            for st in self._toplevel(m.tree.body):
                if isinstance(st, ast.Assign) and len(st.targets) == 1 and isinstance(st.targets[0], ast.Name) \
                        and isinstance(st.value, ast.Call) and len(st.value.args) >= 2:
                    fn = st.value.func
                    nm = fn.attr if isinstance(fn, ast.Attribute) else fn.id if isinstance(fn, ast.Name) else ''
                    if nm == 'namedtuple':
                        spec = st.value.args[1]
                        fields = None
                        if isinstance(spec, ast.Constant) and isinstance(spec.value, str):
                            fields = spec.value.replace(',', ' ').split()
                        elif isinstance(spec, (ast.List, ast.Tuple)) and all(isinstance(e, ast.Constant) for e in spec.elts):
                            fields = [e.value for e in spec.elts]
                        if fields and not st.value.keywords:
                            out[st.targets[0].id] = fields
                elif isinstance(st, ast.ClassDef) and any(
                        (isinstance(b, ast.Name) and b.id == 'NamedTuple') or (isinstance(b, ast.Attribute) and b.attr == 'NamedTuple')
                        for b in st.bases):
                    fields = [x.target.id for x in st.body if isinstance(x, ast.AnnAssign) and isinstance(x.target, ast.Name)
                              and x.value is None]
                    if fields and not any(isinstance(x, ast.FunctionDef) for x in st.body):
                        out[st.name] = fields
        return out

    def const_tables(self):
        """name -> list of row tuples (ast nodes), for module-/class-level names bound once to a tuple/list display of
        tuples whose elements are constants, names or attribute chains, and never written through."""
        binds = {}
        bodies = [cdef.body for cdef in self.classes.values()] + [list(self._toplevel(m.tree.body)) for m in self.modules.values()]
        for body in bodies:
            for st in body:
                if isinstance(st, ast.Assign):
                    for t in st.targets:
                        for x in ast.walk(t):
                            if isinstance(x, ast.Name):
                                binds.setdefault(x.id, []).append(st.value if (len(st.targets) == 1 and isinstance(t, ast.Name)) else None)
                elif isinstance(st, (ast.AugAssign, ast.AnnAssign)) and isinstance(st.target, ast.Name):
                    binds.setdefault(st.target.id, []).append(None)
        touched = set()
        for m in self.modules.values():
            for n in ast.walk(m.tree):
                if isinstance(n, ast.Attribute) and isinstance(n.ctx, (ast.Store, ast.Del)):
                    touched.add(n.attr)
                if isinstance(n, ast.Subscript) and isinstance(n.ctx, (ast.Store, ast.Del)):
                    b = n.value
                    touched.add(b.attr if isinstance(b, ast.Attribute) else b.id if isinstance(b, ast.Name) else '')
                if isinstance(n, ast.Call) and isinstance(n.func, ast.Attribute) and n.func.attr in (
                        'append', 'extend', 'insert', 'pop', 'remove', 'clear', 'sort', 'reverse'):
                    b = n.func.value
                    touched.add(b.attr if isinstance(b, ast.Attribute) else b.id if isinstance(b, ast.Name) else '')
        out = {}

        def simple(e):
            return isinstance(e, (ast.Constant, ast.Name)) or (isinstance(e, ast.Attribute) and self._pure_chain(e))
        for k, v in binds.items():
            if len(v) != 1 or v[0] is None or k in touched or k.startswith('yaml_'):
                continue
            t = v[0]
            if isinstance(t, (ast.Tuple, ast.List)) and 1 <= len(t.elts) <= 16 and all(
                    isinstance(r, (ast.Tuple, ast.List)) and r.elts and all(simple(e) for e in r.elts) for r in t.elts) \
                    and len({len(r.elts) for r in t.elts}) == 1:
                out[k] = [list(r.elts) for r in t.elts]
        return out

    def unroll_table_loops(self):
        """`for a, b in TABLE: if C(a): S(a, b); break` [else: E]  ->  if C(a1): S(a1, b1) elif C(a2): ... else: E
        (TABLE a constant table of the package; rows substituted for the loop variables)."""
        tables = self.const_tables()
        exp = self

        def simple(e):
            if isinstance(e, (ast.Constant, ast.Name)) or (isinstance(e, ast.Attribute) and exp._pure_chain(e)):
                return True
            # cells computed without effects: truth value / kind / length of a name, and boolean combinations of those
            if isinstance(e, ast.Call) and isinstance(e.func, ast.Name) and e.func.id in ('bool', 'isinstance', 'len') \
                    and not e.keywords and e.args and all(simple(a) or (isinstance(a, ast.Tuple) and all(simple(x) for x in a.elts))
                                                         for a in e.args):
                return True
            if isinstance(e, ast.BoolOp):
                return all(simple(v) for v in e.values)
            if isinstance(e, ast.UnaryOp) and isinstance(e.op, ast.Not):
                return simple(e.operand)
            return False

        cur = {'fdef': None}
        local = {}

        def stores_of(st):
            return {x.id for x in ast.walk(st) if isinstance(x, ast.Name) and isinstance(x.ctx, (ast.Store, ast.Del))}

        def rows_of(e):
            if isinstance(e, ast.Name) and e.id in local:
                return local[e.id][0]
            if isinstance(e, ast.Name) and e.id in tables:
                return tables[e.id]
            if isinstance(e, ast.Attribute) and e.attr in tables and isinstance(e.value, ast.Name):
                return tables[e.attr]
            if isinstance(e, (ast.Tuple, ast.List)) and 1 <= len(e.elts) <= 16 and all(
                    isinstance(r, (ast.Tuple, ast.List)) and r.elts and all(simple(x) for x in r.elts) for r in e.elts) \
                    and len({len(r.elts) for r in e.elts}) == 1:
                return [list(r.elts) for r in e.elts]
            return None

        def rewrite(stmts):
            out = []
            for s in stmts:
                if isinstance(s, (ast.While, ast.For)) and local:
                    # a table built before a loop is evaluated once: its cells must not change inside the loop
                    lst = stores_of(s)
                    for nm in [k for k, (rws, cells) in local.items() if lst & cells]:
                        del local[nm]
                for sub in ('body', 'orelse', 'finalbody'):
                    if isinstance(getattr(s, sub, None), list) and not isinstance(s, (ast.FunctionDef, ast.ClassDef)):
                        setattr(s, sub, rewrite(getattr(s, sub)))
                for h in getattr(s, 'handlers', []) or []:
                    h.body = rewrite(h.body)
                # a local bound once to a literal table, in this statement list, is a table until one of its cells' names is rebound
                if not isinstance(s, ast.For) or not (isinstance(s.iter, ast.Name) and s.iter.id in local):
                    st_names = stores_of(s)
                    for nm in [k for k, (rws, cells) in local.items() if st_names & cells]:
                        del local[nm]
                if isinstance(s, ast.Assign) and len(s.targets) == 1 and isinstance(s.targets[0], ast.Name) and cur['fdef'] is not None:
                    nm = s.targets[0].id
                    nstores = sum(1 for x in ast.walk(cur['fdef']) if isinstance(x, ast.Name) and x.id == nm
                                  and isinstance(x.ctx, (ast.Store, ast.Del)))
                    rws = rows_of(s.value) if isinstance(s.value, (ast.Tuple, ast.List)) else None
                    if rws is not None and nstores == 1 and nm not in {a.arg for a in cur['fdef'].args.args}:
                        cells = {x.id for row in rws for el in row for x in ast.walk(el) if isinstance(x, ast.Name)}
                        local[nm] = (rws, cells | {nm})
                rows = rows_of(s.iter) if isinstance(s, ast.For) else None
                flat = False
                if rows is None and isinstance(s, ast.For) and isinstance(s.target, ast.Name) \
                        and isinstance(s.iter, (ast.Tuple, ast.List)) and 1 <= len(s.iter.elts) <= 16 \
                        and all(isinstance(x, ast.Name) or (isinstance(x, ast.Attribute) and exp._pure_chain(x)) for x in s.iter.elts):
                    # `for k in (A, B, C): S(k)` over an inline display of names: one row per element
                    rows = [[x] for x in s.iter.elts]
                    flat = True
                if rows is None:
                    out.append(s)
                    continue
                if flat:
                    tnames = [s.target.id]
                else:
                    tnames = [x.id for x in s.target.elts] if isinstance(s.target, ast.Tuple) and all(
                        isinstance(x, ast.Name) for x in s.target.elts) else None
                if tnames is None or len(tnames) != len(rows[0]):
                    out.append(s)
                    continue
                body = s.body
                shape = len(body) == 1 and isinstance(body[0], ast.If) and not body[0].orelse and body[0].body \
                    and isinstance(body[0].body[-1], ast.Break) \
                    and not any(isinstance(x, (ast.Break, ast.Continue)) for st in body[0].body[:-1] for x in ast.walk(st))
                stored = {x.id for st in body for x in ast.walk(st) if isinstance(x, ast.Name) and isinstance(x.ctx, ast.Store)}
                row_names = {x.id for row in rows for el in row for x in ast.walk(el) if isinstance(x, ast.Name)}
                if stored & (set(tnames) | row_names):
                    out.append(s)
                    continue
                # loop variables that are read after the loop keep the values of the row the loop stopped at
                inside = {id(x) for x in ast.walk(s)}
                live_after = [t for t in tnames if cur['fdef'] is None or any(
                    isinstance(x, ast.Name) and x.id == t and isinstance(x.ctx, ast.Load) and id(x) not in inside
                    for x in ast.walk(cur['fdef']))]

                def keep_row(m_):
                    return [ast.copy_location(ast.Assign(targets=[ast.Name(id=t, ctx=ast.Store())], value=copy.deepcopy(m_[t])), s)
                            for t in live_after]
                if not shape:
                    # no break / continue of this loop at all: the body once per row, then the else clause
                    jumps = False
                    def scan(stmts):
                        nonlocal jumps
                        for st in stmts:
                            if isinstance(st, (ast.Break, ast.Continue)):
                                jumps = True
                            elif not isinstance(st, (ast.For, ast.While, ast.FunctionDef, ast.ClassDef)):
                                for sub in ('body', 'orelse', 'finalbody'):
                                    if isinstance(getattr(st, sub, None), list):
                                        scan(getattr(st, sub))
                                for h in getattr(st, 'handlers', []) or []:
                                    scan(h.body)
                    scan(body)
                    if jumps:
                        out.append(s)
                        continue
                    for row in rows:
                        m = dict(zip(tnames, row))

                        class Sub2(ast.NodeTransformer):
                            def visit_Name(self, node):
                                if node.id in m and isinstance(node.ctx, ast.Load):
                                    return ast.copy_location(copy.deepcopy(m[node.id]), node)
                                return node
                        for x in body:
                            n2 = Sub2().visit(copy.deepcopy(x))
                            ast.fix_missing_locations(n2)
                            out.append(n2)
                    for n2 in keep_row(dict(zip(tnames, rows[-1]))):
                        ast.fix_missing_locations(n2)
                        out.append(n2)
                    out.extend(s.orelse)
                    exp.stats['table_loops'] = exp.stats.get('table_loops', 0) + 1
                    continue
                chain_else = list(s.orelse)
                for row in reversed(rows):
                    m = dict(zip(tnames, row))

                    class Sub(ast.NodeTransformer):
                        def visit_Name(self, node):
                            if node.id in m and isinstance(node.ctx, ast.Load):
                                return ast.copy_location(copy.deepcopy(m[node.id]), node)
                            return node
                    test = Sub().visit(copy.deepcopy(body[0].test))
                    blk = keep_row(m) + [Sub().visit(copy.deepcopy(x)) for x in body[0].body[:-1]] or [ast.Pass()]
                    node = ast.copy_location(ast.If(test=test, body=blk, orelse=chain_else), s)
                    chain_else = [node]
                for n2 in chain_else:
                    ast.fix_missing_locations(n2)
                out.extend(chain_else)
                exp.stats['table_loops'] = exp.stats.get('table_loops', 0) + 1
            return out
        for m in self.modules.values():
            for fdef in [n for n in ast.walk(m.tree) if isinstance(n, ast.FunctionDef)]:
                cur['fdef'] = fdef
                local.clear()
                fdef.body = rewrite(fdef.body)
                local.clear()

    def drop_dead_nested_defs(self):
        for m in self.modules.values():
            for fdef in [n for n in ast.walk(m.tree) if isinstance(n, ast.FunctionDef)]:
                nested = [st for st in fdef.body if isinstance(st, ast.FunctionDef)]
                for nd in nested:
                    used = any(isinstance(x, ast.Name) and x.id == nd.name for st in fdef.body if st is not nd for x in ast.walk(st))
                    if not used:
                        fdef.body = [st for st in fdef.body if st is not nd] or [ast.copy_location(ast.Pass(), fdef)]

    def _record_classes(self):
        """class name -> field list, for classes without bases whose __init__ only stores its parameters in attributes of the
        same names and which define nothing else but class / static methods (plain records)."""
        out = {}
        for (mn, cn), cdef in self.classes.items():
            if cdef.bases or cdef.keywords or self.subclasses.get((mn, cn)):
                continue
            init = None
            ok = True
            for st in cdef.body:
                if isinstance(st, ast.FunctionDef):
                    if st.name == '__init__':
                        init = st
                    elif not any(isinstance(d, ast.Name) and d.id in ('classmethod', 'staticmethod') for d in st.decorator_list):
                        ok = False
                elif isinstance(st, ast.Expr) and isinstance(st.value, ast.Constant):
                    continue
                elif isinstance(st, ast.Assign) and len(st.targets) == 1 and isinstance(st.targets[0], ast.Name) \
                        and st.targets[0].id == '__slots__':
                    continue
                else:
                    ok = False
            if not ok or init is None or init.args.vararg or init.args.kwarg or init.args.kwonlyargs or init.args.defaults:
                continue
            ps = _params(init)
            fields = []
            for st in _strip_doc(init.body):
                if isinstance(st, ast.Assign) and len(st.targets) == 1 and isinstance(st.targets[0], ast.Attribute) \
                        and isinstance(st.targets[0].value, ast.Name) and st.targets[0].value.id == ps[0] \
                        and isinstance(st.value, ast.Name) and st.value.id == st.targets[0].attr and st.value.id in ps[1:]:
                    fields.append(st.value.id)
                else:
                    ok = False
            if ok and sorted(fields) == sorted(ps[1:]) and self._is_new_class(mn, cn):
                out[cn] = ps[1:]
        return out

    def _is_new_class(self, mn, cn):
        if self.baseline is None:
            return False
        return '%s.%s' % (mn, cn) not in set(self.baseline.get('classes', []))

    def replace_records(self):
        """a local that only ever holds fresh instances of a plain record class (or namedtuple) and is only read through its
        fields: every construction becomes assignments to one local per field, every `r.f` reads that local."""
        recs = dict(self._namedtuples())
        recs.update(self._record_classes())
        if not recs:
            return
        for m in self.modules.values():
            for fdef in [n for n in ast.walk(m.tree) if isinstance(n, ast.FunctionDef)]:
                defs = {}
                for st in _walk_no_nested(fdef.body):
                    if isinstance(st, ast.Assign) and len(st.targets) == 1 and isinstance(st.targets[0], ast.Name) \
                            and isinstance(st.value, ast.Call) and isinstance(st.value.func, ast.Name) and st.value.func.id in recs:
                        defs.setdefault(st.targets[0].id, []).append(st)
                if not defs:
                    continue
                params = set(_params(fdef))
                all_names = _all_names(fdef.body) | params
                for r, dsts in defs.items():
                    cls = dsts[0].value.func.id
                    if r in params or any(d.value.func.id != cls for d in dsts):
                        continue
                    fields = recs[cls]
                    stores = [x for x in _walk_no_nested(fdef.body) if isinstance(x, ast.Name) and x.id == r
                              and isinstance(x.ctx, (ast.Store, ast.Del))]
                    if len(stores) != len(dsts):
                        continue
                    parents = {}
                    for p_ in _walk_no_nested(fdef.body):
                        for c_ in ast.iter_child_nodes(p_):
                            parents[id(c_)] = p_
                    uses = [x for x in _walk_no_nested(fdef.body) if isinstance(x, ast.Name) and x.id == r and isinstance(x.ctx, ast.Load)]
                    if not uses or any(isinstance(sc, (ast.FunctionDef, ast.Lambda)) and sc is not fdef and any(
                            isinstance(y, ast.Name) and y.id == r for y in ast.walk(sc)) for sc in ast.walk(fdef)):
                        continue
                    plan = {}
                    ok = True
                    for u in uses:
                        par = parents.get(id(u))
                        if isinstance(par, ast.Attribute) and par.value is u and isinstance(par.ctx, ast.Load) and par.attr in fields:
                            plan[id(par)] = par.attr
                        else:
                            ok = False
                            break
                    if not ok:
                        continue
                    bind = {}
                    for d in dsts:
                        call = d.value
                        by = dict(zip(fields, call.args))
                        for k in call.keywords:
                            if k.arg is None or k.arg in by or k.arg not in fields:
                                by = None
                                break
                            by[k.arg] = k.value
                        if not by or set(by) != set(fields) or any(isinstance(a, ast.Starred) for a in call.args):
                            ok = False
                            break
                        bind[id(d)] = by
                    if not ok:
                        continue
                    tmp = {}
                    for fl in fields:
                        tmp[fl] = self._fresh('%s_%s' % (r, fl), all_names)
                        all_names.add(tmp[fl])

                    def rewrite(stmts):
                        out = []
                        for s2 in stmts:
                            if id(s2) in bind:
                                by = bind[id(s2)]
                                order = [f for f in fields if f in by]
                                # evaluation order of the call: positional arguments first, then keywords as written
                                call = s2.value
                                order = fields[:len(call.args)] + [k.arg for k in call.keywords]
                                for fl in order:
                                    out.append(ast.copy_location(ast.Assign(targets=[ast.Name(id=tmp[fl], ctx=ast.Store())], value=by[fl],
                                                                            lineno=s2.lineno, col_offset=s2.col_offset), s2))
                                continue
                            for sub in ('body', 'orelse', 'finalbody'):
                                if isinstance(getattr(s2, sub, None), list) and not isinstance(s2, (ast.FunctionDef, ast.ClassDef)):
                                    setattr(s2, sub, rewrite(getattr(s2, sub)))
                            for h in getattr(s2, 'handlers', []) or []:
                                h.body = rewrite(h.body)
                            out.append(s2)
                        return out
                    fdef.body = rewrite(fdef.body)

                    class Rep(ast.NodeTransformer):
                        def visit_Attribute(self, node):
                            if id(node) in plan:
                                return ast.copy_location(ast.Name(id=tmp[plan[id(node)]], ctx=ast.Load()), node)
                            return self.generic_visit(node)
                    fdef.body = [Rep().visit(b) for b in fdef.body]
                    self.stats['records'] = self.stats.get('records', 0) + 1

    def replace_local_aggregates(self):
        """`r = NT(a=x, b=y)` / `r = (x, y)` bound once, used only as r.a / r[0] / `p, q = r`: the fields are read directly."""
        from .cfg import CFG
        nts = self._namedtuples()
        for m in self.modules.values():
            for fdef in [n for n in ast.walk(m.tree) if isinstance(n, ast.FunctionDef)]:
                bound = {}
                for x in _walk_no_nested(fdef.body):
                    if isinstance(x, ast.Name) and isinstance(x.ctx, (ast.Store, ast.Del)):
                        bound[x.id] = bound.get(x.id, 0) + 1
                params = set(_params(fdef))
                nested_reads = {x.id for sc in ast.walk(fdef) if sc is not fdef and isinstance(sc, (ast.FunctionDef, ast.Lambda))
                                for x in ast.walk(sc) if isinstance(x, ast.Name)}
                for st in list(_walk_no_nested(fdef.body)):
                    if not (isinstance(st, ast.Assign) and len(st.targets) == 1 and isinstance(st.targets[0], ast.Name)):
                        continue
                    r = st.targets[0].id
                    if bound.get(r) != 1 or r in params or r in nested_reads:
                        continue
                    v = st.value
                    fields = None
                    if isinstance(v, ast.Tuple) and len(v.elts) >= 2:
                        elems = list(v.elts)
                        fields = [None] * len(elems)
                    elif isinstance(v, ast.Call) and isinstance(v.func, ast.Name) and v.func.id in nts:
                        names = nts[v.func.id]
                        byname = dict(zip(names, v.args))
                        for k in v.keywords:
                            if k.arg is None or k.arg in byname or k.arg not in names:
                                byname = None
                                break
                            byname[k.arg] = k.value
                        if not byname or set(byname) != set(names):
                            continue
                        fields = names
                        elems = [byname[n] for n in names]
                    else:
                        continue
                    if not all(isinstance(e, (ast.Name, ast.Constant)) or (isinstance(e, ast.Attribute) and self._pure_chain(e)) for e in elems):
                        continue
                    if any(isinstance(e, ast.Name) and e.id == r for e in elems):
                        continue
                    # every use of r
                    uses = [x for x in _walk_no_nested(fdef.body) if isinstance(x, ast.Name) and x.id == r and isinstance(x.ctx, ast.Load)]
                    if not uses:
                        continue
                    parents = {}
                    for p_ in _walk_no_nested(fdef.body):
                        for c_ in ast.iter_child_nodes(p_):
                            parents[id(c_)] = p_
                    plan = []
                    ok = True
                    for u in uses:
                        par = parents.get(id(u))
                        if isinstance(par, ast.Attribute) and par.value is u and isinstance(par.ctx, ast.Load) and fields[0] is not None \
                                and par.attr in fields:
                            plan.append((par, elems[fields.index(par.attr)]))
                        elif isinstance(par, ast.Subscript) and par.value is u and isinstance(par.ctx, ast.Load) \
                                and isinstance(par.slice, ast.Constant) and isinstance(par.slice.value, int) \
                                and 0 <= par.slice.value < len(elems):
                            plan.append((par, elems[par.slice.value]))
                        elif isinstance(par, ast.Assign) and par.value is u and len(par.targets) == 1 \
                                and isinstance(par.targets[0], ast.Tuple) and len(par.targets[0].elts) == len(elems):
                            plan.append((u, ast.Tuple(elts=[copy.deepcopy(e) for e in elems], ctx=ast.Load())))
                        else:
                            ok = False
                            break
                    if not ok:
                        continue
                    # the element names must keep their values from the definition to every use
                    try:
                        cfg = CFG(fdef)
                    except Exception:
                        continue
                    dn = [n for n in cfg.nodes if n.ast is st]
                    if len(dn) != 1:
                        continue
                    fwd = cfg.reach([t for (t, lab) in cfg.succ[dn[0]]])
                    enames = {e.id for e in elems if isinstance(e, ast.Name)}
                    eattrs = {a.attr for e in elems for a in ast.walk(e) if isinstance(a, ast.Attribute)}
                    clash = False
                    for n in fwd:
                        if n.ast is None:
                            continue
                        for x in self._own(n):
                            if isinstance(x, ast.Name) and isinstance(x.ctx, (ast.Store, ast.Del)) and x.id in enames:
                                clash = True
                            if isinstance(x, ast.Attribute) and isinstance(x.ctx, (ast.Store, ast.Del)) and x.attr in eattrs:
                                clash = True
                            if eattrs and isinstance(x, ast.Call):
                                clash = True
                        if n.kind == 'for' and any(isinstance(x, ast.Name) and x.id in enames for x in ast.walk(n.stmt.target)):
                            clash = True
                    if clash or dn[0] in fwd:
                        continue
                    targets = {id(a): b for a, b in plan}

                    class Rep(ast.NodeTransformer):
                        def visit(self, node):
                            if id(node) in targets:
                                return ast.copy_location(copy.deepcopy(targets[id(node)]), node)
                            if isinstance(node, (ast.FunctionDef, ast.Lambda)) and node is not fdef:
                                return node
                            return super().visit(node)
                    fdef.body = [Rep().visit(b) for b in fdef.body]
                    self._remove_stmt(fdef, st)
                    self.stats['aggregates'] = self.stats.get('aggregates', 0) + 1

    def _pure_expr(self, e):
        """an expression without calls, subscripts or other effects: constants, names, attribute chains and operators."""
        if isinstance(e, (ast.Constant, ast.Name)):
            return True
        if isinstance(e, ast.Attribute):
            return self._pure_chain(e)
        if isinstance(e, ast.BinOp):
            return self._pure_expr(e.left) and self._pure_expr(e.right) and isinstance(e.op, (ast.Add, ast.Sub, ast.Mult))
        if isinstance(e, ast.UnaryOp):
            return self._pure_expr(e.operand)
        if isinstance(e, ast.BoolOp):
            return all(self._pure_expr(v) for v in e.values)
        if isinstance(e, ast.Compare):
            return self._pure_expr(e.left) and all(self._pure_expr(c) for c in e.comparators) and all(
                isinstance(o, (ast.Is, ast.IsNot, ast.Eq, ast.NotEq, ast.Lt, ast.LtE, ast.Gt, ast.GtE)) for o in e.ops)
        if isinstance(e, ast.IfExp):
            return self._pure_expr(e.test) and self._pure_expr(e.body) and self._pure_expr(e.orelse)
        return False

    @staticmethod
    def _own(n):
        from .cfg import own_exprs
        try:
            return list(own_exprs(n))
        except Exception:
            return list(ast.walk(n.ast)) if n.ast is not None else []

    def _remove_stmt(self, fdef, st):
        def strip(stmts):
            out = []
            for s in stmts:
                if s is st:
                    continue
                for sub in ('body', 'orelse', 'finalbody'):
                    if isinstance(getattr(s, sub, None), list) and not isinstance(s, (ast.FunctionDef, ast.ClassDef)):
                        nb = strip(getattr(s, sub))
                        if sub == 'body' and not nb:
                            nb = [ast.copy_location(ast.Pass(), s)]
                        setattr(s, sub, nb)
                for h in getattr(s, 'handlers', []) or []:
                    h.body = strip(h.body) or [ast.copy_location(ast.Pass(), h)]
                out.append(s)
            return out
        fdef.body = strip(fdef.body) or [ast.copy_location(ast.Pass(), fdef)]

    def substitute_local_literals(self):
        for m in self.modules.values():
            for fdef in [n for n in ast.walk(m.tree) if isinstance(n, ast.FunctionDef)]:
                stores = {}
                for n in _walk_no_nested(fdef.body):
                    if isinstance(n, ast.Name) and isinstance(n.ctx, (ast.Store, ast.Del)):
                        stores[n.id] = stores.get(n.id, 0) + 1
                cands = {}
                for i, s in enumerate(fdef.body):
                    # only straight-line top-level assignments (they dominate everything after them)
                    if isinstance(s, ast.Assign) and len(s.targets) == 1 and isinstance(s.targets[0], ast.Name) \
                            and _is_literal(s.value) and stores.get(s.targets[0].id) == 1 \
                            and isinstance(s.value, (ast.Constant, ast.Tuple)) \
                            and (not isinstance(s.value, ast.Constant) or isinstance(s.value.value, (str, bytes))):
                        nm = s.targets[0].id
                        # not read before the assignment, not captured by a nested scope
                        before = any(isinstance(x, ast.Name) and x.id == nm for st in fdef.body[:i] for x in ast.walk(st))
                        nested = any(isinstance(x, ast.Name) and x.id == nm
                                     for sc in ast.walk(fdef) if sc is not fdef and isinstance(sc, (ast.FunctionDef, ast.Lambda))
                                     for x in ast.walk(sc))
                        if not before and not nested and nm not in _params(fdef):
                            cands[nm] = s.value
                if not cands:
                    continue
                exp = self

                class T(ast.NodeTransformer):
                    def visit_Name(self, node):
                        if isinstance(node.ctx, ast.Load) and node.id in cands:
                            exp.stats['local_literals'] += 1
                            return ast.copy_location(copy.deepcopy(cands[node.id]), node)
                        return node

                    def visit_FunctionDef(self, node):
                        return node

                    def visit_Lambda(self, node):
                        return node

                t = T()
                fdef.body = [t.visit(s) for s in fdef.body]

    # ------------------------------------------------------------------ with <private context manager>
    def _context_managers(self):
        """class name -> (fields, enter expression or None, exit body) for private classes that are plain context managers:
        __init__ stores its parameters, __enter__ returns self / a field / nothing, __exit__ ignores the exception and returns
        nothing (so it can never suppress it)."""
        out = {}
        for (mn, cn), cdef in self.classes.items():
            if cdef.bases or cdef.keywords or self.subclasses.get((mn, cn)) or not self._is_new_class(mn, cn):
                continue
            meths = {st.name: st for st in cdef.body if isinstance(st, ast.FunctionDef)}
            if set(meths) != {'__init__', '__enter__', '__exit__'}:
                continue
            if any(not (isinstance(st, ast.FunctionDef) or (isinstance(st, ast.Expr) and isinstance(st.value, ast.Constant)))
                   for st in cdef.body):
                continue
            init, enter, exit_ = meths['__init__'], meths['__enter__'], meths['__exit__']
            if any(f.args.vararg or f.args.kwarg or f.args.kwonlyargs or f.args.defaults or f.decorator_list
                   for f in (init, enter, exit_)):
                continue
            ps = _params(init)
            fields = []
            ok = True
            for st in _strip_doc(init.body):
                if isinstance(st, ast.Assign) and len(st.targets) == 1 and isinstance(st.targets[0], ast.Attribute) \
                        and isinstance(st.targets[0].value, ast.Name) and st.targets[0].value.id == ps[0] \
                        and isinstance(st.value, ast.Name) and st.value.id in ps[1:]:
                    fields.append((st.targets[0].attr, st.value.id))
                else:
                    ok = False
            if not ok or sorted(p_ for _, p_ in fields) != sorted(ps[1:]):
                continue
            eb = _strip_doc(enter.body)
            me = _params(enter)[0]
            enter_expr = None
            if len(eb) == 1 and isinstance(eb[0], ast.Return):
                enter_expr = eb[0].value
            elif not (len(eb) == 1 and isinstance(eb[0], ast.Pass)) and eb:
                continue
            xps = _params(exit_)
            if len(xps) != 4:
                continue
            xb = _strip_doc(exit_.body)
            bad = False
            for st in xb:
                for x in ast.walk(st):
                    if isinstance(x, ast.Return) and x.value is not None and not (isinstance(x.value, ast.Constant) and not x.value.value):
                        bad = True
                    if isinstance(x, ast.Return):
                        bad = bad or (x is not xb[-1])
                    if isinstance(x, ast.Name) and x.id in xps[1:]:
                        bad = True
                    if isinstance(x, (ast.Yield, ast.YieldFrom, ast.Await)):
                        bad = True
            if bad:
                continue
            out[cn] = (fields, ps, enter_expr, me, xb, xps[0])
        return out

    def rewrite_with_managers(self):
        """`with K(a, b) [as v]: B`  (K a private plain context manager, a and b names)  ->
               [v = <what __enter__ returns>]; try: B; finally: <body of __exit__>
        which is what the statement does when __exit__ cannot suppress the exception."""
        cms = self._context_managers()
        if not cms:
            return
        exp = self

        def field_subst(expr_or_stmts, selfname, fmap, self_repl=None):
            class T(ast.NodeTransformer):
                def visit_Attribute(self, node):
                    if isinstance(node.value, ast.Name) and node.value.id == selfname and node.attr in fmap \
                            and isinstance(node.ctx, ast.Load):
                        return ast.copy_location(copy.deepcopy(fmap[node.attr]), node)
                    self.generic_visit(node)
                    return node
            return T().visit(copy.deepcopy(expr_or_stmts))

        def uses_self(node, selfname):
            return any(isinstance(x, ast.Name) and x.id == selfname for x in ast.walk(node))

        def rewrite(stmts):
            out = []
            for s in stmts:
                for sub in ('body', 'orelse', 'finalbody'):
                    if isinstance(getattr(s, sub, None), list) and not isinstance(s, ast.ClassDef):
                        setattr(s, sub, rewrite(getattr(s, sub)))
                for h in getattr(s, 'handlers', []) or []:
                    h.body = rewrite(h.body)
                if not (isinstance(s, ast.With) and len(s.items) == 1):
                    out.append(s)
                    continue
                it = s.items[0]
                c = it.context_expr
                if not (isinstance(c, ast.Call) and isinstance(c.func, ast.Name) and c.func.id in cms and not c.keywords
                        and all(isinstance(a, (ast.Name, ast.Constant)) for a in c.args)):
                    out.append(s)
                    continue
                fields, ps, enter_expr, me, xb, xme = cms[c.func.id]
                if len(c.args) != len(ps) - 1 or (it.optional_vars is not None and not isinstance(it.optional_vars, ast.Name)):
                    out.append(s)
                    continue
                by_param = dict(zip(ps[1:], c.args))
                fmap = {attr: by_param[p_] for attr, p_ in fields}
                # the manager's arguments must not be rebound inside the block (the fields keep the values of entry)
                stored = {x.id for st in s.body for x in ast.walk(st) if isinstance(x, ast.Name) and isinstance(x.ctx, (ast.Store, ast.Del))}
                if stored & {a.id for a in c.args if isinstance(a, ast.Name)}:
                    out.append(s)
                    continue
                pre = []
                if it.optional_vars is not None:
                    if enter_expr is None:
                        val = ast.Constant(value=None)
                    else:
                        val = field_subst(enter_expr, me, fmap)
                        if uses_self(val, me):
                            out.append(s)
                            continue
                    pre.append(ast.copy_location(ast.Assign(targets=[ast.Name(id=it.optional_vars.id, ctx=ast.Store())], value=val), s))
                fin = [field_subst(st, xme, fmap) for st in xb if not isinstance(st, ast.Return)] or [ast.Pass()]
                if any(uses_self(st, xme) for st in fin):
                    out.append(s)
                    continue
                tr = ast.copy_location(ast.Try(body=s.body, handlers=[], orelse=[], finalbody=fin), s)
                for n2 in pre + [tr]:
                    ast.fix_missing_locations(n2)
                    out.append(n2)
                exp.stats['with_managers'] = exp.stats.get('with_managers', 0) + 1
            return out
        for m in self.modules.values():
            for fdef in [n for n in ast.walk(m.tree) if isinstance(n, ast.FunctionDef)]:
                fdef.body = rewrite(fdef.body)

    # ------------------------------------------------------------------ driver
    def run(self):
        self.collect()
        self.rewrite_with_managers()
        self.inline_module_level_calls()
        self.substitute_constants()
        self.substitute_charsets()
        self.expand_dispatch()
        self.unroll_table_loops()
        for rnd in range(MAX_ROUNDS):
            changed = False
            for mname, m in self.modules.items():
                for st in list(self._toplevel(m.tree.body)):
                    if isinstance(st, ast.FunctionDef):
                        changed |= self.expand_function(mname, None, st)
                    elif isinstance(st, ast.ClassDef):
                        for s2 in st.body:
                            if isinstance(s2, ast.FunctionDef):
                                changed |= self.expand_function(mname, st.name, s2)
            if not changed:
                break
        self.drop_dead_nested_defs()
        self.replace_records()
        self.replace_local_aggregates()
        for _ in range(4):
            before = self.stats.get('aliases', 0)
            self.propagate_attr_aliases()
            if self.stats.get('aliases', 0) == before:
                break
        self.substitute_local_literals()
        for m in self.modules.values():
            ast.fix_missing_locations(m.tree)
        self.stats['inlined_helpers'] = sorted(self.stats['inlined_helpers'])
        return self.stats


def expand_modules(modules):
    if os.environ.get('SA_NO_EXPAND'):
        return {'disabled': True}
    # parent links would make every deepcopy drag the whole module along
    for m in modules.values():
        for n in ast.walk(m.tree):
            if hasattr(n, '_parent'):
                del n._parent
    return Expander(modules, load_baseline()).run()


def resubstitute_constants(modules):
    """after canonicalisation: named constants exposed by it, and local names that canonicalisation folded to literals
    (`name = 'check_' + kind` after the helper with the parameter `kind` was inlined).  Returns True when a local was
    substituted, so that the caller canonicalises once more (getattr(x, <literal>) -> x.<literal>)."""
    e = Expander(modules, load_baseline())
    e.collect()
    e.substitute_constants()
    e.substitute_charsets()
    before = e.stats.get('local_literals', 0)
    e.substitute_local_literals()
    for m in modules.values():
        ast.fix_missing_locations(m.tree)
    return e.stats.get('local_literals', 0) > before


def write_baseline(repo):
    """record the function/class inventory of the tree the rules were confirmed on (run by hand, committed)."""
    funcs = sorted(f.qualname for f in repo.all_functions())
    classes = sorted(repo.classes)
    with open(BASELINE_FILE, 'w', encoding='utf-8') as f:
        json.dump({'functions': funcs, 'classes': classes}, f, indent=0)
        f.write('\n')
    return len(funcs), len(classes)
