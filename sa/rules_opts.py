"""C15: dump output honours the formatting options (plumbing / normalisation / funnel clauses)."""
import ast

from . import astutil as A
from . import charworld as CW
from . import rules_emit as RE
from .cfg import CFG, own_exprs
from .srcmodel import AnalysisError, ClassInfo, FuncInfo, norm, walk_function

DUMP_API = ['emit', 'serialize_all', 'dump_all']
WRAPPERS = {'serialize': 'serialize_all', 'dump': 'dump_all', 'safe_dump_all': 'dump_all', 'safe_dump': 'dump_all'}


def r_option_plumbing(ctx, repo):
    rule = ctx.rule('R-OPTION-PLUMBING', 'every formatting option is forwarded keyword-for-keyword from the API functions through the '
                                         'dumper classes to the component initialisers, accepted there, and stored under its own name')
    init = repo.modules['__init__']
    # (1) API function -> Dumper(...)
    for name in DUMP_API:
        f = init.functions.get(name)
        if f is None:
            raise AnalysisError('yaml.%s has vanished' % name)
        calls = [c for c in A.func_calls(f.node) if isinstance(c.func, ast.Name) and c.func.id == 'Dumper']
        if len(calls) != 1:
            raise AnalysisError('yaml.%s: Dumper instantiation not found' % name)
        c = calls[0]
        opts = [p for p in f.params if p not in ('events', 'nodes', 'documents', 'stream', 'Dumper')]
        passed = {k.arg: k.value for k in c.keywords}
        for o in opts:
            v = passed.get(o)
            if v is None:
                rule.fail('%s|dropped|%s' % (f.qualname, o), f.module.rel, c.lineno, f.qualname, norm(c)[:80],
                          'yaml.%s accepts the option %s but does not pass it to the dumper' % (name, o))
            elif not (isinstance(v, ast.Name) and v.id == o):
                rule.fail('%s|crossed|%s' % (f.qualname, o), f.module.rel, c.lineno, f.qualname, '%s=%s' % (o, norm(v)),
                          'yaml.%s passes %s=%s: the option %s receives another option\'s value' % (name, o, norm(v), o))
            else:
                rule.ok(f.loc(c), 'yaml.%s forwards %s' % (name, o))
        for k in passed:
            if k not in opts:
                rule.fail('%s|extra|%s' % (f.qualname, k), f.module.rel, c.lineno, f.qualname, '%s=%s' % (k, norm(passed[k])),
                          'yaml.%s passes an option %s it does not accept itself' % (name, k))
    # wrappers forward **kwds unchanged
    for name, target in WRAPPERS.items():
        f = init.functions.get(name)
        if f is None:
            raise AnalysisError('yaml.%s has vanished' % name)
        rets = [n for n in walk_function(f.node) if isinstance(n, ast.Return)]
        ok = len(rets) == 1 and isinstance(rets[0].value, ast.Call) and norm(rets[0].value.func) == target \
            and any(k.arg is None and norm(k.value) == 'kwds' for k in rets[0].value.keywords)
        if ok:
            rule.ok(f.loc(), 'yaml.%s forwards **kwds to %s' % (name, target))
        else:
            rule.fail('%s|kwds' % f.qualname, f.module.rel, f.node.lineno, f.qualname, 'def %s' % name,
                      'yaml.%s does not forward its keyword options unchanged to %s' % (name, target))
    # (2) dumper classes -> component __init__
    for mod in ('dumper', 'cyaml'):
        for cls in repo.modules[mod].classes.values():
            if 'Dumper' not in cls.name:
                continue
            f = cls.methods.get('__init__')
            if f is None:
                raise AnalysisError('%s has no __init__' % cls.qualname)
            opts = [p for p in f.params[2:]]
            used = set()
            for c in A.func_calls(f.node):
                if not (isinstance(c.func, ast.Attribute) and c.func.attr == '__init__'):
                    continue
                r = repo.resolve_expr(f.module, c.func.value)
                if r is None or r.kind != 'class':
                    raise AnalysisError('%s: cannot resolve %s' % (f.qualname, norm(c.func)))
                found = repo.lookup(r.obj, '__init__')
                if found is None:
                    continue
                target = found[1]
                tparams = set(target.params)
                for k in c.keywords:
                    if k.arg is None:
                        continue
                    used.add(k.arg)
                    if k.arg not in tparams:
                        rule.fail('%s|unknown|%s|%s' % (f.qualname, r.obj.name, k.arg), f.module.rel, c.lineno, f.qualname,
                                  norm(c)[:80], '%s.__init__ does not accept %s' % (r.obj.name, k.arg))
                    elif not (isinstance(k.value, ast.Name) and k.value.id == k.arg):
                        rule.fail('%s|crossed|%s|%s' % (f.qualname, r.obj.name, k.arg), f.module.rel, c.lineno, f.qualname,
                                  '%s=%s' % (k.arg, norm(k.value)),
                                  '%s.__init__ passes %s=%s to %s: options are cross-wired'
                                  % (cls.name, k.arg, norm(k.value), r.obj.name))
                    else:
                        rule.ok(f.loc(c), '%s -> %s.__init__(%s)' % (cls.name, r.obj.name, k.arg))
            for o in opts:
                if o not in used:
                    rule.fail('%s|dropped|%s' % (f.qualname, o), f.module.rel, f.node.lineno, f.qualname, o,
                              '%s accepts the option %s but passes it to none of its components' % (cls.qualname, o))
    # (3) component initialisers store every parameter
    for q in ('emitter.Emitter', 'serializer.Serializer', 'representer.BaseRepresenter', '_yaml.CEmitter'):
        K = repo.cls(q)
        f = K.methods.get('__init__')
        reads = {n.id for n in walk_function(f.node) if isinstance(n, ast.Name) and isinstance(n.ctx, ast.Load)}
        for p in f.params[1:]:
            if p in reads:
                rule.ok(f.loc(), '%s.__init__ uses %s' % (K.name, p))
            else:
                rule.fail('%s|unused|%s' % (f.qualname, p), f.module.rel, f.node.lineno, f.qualname, p,
                          '%s.__init__ ignores its parameter %s' % (K.name, p))
        # attribute <- same-named parameter (no cross wiring)
        for n in walk_function(f.node):
            if isinstance(n, ast.Assign) and isinstance(n.value, ast.Name) and n.value.id in f.params[1:]:
                for t in n.targets:
                    if isinstance(t, ast.Attribute) and norm(t.value) == 'self':
                        a, p = t.attr, n.value.id
                        if a == p or a in ('use_' + p, 'best_' + p) or p in a:
                            rule.ok(f.loc(n), 'self.%s = %s' % (a, p))
                        else:
                            rule.fail('%s|store|%s|%s' % (f.qualname, a, p), f.module.rel, n.lineno, f.qualname, norm(n),
                                      '%s.__init__ stores the parameter %s in the attribute %s' % (K.name, p, a))
    rule.require_min(120, 'keyword bindings')
    return rule


def r_option_normalised(ctx, repo):
    rule = ctx.rule('R-OPTION-NORMALISED', 'best_indent / best_width / best_line_break only ever receive their defaults or a value '
                                           'confined by a guard (1 < indent < 10, width > 2*indent, line_break in {CR, LF, CRLF})')
    E = repo.cls('emitter.Emitter')
    spec = {
        'best_indent': ('indent', lambda v: v == 2),
        'best_width': ('width', lambda v: v == 80),
        'best_line_break': ('line_break', lambda v: v == '\n'),
    }
    seen = 0
    for f in E.methods.values():
        for n in walk_function(f.node):
            if not (isinstance(n, ast.Assign) and any(isinstance(t, ast.Attribute) and norm(t.value) == 'self'
                                                      and t.attr in spec for t in n.targets)):
                continue
            attr = [t.attr for t in n.targets if isinstance(t, ast.Attribute) and t.attr in spec][0]
            seen += 1
            param, is_default = spec[attr]
            cv = A.const_value(n.value)
            if cv is not NotImplemented and is_default(cv):
                rule.ok(f.loc(n), 'self.%s = %r (default)' % (attr, cv))
                continue
            conds = RE._path_condition(n, f.node)
            ok = False
            why = ''
            if isinstance(n.value, ast.Name) and n.value.id == param:
                # evaluate the guard on probe values: it must be false for every value outside the admissible set
                if attr == 'best_indent':
                    probes = [None, 0, 1, 2, 5, 9, 10, 11, -3, 100]
                    admissible = lambda v: v is not None and 1 < v < 10
                    env = lambda v: {param: v}
                elif attr == 'best_width':
                    probes = [(None, 2), (0, 2), (4, 2), (5, 2), (18, 9), (19, 9), (80, 4), (3, 2), (1, 2)]
                    admissible = lambda v: v[0] is not None and v[0] > v[1] * 2
                    env = None
                else:
                    probes = [None, '\r', '\n', '\r\n', '\n\r', '', ' ', '\x85', '\u2028', 'x', '\n\n']
                    admissible = lambda v: v in ('\r', '\n', '\r\n')
                    env = lambda v: {param: v}
                bad = None
                undecided = False
                for pv in probes:
                    if attr == 'best_width':
                        src_env = {param: pv[0]}
                        sub = {'self.best_indent': repr(pv[1])}
                    else:
                        src_env = env(pv)
                        sub = {}
                    val = True
                    for t, pol in conds:
                        src = norm(t)
                        for k, r in sub.items():
                            src = src.replace(k, r)
                        e2 = ast.parse(src, mode='eval').body
                        r = CW.eval_cond(repo, e2, src_env)
                        if r is None:
                            undecided = True
                            val = None
                            break
                        if r != pol:
                            val = False
                            break
                    if val is True and not admissible(pv):
                        bad = pv
                    if val is None:
                        break
                if undecided:
                    why = 'the guard of this assignment could not be evaluated'
                elif bad is not None:
                    why = 'the guard lets the value %r through' % (bad,)
                else:
                    ok = True
            else:
                why = 'assigned from %s, which is neither the default nor the guarded option' % norm(n.value)
            if ok:
                rule.ok(f.loc(n), 'self.%s = %s under a confining guard' % (attr, param))
            else:
                rule.fail('%s|%s' % (f.qualname, attr), f.module.rel, n.lineno, f.qualname, norm(n),
                          'self.%s can receive an out-of-range value (%s): indentation / folding / line breaks of the output '
                          'no longer honour the documented limits' % (attr, why))
    if seen < 6:
        raise AnalysisError('R-OPTION-NORMALISED: only %d assignments of best_* found (6 confirmed)' % seen)
    return rule


def r_break_funnel(ctx, repo):
    rule = ctx.rule('R-BREAK-FUNNEL', 'no CR/LF reaches stream.write except through write_line_break, whose explicit argument is '
                                      'never "\\n" (LF in the text is written as the requested line_break)')
    E = repo.cls('emitter.Emitter')
    wlb = E.methods.get('write_line_break')
    if wlb is None:
        raise AnalysisError('Emitter.write_line_break has vanished')
    # default of write_line_break is best_line_break
    txt = norm(wlb.node)
    if 'if data is None' in txt and 'data = self.best_line_break' in txt:
        rule.ok(wlb.loc(), 'write_line_break() defaults to best_line_break')
    else:
        rule.fail('%s|default' % wlb.qualname, wlb.module.rel, wlb.node.lineno, wlb.qualname, 'def write_line_break',
                  'write_line_break no longer defaults to the requested line_break')
    n = 0
    for f in E.methods.values():
        for c in A.func_calls(f.node):
            if norm(c.func) == 'self.write_line_break' and (c.args or c.keywords):
                n += 1
                a = c.args[0] if c.args else c.keywords[0].value
                conds = RE._path_condition(c, f.node)
                at = norm(a)
                excluded = any((norm(t) == "%s == '\\n'" % at and pol is False) or
                               (norm(t) == "%s != '\\n'" % at and pol is True) for t, pol in conds)
                cs = A.const_str(a)
                if cs is not None and not (set(cs) & set('\r\n')):
                    excluded = True
                if excluded:
                    rule.ok(f.loc(c), 'write_line_break(%s) only for %s != LF' % (at, at))
                else:
                    rule.fail('%s|explicit-break|%s' % (f.qualname, at), f.module.rel, c.lineno, f.qualname, norm(c),
                              'write_line_break is given the text\'s own break character without excluding LF: a newline inside a '
                              'scalar is written as bare LF whatever line_break was requested')
    # string constants containing CR/LF written directly
    for f in E.methods.values():
        if f.name == 'write_line_break':
            continue
        for c in A.func_calls(f.node):
            if norm(c.func) == 'self.stream.write' and c.args:
                a = c.args[0]
                defs = [a]
                if isinstance(a, ast.Name):
                    defs = [x.value for x in walk_function(f.node) if isinstance(x, ast.Assign)
                            and any(isinstance(t, ast.Name) and t.id == a.id for t in x.targets)]
                for d in defs:
                    for k in ast.walk(d):
                        s = A.const_str(k) if isinstance(k, ast.Constant) else None
                        if s is not None and (set(s) & set('\r\n')):
                            rule.fail('%s|raw-break' % f.qualname, f.module.rel, c.lineno, f.qualname, norm(d)[:60],
                                      'a string constant containing CR/LF is written to the stream outside write_line_break')
    if n < 4:
        raise AnalysisError('R-BREAK-FUNNEL: only %d explicit write_line_break calls found (4 confirmed)' % n)
    return rule


def r_encode_before_write(ctx, repo):
    rule = ctx.rule('R-ENCODE-BEFORE-WRITE', 'every self.stream.write(x) is immediately preceded by `if self.encoding: x = '
                                             'x.encode(self.encoding)` (or is the BOM, encoded under a test of self.encoding)')
    E = repo.cls('emitter.Emitter')
    n = 0
    for f in E.methods.values():
        for c in A.func_calls(f.node):
            if norm(c.func) != 'self.stream.write':
                continue
            n += 1
            st = A.enclosing_stmt(c)
            a = c.args[0] if c.args else None
            ok = False
            if isinstance(a, ast.Name):
                par = getattr(st, '_parent', None)
                body = None
                for fld in ('body', 'orelse', 'finalbody'):
                    b = getattr(par, fld, None)
                    if isinstance(b, list) and st in b:
                        body = b
                if body is not None:
                    i = body.index(st)
                    if i > 0 and isinstance(body[i - 1], ast.If) and norm(body[i - 1].test) == 'self.encoding' \
                            and len(body[i - 1].body) == 1 and not body[i - 1].orelse \
                            and norm(body[i - 1].body[0]) == '%s = %s.encode(self.encoding)' % (a.id, a.id):
                        ok = True
            elif isinstance(a, ast.Call) and isinstance(a.func, ast.Attribute) and a.func.attr == 'encode' \
                    and a.args and norm(a.args[0]) == 'self.encoding':
                conds = RE._path_condition(c, f.node)
                if any('self.encoding' in norm(t) and pol for t, pol in conds):
                    ok = True
            if ok:
                rule.ok(f.loc(c), 'write in %s encodes when an encoding is set' % f.name)
            else:
                rule.fail('%s|%d' % (f.qualname, [x for x in A.func_calls(f.node) if norm(x.func) == 'self.stream.write'].index(c)),
                          f.module.rel, c.lineno, f.qualname, norm(st)[:70],
                          'data is written to the stream without the `if self.encoding: data = data.encode(...)` step: a '
                          'binary stream receives str (or the requested encoding is ignored for this piece of output)')
    rule.require_min(19, 'stream.write sites')
    return rule


def r_stream_selection(ctx, repo):
    rule = ctx.rule('R-STREAM-SELECTION', 'with stream=None, dump_all/serialize_all use StringIO iff encoding is None else BytesIO and '
                                          'return its getvalue(); emit uses StringIO; the BOM is written iff the encoding is UTF-16; the '
                                          'event\'s encoding is taken only when the stream has no encoding attribute')
    init = repo.modules['__init__']
    for name in ('serialize_all', 'dump_all'):
        f = init.functions[name]
        ok = False
        for n in walk_function(f.node):
            if isinstance(n, ast.If) and norm(n.test) == 'stream is None':
                inner = [s for s in n.body if isinstance(s, ast.If)]
                if inner and norm(inner[0].test) == 'encoding is None' and 'io.StringIO()' in norm(inner[0].body) \
                        and 'io.BytesIO()' in norm(inner[0].orelse) and 'getvalue = stream.getvalue' in norm(n.body):
                    ok = True
        rets = [r for r in walk_function(f.node) if isinstance(r, ast.Return)]
        if ok and rets and all(norm(r.value) == 'getvalue()' for r in rets):
            rule.ok(f.loc(), 'yaml.%s: str for no encoding, bytes otherwise' % name)
        else:
            rule.fail('%s|selection' % f.qualname, f.module.rel, f.node.lineno, f.qualname, 'if stream is None',
                      'yaml.%s does not choose StringIO for encoding=None / BytesIO otherwise, or does not return getvalue()' % name)
    f = init.functions['emit']
    if 'io.StringIO()' in norm(f.node) and 'BytesIO' not in norm(f.node):
        rule.ok(f.loc(), 'yaml.emit returns str')
    else:
        rule.fail('%s|selection' % f.qualname, f.module.rel, f.node.lineno, f.qualname, 'io.StringIO()', 'yaml.emit no longer uses StringIO')
    E = repo.cls('emitter.Emitter')
    f = E.methods['write_stream_start']
    t = norm(f.node)
    if "self.encoding and self.encoding.startswith('utf-16')" in t and "'\\ufeff'.encode(self.encoding)" in t:
        rule.ok(f.loc(), 'BOM iff UTF-16')
    else:
        rule.fail('%s|bom' % f.qualname, f.module.rel, f.node.lineno, f.qualname, 'write_stream_start',
                  'the byte order mark is not written exactly for the UTF-16 encodings')
    f = E.methods['expect_stream_start']
    t = norm(f.node)
    if "self.event.encoding and (not hasattr(self.stream, 'encoding'))" in t and 'self.encoding = self.event.encoding' in t:
        rule.ok(f.loc(), 'event encoding used only for streams without their own encoding')
    else:
        rule.fail('%s|encoding' % f.qualname, f.module.rel, f.node.lineno, f.qualname, 'expect_stream_start',
                  'the stream start no longer takes the requested encoding exactly when the stream has no encoding attribute')
    return rule


def r_directives_from_options(ctx, repo):
    rule = ctx.rule('R-DIRECTIVES-FROM-OPTIONS', 'serialize() builds DocumentStart from use_explicit_start/use_version/use_tags and '
                                                 'DocumentEnd from use_explicit_end for every document')
    S = repo.cls('serializer.Serializer')
    f = S.methods.get('serialize')
    ok1 = ok2 = False
    for c in A.func_calls(f.node):
        if norm(c.func) == 'DocumentStartEvent':
            kw = {k.arg: norm(k.value) for k in c.keywords}
            ok1 = kw.get('explicit') == 'self.use_explicit_start' and kw.get('version') == 'self.use_version' \
                and kw.get('tags') == 'self.use_tags'
        if norm(c.func) == 'DocumentEndEvent':
            kw = {k.arg: norm(k.value) for k in c.keywords}
            ok2 = kw.get('explicit') == 'self.use_explicit_end'
    if ok1 and ok2:
        rule.ok(f.loc(), 'Serializer.serialize: document events carry the options')
    else:
        rule.fail('%s|events' % f.qualname, f.module.rel, f.node.lineno, f.qualname, 'DocumentStartEvent/DocumentEndEvent',
                  'Serializer.serialize does not build the document start/end events from explicit_start, version, tags and '
                  'explicit_end for each document')
    C = repo.cls('_yaml.CEmitter')
    g = C.methods.get('serialize')
    t = norm(g.node)
    need = ['self.use_version', 'self.use_tags', 'self.document_start_implicit', 'self.document_end_implicit']
    if all(x in t for x in need):
        rule.ok(g.loc(), 'CEmitter.serialize uses version/tags/explicit flags per document')
    else:
        rule.fail('%s|events' % g.qualname, g.module.rel, g.node.lineno, g.qualname, 'serialize',
                  'CEmitter.serialize no longer builds each document start/end from the options')
    ci = C.methods.get('__init__')
    t = norm(ci.node)
    pairs = [('canonical', 'yaml_emitter_set_canonical'), ('indent', 'yaml_emitter_set_indent'), ('width', 'yaml_emitter_set_width'),
             ('allow_unicode', 'yaml_emitter_set_unicode'), ('line_break', 'yaml_emitter_set_break')]
    for opt, fn in pairs:
        calls = [c for c in A.func_calls(ci.node) if norm(c.func) == fn]
        good = bool(calls)
        for c in calls:
            conds = RE._path_condition(c, ci.node)
            if not any(opt in norm(tt) for tt, pol in conds):
                good = False
            if opt in ('indent', 'width') and not (len(c.args) >= 2 and norm(c.args[1]) == opt):
                good = False
        if good:
            rule.ok(ci.loc(), 'CEmitter: %s -> %s' % (opt, fn))
        else:
            rule.fail('%s|%s' % (ci.qualname, opt), ci.module.rel, ci.node.lineno, ci.qualname, fn,
                      'CEmitter.__init__ does not map the option %s onto %s' % (opt, fn))
    for lit, const in (('\\r', 'YAML_CR_BREAK'), ('\\n', 'YAML_LN_BREAK'), ('\\r\\n', 'YAML_CRLN_BREAK')):
        found = False
        for n in walk_function(ci.node):
            if isinstance(n, ast.If) and norm(n.test) == "line_break == '%s'" % lit and const in norm(n.body):
                found = True
        if found:
            rule.ok(ci.loc(), 'line_break %s -> %s' % (lit, const))
        else:
            rule.fail('%s|break|%s' % (ci.qualname, const), ci.module.rel, ci.node.lineno, ci.qualname, const,
                      'CEmitter.__init__ does not map line_break %s onto %s' % (lit, const))
    return rule


def r_ascii_unless_unicode(ctx, repo):
    """characters written raw by the tag/anchor preparers are ASCII (they are not subject to allow_unicode)."""
    rule = ctx.rule('R-ASCII-RAW', 'every character the tag / tag-prefix / handle / anchor writers emit unescaped is printable ASCII; '
                                   'the scalar analysis marks every non-ASCII character as special unless allow_unicode')
    E = repo.cls('emitter.Emitter')
    probes = sorted(set(CW.representative_chars(repo, 'emitter')) | set('é一Ａ５²ǅ\xaa\xb5\U0001F600\x7f\x80'))
    for en in ('prepare_tag', 'prepare_tag_prefix', 'prepare_tag_handle', 'prepare_anchor'):
        f = E.methods.get(en)
        ec = RE.CharClass(repo, f)
        bad = [c for c in probes if ec.passes(c) is not False and not (0x20 <= ord(c) <= 0x7e)]
        if bad:
            rule.fail('%s|non-ascii|%s' % (en, ''.join(bad[:6])), f.module.rel, ec.node.lineno, f.qualname, ec.text[:90],
                      '%s writes %s unescaped: output produced without allow_unicode contains non-ASCII characters'
                      % (en, ', '.join(repr(c) for c in bad[:6])))
        else:
            rule.ok(f.loc(ec.node), '%s: raw characters are printable ASCII' % en)
    # analyze_scalar: non-ASCII => special_characters unless allow_unicode
    f = E.methods.get('analyze_scalar')
    t = norm(f.node)
    if "if not self.allow_unicode:\n                    special_characters = True" in t.replace('    ' * 0, '') or \
            ('if not self.allow_unicode:' in t and 'special_characters = True' in t):
        rule.ok(f.loc(), 'analyze_scalar: non-ASCII forces escaping unless allow_unicode')
    else:
        rule.fail('%s|special' % f.qualname, f.module.rel, f.node.lineno, f.qualname, 'special_characters',
                  'analyze_scalar no longer treats non-ASCII characters as special when allow_unicode is off')
    return rule
