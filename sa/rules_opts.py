"""C15: dump output honours the formatting options (plumbing / normalisation / funnel clauses).

As in rules_emit, the clauses are semantic facts: option guards are checked by *running* the initialiser abstractly on probe
values and looking at what ends up in the attribute; "x is encoded before it is written", "the default break is
best_line_break", "StringIO iff no encoding" are reaching-definition facts on the CFG restricted to the edges that are
feasible in a scenario (rules_emit.Flow); guards are evaluated (rules_emit.Scenario), never compared as text."""
import ast

from . import astutil as A
from . import charworld as CW
from . import rules_emit as RE
from .cfg import CFG, own_exprs
from .rules_emit import Flow, Scenario
from .srcmodel import AnalysisError, ClassInfo, FuncInfo, norm, walk_function

DUMP_API = ['emit', 'serialize_all', 'dump_all']
WRAPPERS = {'serialize': 'serialize_all', 'dump': 'dump_all', 'safe_dump_all': 'dump_all', 'safe_dump': 'dump_all'}


def _dumper_call(f):
    """the instantiation of the dumper class in an API function: a call of its third parameter (subject, stream, Dumper)."""
    if len(f.params) < 3:
        raise AnalysisError('yaml.%s: expected (subject, stream, Dumper, options...)' % f.name)
    calls = [c for c in A.func_calls(f.node) if isinstance(c.func, ast.Name) and c.func.id == f.params[2]]
    if len(calls) != 1:
        raise AnalysisError('yaml.%s: Dumper instantiation not found' % f.name)
    return calls[0]


def r_option_plumbing(ctx, repo):
    rule = ctx.rule('R-OPTION-PLUMBING', 'every formatting option is forwarded keyword-for-keyword from the API functions through the '
                                         'dumper classes to the component initialisers, accepted there, and stored under its own name')
    init = repo.modules['__init__']
    # (1) API function -> Dumper(...)
    for name in DUMP_API:
        f = init.functions.get(name)
        if f is None:
            raise AnalysisError('yaml.%s has vanished' % name)
        c = _dumper_call(f)
        opts = list(f.params[3:]) + [a.arg for a in f.node.args.kwonlyargs]
        passed = {k.arg: k.value for k in c.keywords}
        for o in opts:
            v = passed.get(o)
            if v is None:
                rule.fail('%s|dropped|%s' % (f.qualname, o), f.module.rel, c.lineno, f.qualname, norm(c)[:80],
                          'yaml.%s accepts the option %s but does not pass it to the dumper' % (name, o))
            elif isinstance(v, ast.Name) and v.id == o and any(
                    isinstance(x, ast.Name) and x.id == o and isinstance(x.ctx, (ast.Store, ast.Del)) for x in walk_function(f.node)):
                st = [x for x in walk_function(f.node) if isinstance(x, ast.Name) and x.id == o and isinstance(x.ctx, (ast.Store, ast.Del))][0]
                rule.fail('%s|rebound|%s' % (f.qualname, o), f.module.rel, st.lineno, f.qualname, '%s = ...' % o,
                          'yaml.%s rebinds its option %s before handing it to the dumper: what the caller asked for is overridden '
                          '(for some combination of the other options)' % (name, o))
            elif not (isinstance(v, ast.Name) and v.id == o):
                rule.fail('%s|crossed|%s' % (f.qualname, o), f.module.rel, c.lineno, f.qualname, '%s=%s' % (o, norm(v)),
                          'yaml.%s passes %s=%s: the option %s receives another option\'s value' % (name, o, norm(v), o))
            else:
                rule.ok(f.loc(c), 'yaml.%s forwards %s' % (name, o))
        for k in passed:
            if k not in opts:
                rule.fail('%s|extra|%s' % (f.qualname, k), f.module.rel, c.lineno, f.qualname, '%s=%s' % (k, norm(passed[k])),
                          'yaml.%s passes an option %s it does not accept itself' % (name, k))
    # wrappers forward **kwds unchanged
    for name, target in WRAPPERS.items():
        f = init.functions.get(name)
        if f is None:
            raise AnalysisError('yaml.%s has vanished' % name)
        kw = f.node.args.kwarg.arg if f.node.args.kwarg is not None else None
        rets = [n for n in walk_function(f.node) if isinstance(n, ast.Return)]
        ok = kw is not None and len(rets) == 1 and isinstance(rets[0].value, ast.Call) and norm(rets[0].value.func) == target \
            and any(k.arg is None and isinstance(k.value, ast.Name) and k.value.id == kw for k in rets[0].value.keywords)
        if ok:
            rule.ok(f.loc(), 'yaml.%s forwards its keyword options to %s' % (name, target))
        else:
            rule.fail('%s|kwds' % f.qualname, f.module.rel, f.node.lineno, f.qualname, 'def %s' % name,
                      'yaml.%s does not forward its keyword options unchanged to %s' % (name, target))
    # (2) dumper classes -> component __init__
    for mod in ('dumper', 'cyaml'):
        for cls in repo.modules[mod].classes.values():
            if 'Dumper' not in cls.name:
                continue
            f = cls.methods.get('__init__')
            if f is None:
                raise AnalysisError('%s has no __init__' % cls.qualname)
            opts = [p for p in f.params[2:]]
            used = set()
            for c in A.func_calls(f.node):
                if not (isinstance(c.func, ast.Attribute) and c.func.attr == '__init__'):
                    continue
                r = repo.resolve_expr(f.module, c.func.value)
                if r is None or r.kind != 'class':
                    raise AnalysisError('%s: cannot resolve %s' % (f.qualname, norm(c.func)))
                found = repo.lookup(r.obj, '__init__')
                if found is None:
                    continue
                target = found[1]
                tparams = set(target.params)
                for k in c.keywords:
                    if k.arg is None:
                        continue
                    used.add(k.arg)
                    if k.arg not in tparams:
                        rule.fail('%s|unknown|%s|%s' % (f.qualname, r.obj.name, k.arg), f.module.rel, c.lineno, f.qualname,
                                  norm(c)[:80], '%s.__init__ does not accept %s' % (r.obj.name, k.arg))
                    elif not (isinstance(k.value, ast.Name) and k.value.id == k.arg):
                        rule.fail('%s|crossed|%s|%s' % (f.qualname, r.obj.name, k.arg), f.module.rel, c.lineno, f.qualname,
                                  '%s=%s' % (k.arg, norm(k.value)),
                                  '%s.__init__ passes %s=%s to %s: options are cross-wired'
                                  % (cls.name, k.arg, norm(k.value), r.obj.name))
                    else:
                        rule.ok(f.loc(c), '%s -> %s.__init__(%s)' % (cls.name, r.obj.name, k.arg))
            for o in opts:
                if o not in used:
                    rule.fail('%s|dropped|%s' % (f.qualname, o), f.module.rel, f.node.lineno, f.qualname, o,
                              '%s accepts the option %s but passes it to none of its components' % (cls.qualname, o))
    # (3) component initialisers store every parameter
    for q in ('emitter.Emitter', 'serializer.Serializer', 'representer.BaseRepresenter', '_yaml.CEmitter'):
        K = repo.cls(q)
        f = K.methods.get('__init__')
        if f is None:
            raise AnalysisError('%s has no __init__' % q)
        reads = {n.id for n in walk_function(f.node) if isinstance(n, ast.Name) and isinstance(n.ctx, ast.Load)}
        for p in f.params[1:]:
            if p in reads:
                rule.ok(f.loc(), '%s.__init__ uses %s' % (K.name, p))
            else:
                rule.fail('%s|unused|%s' % (f.qualname, p), f.module.rel, f.node.lineno, f.qualname, p,
                          '%s.__init__ ignores its parameter %s' % (K.name, p))
        # attribute <- same-named parameter (no cross wiring)
        for n in walk_function(f.node):
            if isinstance(n, ast.Assign) and isinstance(n.value, ast.Name) and n.value.id in f.params[1:]:
                for t in n.targets:
                    if isinstance(t, ast.Attribute) and norm(t.value) == 'self':
                        a, p = t.attr, n.value.id
                        if a == p or a in ('use_' + p, 'best_' + p) or p in a:
                            rule.ok(f.loc(n), 'self.%s = %s' % (a, p))
                        else:
                            rule.fail('%s|store|%s|%s' % (f.qualname, a, p), f.module.rel, n.lineno, f.qualname, norm(n),
                                      '%s.__init__ stores the parameter %s in the attribute %s' % (K.name, p, a))
    rule.require_min(75, 'keyword bindings')
    return rule


class _ValueInterp(CW.Interp):
    """the constant evaluator of sa.charworld, plus min / max / abs / int / bool on constants (option clamps)."""

    def ev_call(self, e, st, depth):
        fn = e.func
        if isinstance(fn, ast.Name) and fn.id in ('min', 'max', 'abs', 'int', 'bool', 'str') and e.args and not e.keywords:
            alts = [([], st)]
            for a in e.args:
                nxt = []
                for vals, s in alts:
                    for v, s2 in self.ev(a, s, depth):
                        nxt.append((vals + [v], s2))
                alts = nxt
            out = []
            for vals, s in alts:
                if all(CW.is_const(v) for v in vals):
                    try:
                        out.append((CW.C({'min': min, 'max': max, 'abs': abs, 'int': int, 'bool': bool, 'str': str}[fn.id](
                            *[v[1] for v in vals])), s))
                        continue
                    except Exception:
                        pass
                out.append((CW.UNK, s))
            return out
        return super().ev_call(e, st, depth)


def _self_attrs_as_locals(stmts):
    """copy of a statement list in which `self.x` is the local `__self_x` (so that the constant evaluator, which tracks
    locals, tracks the attributes the initialiser sets)."""
    def fn(n):
        if isinstance(n, ast.Attribute) and isinstance(n.value, ast.Name) and n.value.id == 'self':
            return ast.copy_location(ast.Name(id='__self_' + n.attr, ctx=n.ctx), n)
        return None
    return [RE.rebuild(s, fn) for s in stmts]


OPTION_SPEC = {
    # attribute: (parameter, default, admissible(value, best_indent) -> bool, what)
    'best_indent': ('indent', 2, lambda v, bi: isinstance(v, int) and 1 < v < 10, '1 < indent < 10'),
    'best_width': ('width', 80, lambda v, bi: isinstance(v, int) and v > bi * 2, 'width > 2 * best_indent'),
    'best_line_break': ('line_break', '\n', lambda v, bi: v in ('\r', '\n', '\r\n'), 'line_break in {CR, LF, CRLF}'),
}


def r_option_normalised(ctx, repo):
    rule = ctx.rule('R-OPTION-NORMALISED', 'best_indent / best_width / best_line_break end up as the requested value when it is '
                                           'admissible (1 < indent < 10, width > 2*indent, line_break in {CR, LF, CRLF}) and as '
                                           'the default (2, 80, LF) otherwise: the initialiser is evaluated on probe values')
    E = repo.cls('emitter.Emitter')
    f = E.methods.get('__init__')
    if f is None:
        raise AnalysisError('Emitter.__init__ has vanished')
    for attr, (param, default, adm, what) in OPTION_SPEC.items():
        if param not in f.params:
            raise AnalysisError('Emitter.__init__ has no parameter %s' % param)
    sites = {}
    for g in E.methods.values():
        for n in walk_function(g.node):
            if isinstance(n, (ast.Assign, ast.AugAssign, ast.AnnAssign)):
                targets = n.targets if isinstance(n, ast.Assign) else [n.target]
                for t in targets:
                    for x in ast.walk(t):
                        if isinstance(x, ast.Attribute) and norm(x.value) == 'self' and x.attr in OPTION_SPEC \
                                and isinstance(x.ctx, ast.Store):
                            sites.setdefault(x.attr, []).append((g, n))
    for attr in OPTION_SPEC:
        if not any(g is f for g, n in sites.get(attr, [])):
            raise AnalysisError('R-OPTION-NORMALISED: Emitter.__init__ does not assign self.%s' % attr)
        for g, n in sites[attr]:
            if g is f:
                continue
            cv = A.const_value(n.value) if isinstance(n, ast.Assign) else NotImplemented
            if cv is not NotImplemented and cv == OPTION_SPEC[attr][1]:
                rule.ok(g.loc(n), 'self.%s = %r (default) in %s' % (attr, cv, g.name))
            else:
                rule.fail('%s|%s' % (g.qualname, attr), g.module.rel, n.lineno, g.qualname, norm(n),
                          'self.%s can receive an out-of-range value (assigned outside the initialiser, without its guard): '
                          'indentation / folding / line breaks of the output no longer honour the documented limits' % attr)
    body = _self_attrs_as_locals(f.node.body)
    indents = [None, 0, 1, 2, 5, 9, 10, 11, -3, 100]
    widths = [None, 0, 1, 3, 4, 5, 10, 11, 18, 19, 20, 21, 80, 1000]
    breaks = [None, '\r', '\n', '\r\n', '\n\r', '', ' ', '\x85', '\u2028', 'x', '\n\n']
    runs = [(i, w, None) for i in indents for w in widths] + [(None, None, b) for b in breaks]
    bad = {}
    for i, w, b in runs:
        given = {'indent': i, 'width': w, 'line_break': b}
        it = _ValueInterp(repo, None, '\uffff', '<none>', None)
        st = CW.State({p: CW.C(v) for p, v in given.items()})
        try:
            ends = it.run_block(body, st, 0)
        except CW.Budget:
            raise AnalysisError('Emitter.__init__: abstract evaluation exceeded its budget')
        ends = [(k, v, s) for k, v, s in ends if k != 'raise']
        if not ends:
            raise AnalysisError('Emitter.__init__: no normal completion for indent=%r width=%r line_break=%r' % (i, w, b))
        exp_indent = i if OPTION_SPEC['best_indent'][2](i, None) else 2
        expected = {'best_indent': exp_indent,
                    'best_width': w if OPTION_SPEC['best_width'][2](w, exp_indent) else 80,
                    'best_line_break': b if OPTION_SPEC['best_line_break'][2](b, None) else '\n'}
        for attr, exp in expected.items():
            if attr in bad:
                continue
            for k, v, s in ends:
                got = s.env.get('__self_' + attr, CW.UNK)
                if not CW.is_const(got):
                    bad[attr] = ('the value stored for %s=%r could not be determined'
                                 % (OPTION_SPEC[attr][0], given[OPTION_SPEC[attr][0]]), given)
                elif got[1] != exp or type(got[1]) is not type(exp):
                    bad[attr] = ('%s=%r%s is stored as %r instead of %r'
                                 % (OPTION_SPEC[attr][0], given[OPTION_SPEC[attr][0]],
                                    (' with indent=%r' % i) if attr == 'best_width' else '', got[1], exp), given)
    for attr, (param, default, adm, what) in OPTION_SPEC.items():
        own = sorted((x for x in sites[attr] if x[0] is f), key=lambda x: x[1].lineno)
        # report at the assignment that takes the option (the one that is not the constant default), else at the first
        g, n = ([x for x in own if not isinstance(getattr(x[1], 'value', None), ast.Constant)] or own)[0]
        if attr not in bad:
            rule.ok(f.loc(n), 'self.%s is %s when %s, else %r (%d probe runs)' % (attr, param, what, default, len(runs)))
        else:
            rule.fail('%s|%s' % (f.qualname, attr), f.module.rel, n.lineno, f.qualname, norm(n),
                      'self.%s can receive an out-of-range value (%s; admissible: %s, default %r): indentation / folding / line '
                      'breaks of the output no longer honour the documented limits' % (attr, bad[attr][0], what, default))
    return rule


def _origins(flow, node, expr, _seen=None, choose=None):
    """where the value of `expr` at CFG node `node` comes from, following local assignments and .encode(): a set of
    ('const', s) | ('charvar', name) | ('attr', path) | ('param', name) | ('other', text).  choose(node, test) may decide
    which branch of a conditional expression is taken in the scenario at hand."""
    _seen = _seen if _seen is not None else set()
    if isinstance(expr, ast.Constant):
        return {('const', expr.value)}
    if isinstance(expr, ast.Name):
        out = set()
        for d in flow.defs(node, expr.id):
            if d == Flow.ENTRY:
                out.add(('param', expr.id))
                continue
            if (d, expr.id) in _seen:
                continue
            _seen.add((d, expr.id))
            if d.kind == 'for':
                out.add(('charvar', expr.id))
                continue
            v = Flow.value_of(d)
            if v is None:
                out.add(('other', norm(d.ast)[:40]))
            elif isinstance(v, ast.Subscript) and not isinstance(v.slice, ast.Slice):
                out.add(('charvar', expr.id))
            else:
                out |= _origins(flow, d, v, _seen, choose)
        return out
    if RE._is_encode_call(expr):
        return _origins(flow, node, expr.func.value, _seen, choose)
    if isinstance(expr, ast.Attribute):
        return {('attr', norm(expr))}
    if isinstance(expr, ast.BinOp):
        return _origins(flow, node, expr.left, _seen, choose) | _origins(flow, node, expr.right, _seen, choose)
    if isinstance(expr, ast.IfExp):
        v = choose(node, expr.test) if choose is not None else None
        out = set()
        if v is not False:
            out |= _origins(flow, node, expr.body, _seen, choose)
        if v is not True:
            out |= _origins(flow, node, expr.orelse, _seen, choose)
        return out
    if isinstance(expr, ast.JoinedStr):
        out = set()
        for v in expr.values:
            out |= _origins(flow, node, v.value if isinstance(v, ast.FormattedValue) else v, _seen, choose)
        return out
    return {('other', norm(expr)[:40])}


def _has_break(s):
    return isinstance(s, str) and bool(set(s) & set('\r\n'))


def r_break_funnel(ctx, repo):
    rule = ctx.rule('R-BREAK-FUNNEL', 'no CR/LF reaches stream.write except as best_line_break (the default of write_line_break) or '
                                      'as a break character of the text other than LF (LF in the text is written as the requested '
                                      'line_break)')
    E = repo.cls('emitter.Emitter')
    wlb = E.methods.get('write_line_break')
    if wlb is None:
        raise AnalysisError('Emitter.write_line_break has vanished')
    if len(wlb.params) < 2:
        raise AnalysisError('write_line_break: expected (self, data=None)')
    # (a) called without an argument, write_line_break writes best_line_break: reaching definitions of what is written,
    #     along the edges that are feasible when the parameter is None on entry
    P = wlb.params[1]
    cfg = CFG(wlb.node)

    def none_test(n, t, flow):
        """value of a test of the parameter against None while it still holds its entry value (None in this scenario)"""
        if isinstance(t, ast.UnaryOp) and isinstance(t.op, ast.Not):
            v = none_test(n, t.operand, flow)
            return None if v is None else (not v)
        if flow.defs(n, P) != frozenset([Flow.ENTRY]):
            return None
        if isinstance(t, ast.Compare) and len(t.ops) == 1 and isinstance(t.left, ast.Name) and t.left.id == P \
                and isinstance(t.comparators[0], ast.Constant) and t.comparators[0].value is None:
            if isinstance(t.ops[0], (ast.Is, ast.Eq)):
                return True
            if isinstance(t.ops[0], (ast.IsNot, ast.NotEq)):
                return False
        if isinstance(t, ast.Name) and t.id == P:
            return False
        return None

    def decide(n, flow):
        return none_test(n, n.ast, flow)
    flow = Flow(cfg, wlb.params, decide)
    writes = [(n, c) for n in cfg.nodes if n.ast is not None for c in own_exprs(n)
              if isinstance(c, ast.Call) and norm(c.func) == 'self.stream.write' and c.args and flow.reached(n)]
    if not writes:
        raise AnalysisError('write_line_break does not write to the stream')
    org = set()
    for n, c in writes:
        org |= _origins(flow, n, c.args[0], choose=lambda node, t: none_test(node, t, flow))
    if org == {('attr', 'self.best_line_break')}:
        rule.ok(wlb.loc(), 'write_line_break() defaults to best_line_break')
    else:
        rule.fail('%s|default' % wlb.qualname, wlb.module.rel, wlb.node.lineno, wlb.qualname, 'def write_line_break',
                  'write_line_break no longer defaults to the requested line_break')
    # (b) every other place that hands a value to write_line_break or to the stream: a character of the text only when LF
    #     is excluded on the way, a constant only without CR/LF
    n_sites = 0
    for f in E.methods.values():
        calls = [c for c in A.func_calls(f.node)
                 if (norm(c.func) == 'self.write_line_break' and (c.args or c.keywords))
                 or (norm(c.func) == 'self.stream.write' and c.args and f is not wlb)]
        if not calls:
            continue
        S = Scenario(repo, f)
        for c in calls:
            explicit = norm(c.func) == 'self.write_line_break'
            a = c.args[0] if c.args else c.keywords[0].value
            nodes = S.nodes_of_stmt(c)
            if not nodes:
                raise AnalysisError('%s: %s is not a statement of the function' % (f.qualname, norm(c)[:40]))
            org = set()
            for n in nodes:
                org |= _origins(S.flow, n, a)
            consts = [o[1] for o in org if o[0] == 'const']
            chars = sorted(o[1] for o in org if o[0] == 'charvar')
            if explicit and isinstance(a, ast.Name) and a.id not in chars and any(o[0] in ('param', 'other') for o in org):
                chars.append(a.id)
            why = None
            if any(_has_break(s) for s in consts):
                why = 'raw'
            for v in chars:
                r = S.reach(env={v: '\n'})
                live = [n for n in nodes if n in r]
                # what is handed over when that character is LF (a conditional expression may replace it)
                org_lf = set()
                for n in live:
                    org_lf |= _origins(S.flow, n, a, choose=lambda node, t, v=v: CW.eval_cond(repo, t, {v: '\n'}))
                if any(o == ('charvar', v) for o in org_lf) or (live and explicit and isinstance(a, ast.Name) and a.id == v):
                    why = 'lf'
            if explicit and not chars and not consts and why is None:
                why = 'lf'          # an expression we cannot follow is handed over as the break
            if explicit or chars:
                n_sites += 1
            if why == 'raw':
                if explicit:
                    rule.fail('%s|explicit-break|const' % f.qualname, f.module.rel, c.lineno, f.qualname, norm(c),
                              'write_line_break is given a constant containing CR/LF: that break is written whatever line_break '
                              'was requested')
                else:
                    rule.fail('%s|raw-break' % f.qualname, f.module.rel, c.lineno, f.qualname, norm(c)[:60],
                              'a string constant containing CR/LF is written to the stream outside write_line_break')
            elif why == 'lf':
                rule.fail('%s|explicit-break|%d' % (f.qualname, [x for x in calls if norm(x.func) == norm(c.func)].index(c)),
                          f.module.rel, c.lineno, f.qualname, norm(c),
                          'write_line_break is given the text\'s own break character without excluding LF: a newline inside a '
                          'scalar is written as bare LF whatever line_break was requested')
            elif explicit or chars:
                rule.ok(f.loc(c), 'a break character of the text is written only when it is not LF')
    if n_sites < 2:
        raise AnalysisError('R-BREAK-FUNNEL: only %d places found where a break character of the text is written (5 confirmed)' % n_sites)
    return rule


def _is_self_encoding(e):
    return isinstance(e, ast.Attribute) and e.attr == 'encoding' and norm(e.value) == 'self'


def r_encode_before_write(ctx, repo):
    rule = ctx.rule('R-ENCODE-BEFORE-WRITE', 'whatever reaches self.stream.write(x) has been encoded with self.encoding when an '
                                             'encoding is set, and has not been encoded when none is set (reaching definitions '
                                             'along the edges feasible for each value of self.encoding)')
    E = repo.cls('emitter.Emitter')
    n = 0
    for f in E.methods.values():
        sites = [c for c in A.func_calls(f.node) if norm(c.func) == 'self.stream.write']
        if not sites:
            continue
        cfg = CFG(f.node)
        plain = Flow(cfg, f.params)

        def evaluator(value):
            def ev(node, t):
                return CW.eval_cond(repo, RE.subst(plain.deref(node, t), {'self.encoding': value}), {})
            return ev

        def flow_for(value):
            ev = evaluator(value)
            return Flow(cfg, f.params, lambda node, fl: ev(node, node.ast))
        flows = [(enc, flow_for(enc), evaluator(enc)) for enc in ('utf-8', 'utf-16-le', None)]

        def is_encoded(v, at):
            return v is not None and RE._is_encode_call(v) and len(v.args) >= 1 \
                and (_is_self_encoding(v.args[0]) or (at != Flow.ENTRY and _is_self_encoding(plain.deref(at, v.args[0]))))
        for idx, c in enumerate(sites):
            n += 1
            nodes = [x for x in cfg.nodes if x.ast is not None and any(y is c for y in own_exprs(x))]
            a = c.args[0] if c.args else None
            ok = a is not None and bool(nodes)
            seen_any = False
            for enc, fl, ev in flows:
                for x in nodes:
                    if not fl.reached(x):
                        continue
                    seen_any = True
                    for leaf in RE.expand_ifexp(a, lambda t: ev(x, t)):
                        if isinstance(leaf, ast.Name):
                            vals = fl.values(x, leaf.id, ev)
                            if enc is not None and not (vals and all(is_encoded(v, d) for d, v in vals)):
                                ok = False
                            if enc is None and any(v is not None and RE._is_encode_call(v) for d, v in vals):
                                ok = False
                        elif is_encoded(leaf, x):
                            if enc is None:
                                ok = False
                        else:
                            ok = False
            if not seen_any:
                ok = False
            if ok:
                rule.ok(f.loc(c), 'write in %s encodes exactly when an encoding is set' % f.name)
            else:
                rule.fail('%s|%d' % (f.qualname, idx), f.module.rel, c.lineno, f.qualname, norm(A.enclosing_stmt(c))[:70],
                          'data is written to the stream without the `if self.encoding: data = data.encode(self.encoding)` step: '
                          'a binary stream receives str (or the requested encoding is ignored for this piece of output)')
    rule.require_min(9, 'stream.write sites')
    return rule


def _io_kind(e):
    """'StringIO' / 'BytesIO' when the expression creates that in-memory stream."""
    if isinstance(e, ast.Call) and not e.args and not e.keywords:
        t = norm(e.func)
        for k in ('StringIO', 'BytesIO'):
            if t in (k, 'io.' + k):
                return k
    return None


class _NoneScenario:
    """three-valued evaluation of the tests of an API function in the scenario "parameter p is None / is an object" (for
    the stream and encoding parameters), with locals followed through their reaching definitions: `x is None`, the truth
    of a local bound to None / to an in-memory stream / to its bound method / to a boolean expression, `not`, and/or,
    conditional expressions."""

    def __init__(self, given):
        self.given = given      # parameter -> True (is None) / False (is an object)

    def noneness(self, node, e, fl, depth=0):
        """True: None; False: an object; None: unknown"""
        if depth > 6:
            return None
        if isinstance(e, ast.Constant):
            return e.value is None
        if _io_kind(e) or isinstance(e, (ast.Compare, ast.BoolOp)) or (isinstance(e, ast.UnaryOp) and isinstance(e.op, ast.Not)):
            return False
        if isinstance(e, ast.IfExp):
            t = self.truth(node, e.test, fl, depth + 1)
            alts = {self.noneness(node, b, fl, depth + 1) for b, keep in ((e.body, t is not False), (e.orelse, t is not True)) if keep}
            return next(iter(alts)) if len(alts) == 1 else None
        if isinstance(e, ast.Attribute) and isinstance(e.value, ast.Name):
            # a bound method of an in-memory stream (stream.getvalue) is an object
            kinds = self.io_kinds(node, e.value, fl)
            return False if kinds and None not in kinds and 'param' not in kinds else None
        if isinstance(e, ast.Name):
            res = set()
            for d in fl.defs(node, e.id):
                if d == Flow.ENTRY:
                    res.add(self.given.get(e.id))
                else:
                    v = Flow.value_of(d)
                    res.add(None if v is None else self.noneness(d, v, fl, depth + 1))
            return next(iter(res)) if len(res) == 1 else None
        return None

    def truth(self, node, e, fl, depth=0):
        if depth > 6:
            return None
        if isinstance(e, ast.Constant):
            return bool(e.value)
        if isinstance(e, ast.UnaryOp) and isinstance(e.op, ast.Not):
            v = self.truth(node, e.operand, fl, depth + 1)
            return None if v is None else (not v)
        if isinstance(e, ast.BoolOp):
            return A.eval3(e, lambda a: self.truth(node, a, fl, depth + 1))
        if isinstance(e, ast.Compare):
            if len(e.ops) == 1 and isinstance(e.ops[0], (ast.Is, ast.IsNot, ast.Eq, ast.NotEq)):
                l, r = e.left, e.comparators[0]
                if isinstance(l, ast.Constant) and l.value is None:
                    l, r = r, l
                if isinstance(r, ast.Constant) and r.value is None:
                    v = self.noneness(node, l, fl, depth + 1)
                    if v is None:
                        return None
                    return v if isinstance(e.ops[0], (ast.Is, ast.Eq)) else (not v)
            return None
        if isinstance(e, ast.IfExp):
            t = self.truth(node, e.test, fl, depth + 1)
            alts = {self.truth(node, b, fl, depth + 1) for b, keep in ((e.body, t is not False), (e.orelse, t is not True)) if keep}
            return next(iter(alts)) if len(alts) == 1 else None
        if isinstance(e, ast.Name):
            res = set()
            for d in fl.defs(node, e.id):
                if d == Flow.ENTRY:
                    g = self.given.get(e.id)
                    res.add(False if g is True else None)       # None is false; an arbitrary object: unknown
                else:
                    v = Flow.value_of(d)
                    res.add(None if v is None else self.truth(d, v, fl, depth + 1))
            return next(iter(res)) if len(res) == 1 else None
        # in-memory streams and their bound methods are true
        n = self.noneness(node, e, fl, depth + 1)
        if n is True:
            return False
        if n is False and (_io_kind(e) or isinstance(e, ast.Attribute)):
            return True
        return None

    def io_kinds(self, node, e, fl, depth=0):
        """what the expression can be in this scenario: a set of 'StringIO' / 'BytesIO' / 'param' (the caller's object) /
        None (anything else)."""
        if depth > 6:
            return {None}
        if _io_kind(e):
            return {_io_kind(e)}
        if isinstance(e, ast.IfExp):
            t = self.truth(node, e.test, fl, depth + 1)
            out = set()
            if t is not False:
                out |= self.io_kinds(node, e.body, fl, depth + 1)
            if t is not True:
                out |= self.io_kinds(node, e.orelse, fl, depth + 1)
            return out
        if isinstance(e, ast.Name):
            out = set()
            for d in fl.defs(node, e.id):
                if d == Flow.ENTRY:
                    out.add('param')
                else:
                    v = Flow.value_of(d)
                    out |= {None} if v is None else self.io_kinds(d, v, fl, depth + 1)
            return out
        return {None}


def _stream_selection(repo, rule, f):
    """the str / bytes result clause for one API function, explored per scenario (stream given or None, encoding given or
    None) on the CFG with reaching definitions."""
    call = _dumper_call(f)
    if not call.args or not isinstance(call.args[0], ast.Name):
        raise AnalysisError('yaml.%s: the dumper is not given the stream as its first argument' % f.name)
    sname = f.params[1]
    ename = 'encoding' if 'encoding' in f.params else None
    cfg = CFG(f.node)
    problems = []
    for s_none in (True, False):
        for e_none in ((True, False) if ename else (True,)):
            given = {sname: s_none}
            if ename:
                given[ename] = e_none
            sc = _NoneScenario(given)
            fl = Flow(cfg, f.params, lambda node, fl_: sc.truth(node, node.ast, fl_))
            what = 'stream %s, encoding %s' % ('None' if s_none else 'given', 'None' if e_none else 'given')
            want_io = 'StringIO' if e_none else 'BytesIO'
            cnodes = [x for x in cfg.nodes if x.ast is not None and fl.reached(x) and any(y is call for y in own_exprs(x))]
            if not cnodes:
                raise AnalysisError('yaml.%s: the dumper instantiation is not reached with %s' % (f.name, what))
            for x in cnodes:
                kinds = sc.io_kinds(x, call.args[0], fl)
                want = {'param'} if not s_none else {want_io}
                if kinds != want:
                    problems.append('with %s the dumper writes to %s instead of %s'
                                    % (what, '/'.join(sorted(str(k) for k in kinds)) or 'nothing', '/'.join(sorted(want))))
            # the result
            valued, bare = [], False
            for x in cfg.nodes:
                if x.kind != 'return' or not fl.reached(x):
                    continue
                leaves = RE.expand_ifexp(x.ast.value, lambda t, x=x: sc.truth(x, t, fl)) if x.ast.value is not None else [None]
                for v in leaves:
                    if v is None or (isinstance(v, ast.Constant) and v.value is None):
                        bare = True
                    else:
                        valued.append((x, v))
            falls = fl.reached(cfg.exit_fall) or bare
            if s_none:
                if falls:
                    problems.append('with %s the function can complete without returning the produced text' % what)
                for x, v in valued:
                    good = False
                    if isinstance(v, ast.Call) and not v.args and not v.keywords:
                        g = v.func
                        targets = []
                        if isinstance(g, ast.Attribute) and g.attr == 'getvalue':
                            targets = [(x, g.value)]
                        elif isinstance(g, ast.Name):
                            vals = fl.values(x, g.id, lambda d, t: sc.truth(d, t, fl))
                            if vals and all(isinstance(w, ast.Attribute) and w.attr == 'getvalue' for d, w in vals):
                                targets = [(d, w.value) for d, w in vals]
                        good = bool(targets) and all(sc.io_kinds(at, e, fl) == {want_io} for at, e in targets)
                    if not good:
                        problems.append('with %s the function returns %s, not the getvalue() of the stream it created'
                                        % (what, norm(v)[:40]))
            elif valued:
                problems.append('with %s the function returns %s instead of None' % (what, norm(valued[0][1])[:40]))
    return problems


def r_stream_selection(ctx, repo):
    rule = ctx.rule('R-STREAM-SELECTION', 'with stream=None, dump_all/serialize_all use StringIO iff encoding is None else BytesIO and '
                                          'return its getvalue(); emit uses StringIO; the BOM is written iff the encoding is UTF-16; the '
                                          'event\'s encoding is taken only when the stream has no encoding attribute')
    init = repo.modules['__init__']
    for name in ('serialize_all', 'dump_all', 'emit'):
        f = init.functions.get(name)
        if f is None:
            raise AnalysisError('yaml.%s has vanished' % name)
        problems = _stream_selection(repo, rule, f)
        if not problems:
            rule.ok(f.loc(), 'yaml.%s: str for no encoding, bytes otherwise, None for a given stream' % name if name != 'emit'
                    else 'yaml.emit returns str')
        else:
            rule.fail('%s|selection' % f.qualname, f.module.rel, f.node.lineno, f.qualname, 'if stream is None',
                      'yaml.%s does not choose StringIO for encoding=None / BytesIO otherwise, or does not return getvalue(): %s'
                      % (name, '; '.join(problems[:3])))
    E = repo.cls('emitter.Emitter')
    # the byte order mark is written exactly for the UTF-16 encodings the emitter is given
    f = E.methods.get('write_stream_start')
    if f is None:
        raise AnalysisError('Emitter.write_stream_start has vanished')
    S = Scenario(repo, f)
    bom = [n for n in S.cfg.nodes if n.ast is not None and any(isinstance(x, ast.Constant) and x.value == '\ufeff' for x in own_exprs(n))]
    if not bom:
        raise AnalysisError('write_stream_start: the byte order mark is not written')
    wrong = []
    for enc in (None, 'utf-8', 'utf-16-le', 'utf-16-be'):
        r = S.reach(table={'self.encoding': enc})
        written = any(n in r for n in bom)
        if written != bool(enc and enc.startswith('utf-16')):
            wrong.append(enc)
    if not wrong:
        rule.ok(f.loc(), 'BOM iff UTF-16')
    else:
        rule.fail('%s|bom' % f.qualname, f.module.rel, f.node.lineno, f.qualname, 'write_stream_start',
                  'the byte order mark is not written exactly for the UTF-16 encodings (wrong for encoding=%s)'
                  % ', '.join(repr(e) for e in wrong))
    # the encoding requested by the event is adopted exactly when the stream has no encoding attribute of its own
    f = E.methods.get('expect_stream_start')
    if f is None:
        raise AnalysisError('Emitter.expect_stream_start has vanished')
    S = Scenario(repo, f)
    adopt = [n for n in S.cfg.nodes if isinstance(n.ast, ast.Assign) and any(_is_self_encoding(t) for t in n.ast.targets)]
    if not adopt:
        raise AnalysisError('expect_stream_start: self.encoding is never set')
    wrong = []
    for ev_enc in (None, 'utf-8'):
        for has in (True, False):
            def hook(e, has=has):
                inner, pos = A.strip_not(e)
                if isinstance(inner, ast.Call) and norm(inner.func) == 'hasattr' and len(inner.args) == 2 \
                        and norm(inner.args[0]) == 'self.stream' and A.const_str(inner.args[1]) == 'encoding':
                    return has if pos else (not has)
                return None
            r = S.reach(table={'self.event.encoding': ev_enc}, hook=hook)
            reached = [n for n in adopt if n in r]
            from_event = all(norm(S.flow.deref(n, n.ast.value)) == 'self.event.encoding' for n in reached)
            if bool(reached) != bool(ev_enc and not has) or not from_event:
                wrong.append('event encoding %r, stream %s an encoding attribute' % (ev_enc, 'with' if has else 'without'))
    if not wrong:
        rule.ok(f.loc(), 'event encoding used only for streams without their own encoding')
    else:
        rule.fail('%s|encoding' % f.qualname, f.module.rel, f.node.lineno, f.qualname, 'expect_stream_start',
                  'the stream start no longer takes the requested encoding exactly when the stream has no encoding attribute '
                  '(wrong for: %s)' % '; '.join(wrong[:2]))
    return rule


def r_directives_from_options(ctx, repo):
    rule = ctx.rule('R-DIRECTIVES-FROM-OPTIONS', 'serialize() builds DocumentStart from use_explicit_start/use_version/use_tags and '
                                                 'DocumentEnd from use_explicit_end for every document')
    S = repo.cls('serializer.Serializer')
    f = S.methods.get('serialize')
    if f is None:
        raise AnalysisError('Serializer.serialize has vanished')
    sc = Scenario(repo, f)

    def kwtexts(c):
        nodes = sc.nodes_of_stmt(c)
        return {k.arg: norm(sc.flow.deref(nodes[0], k.value)) if nodes else norm(k.value) for k in c.keywords}
    ok1 = ok2 = False
    for c in A.func_calls(f.node):
        if norm(c.func) == 'DocumentStartEvent':
            kw = kwtexts(c)
            ok1 = kw.get('explicit') == 'self.use_explicit_start' and kw.get('version') == 'self.use_version' \
                and kw.get('tags') == 'self.use_tags'
        if norm(c.func) == 'DocumentEndEvent':
            kw = kwtexts(c)
            ok2 = kw.get('explicit') == 'self.use_explicit_end'
    if ok1 and ok2:
        rule.ok(f.loc(), 'Serializer.serialize: document events carry the options')
    else:
        rule.fail('%s|events' % f.qualname, f.module.rel, f.node.lineno, f.qualname, 'DocumentStartEvent/DocumentEndEvent',
                  'Serializer.serialize does not build the document start/end events from explicit_start, version, tags and '
                  'explicit_end for each document')
    C = repo.cls('_yaml.CEmitter')
    g = C.methods.get('serialize')
    if g is None:
        raise AnalysisError('CEmitter.serialize has vanished')
    reads = {x.attr for x in walk_function(g.node) if isinstance(x, ast.Attribute) and norm(x.value) == 'self'}
    need = ['use_version', 'use_tags', 'document_start_implicit', 'document_end_implicit']
    if all(x in reads for x in need):
        rule.ok(g.loc(), 'CEmitter.serialize uses version/tags/explicit flags per document')
    else:
        rule.fail('%s|events' % g.qualname, g.module.rel, g.node.lineno, g.qualname, 'serialize',
                  'CEmitter.serialize no longer builds each document start/end from the options')
    ci = C.methods.get('__init__')
    if ci is None:
        raise AnalysisError('CEmitter.__init__ has vanished')
    I = Scenario(repo, ci)
    pairs = [('canonical', 'yaml_emitter_set_canonical'), ('indent', 'yaml_emitter_set_indent'), ('width', 'yaml_emitter_set_width'),
             ('allow_unicode', 'yaml_emitter_set_unicode'), ('line_break', 'yaml_emitter_set_break')]
    for opt, fn in pairs:
        calls = [c for c in A.func_calls(ci.node) if norm(c.func) == fn]
        good = bool(calls) and opt in ci.params
        # every path to the setter passes a test of the option
        tests = [n for n in I.cfg.nodes if n.kind == 'test' and n.ast is not None
                 and any(isinstance(x, ast.Name) and x.id == opt for x in ast.walk(n.ast))]
        for c in calls:
            nodes = I.nodes_of_stmt(c)
            if not nodes or not tests or not all(I.cfg.guarded(x, nodes=tests) for x in nodes):
                good = False
            if opt in ('indent', 'width') and not (len(c.args) >= 2 and isinstance(c.args[1], ast.Name) and c.args[1].id == opt):
                good = False
        if good:
            rule.ok(ci.loc(), 'CEmitter: %s -> %s' % (opt, fn))
        else:
            rule.fail('%s|%s' % (ci.qualname, opt), ci.module.rel, ci.node.lineno, ci.qualname, fn,
                      'CEmitter.__init__ does not map the option %s onto %s' % (opt, fn))
    # line_break value -> libyaml constant: with line_break fixed, exactly the matching constant is handed over
    consts = (('\r', 'YAML_CR_BREAK'), ('\n', 'YAML_LN_BREAK'), ('\r\n', 'YAML_CRLN_BREAK'))
    where = {const: [n for n in I.cfg.nodes if n.ast is not None
                     and any(isinstance(x, ast.Name) and x.id == const for x in own_exprs(n))] for lit, const in consts}
    for lit, const in consts:
        r = I.reach(env={'line_break': lit}, must_decide=['line_break'], what=' for line_break=%r' % lit)
        found = any(n in r for n in where[const])
        others = [k for l2, k in consts if k != const and any(n in r for n in where[k])]
        if found and not others:
            rule.ok(ci.loc(), 'line_break %r -> %s' % (lit, const))
        else:
            rule.fail('%s|break|%s' % (ci.qualname, const), ci.module.rel, ci.node.lineno, ci.qualname, const,
                      'CEmitter.__init__ does not map line_break %r onto %s' % (lit, const))
    return rule


PERMISSIONS = ('allow_flow_plain', 'allow_block_plain', 'allow_single_quoted', 'allow_block')


def _scalar_analysis_parts(repo, f):
    """(per-character loop, character variables, flags) of analyze_scalar, all found by role:
    the loop is the top-level loop that binds a variable to one character of the scalar (the parameter); a *flag* is a
    local the loop sets to True such that, when it is True, the code after the loop builds a ScalarAnalysis in which
    only the double-quoted style is allowed (decided by evaluating that code, whatever its shape)."""
    body = f.node.body
    text = f.params[1] if len(f.params) > 1 else None
    loop, cvars = None, set()
    for s in body:
        if not isinstance(s, (ast.While, ast.For)):
            continue
        cv = set()
        if isinstance(s, ast.For) and any(isinstance(x, ast.Name) and x.id == text for x in ast.walk(s.iter)):
            names = [x.id for x in ast.walk(s.target) if isinstance(x, ast.Name)]
            cv |= set(names[-1:])            # for ch in scalar / for index, ch in enumerate(scalar)
        for x in ast.walk(s):
            if isinstance(x, ast.Assign) and len(x.targets) == 1 and isinstance(x.targets[0], ast.Name) \
                    and isinstance(x.value, ast.Subscript) and not isinstance(x.value.slice, ast.Slice) \
                    and isinstance(x.value.value, ast.Name) and x.value.value.id == text:
                cv.add(x.targets[0].id)
        if cv:
            loop, cvars = s, cv
            break
    if loop is None:
        raise AnalysisError('analyze_scalar: no loop over the characters of the scalar found')
    ret = None
    for s in body[body.index(loop) + 1:]:
        if isinstance(s, ast.Return) and isinstance(s.value, ast.Call) and norm(s.value.func) == 'ScalarAnalysis' \
                and all(any(k.arg == w for k in s.value.keywords) for w in PERMISSIONS):
            ret = s
    if ret is None:
        raise AnalysisError('analyze_scalar: the ScalarAnalysis(...) built after the loop was not found')
    tail = body[body.index(loop) + 1:body.index(ret)]
    kws = {k.arg: k.value for k in ret.value.keywords}
    cands = sorted({t.id for x in ast.walk(loop) if isinstance(x, ast.Assign) and isinstance(x.value, ast.Constant)
                    and x.value.value is True for t in x.targets if isinstance(t, ast.Name)})
    flags = set()
    for F in cands:
        it = CW.Interp(repo, None, '\uffff', '<none>', None)
        try:
            ends = it.run_block(tail, CW.State({F: CW.C(True)}), 0)
            forced = bool(ends)
            for kind, val, st in ends:
                if kind != 'fall':
                    forced = False
                    break
                for w in PERMISSIONS:
                    if any(CW.truth(v) is not False for v, s2 in it.ev(kws[w], st, 0)):
                        forced = False
        except (CW.Budget, AnalysisError):
            forced = False
        if forced:
            flags.add(F)
    if not flags:
        raise AnalysisError('analyze_scalar: no flag restricts the scalar to the double-quoted style')
    return loop, cvars, flags


def r_ascii_unless_unicode(ctx, repo):
    """characters written raw by the tag/anchor preparers are ASCII (they are not subject to allow_unicode)."""
    rule = ctx.rule('R-ASCII-RAW', 'every character the tag / tag-prefix / handle / anchor writers emit unescaped is printable ASCII; '
                                   'the scalar analysis marks every character outside printable ASCII / LF as special (double '
                                   'quotes only) unless allow_unicode')
    E = repo.cls('emitter.Emitter')
    probes = sorted(set(CW.representative_chars(repo, 'emitter')) | set('é一Ａ５²ǅ\xaa\xb5\U0001F600\x7f\x80'))
    for en in ('prepare_tag', 'prepare_tag_prefix', 'prepare_tag_handle', 'prepare_anchor'):
        f = E.methods.get(en)
        if f is None:
            raise AnalysisError('Emitter.%s has vanished' % en)
        ec = RE.CharClass(repo, f)
        passed = [c for c in probes if ec.passes(c) is not False]
        if not passed:
            raise AnalysisError('%s: no probe character is written unescaped (the character test is not understood)' % en)
        bad = [c for c in passed if not (0x20 <= ord(c) <= 0x7e)]
        if bad:
            rule.fail('%s|non-ascii|%s' % (en, ''.join(bad[:6])), f.module.rel, ec.node.lineno, f.qualname, ec.text[:90],
                      '%s writes %s unescaped: output produced without allow_unicode contains non-ASCII characters'
                      % (en, ', '.join(repr(c) for c in bad[:6])))
        else:
            rule.ok(f.loc(ec.node), '%s: raw characters are printable ASCII' % en)
    # analyze_scalar: for every character outside printable ASCII / LF, each pass through the per-character loop with
    # allow_unicode off sets a flag that leaves only the double-quoted style
    f = E.methods.get('analyze_scalar')
    if f is None:
        raise AnalysisError('Emitter.analyze_scalar has vanished')
    loop, cvars, flags = _scalar_analysis_parts(repo, f)
    S = Scenario(repo, f)
    cfg = S.cfg
    in_loop = {id(x) for x in ast.walk(loop)}
    flag_defs = [n for n in cfg.nodes if isinstance(n.ast, (ast.Assign, ast.AugAssign, ast.AnnAssign)) and id(n.ast) in in_loop
                 and any(nm in flags for nm in Flow.bound_names(n))]
    raising = [n for n in flag_defs if isinstance(n.ast, ast.Assign) and isinstance(n.ast.value, ast.Constant)
               and n.ast.value.value is True]
    if len(raising) != len(flag_defs):
        raise AnalysisError('analyze_scalar: a double-quotes-only flag is reset inside the loop')
    head = cfg.entry_of(loop) if isinstance(loop, ast.While) else None
    if isinstance(loop, ast.For):
        fn = [n for n in cfg.nodes if n.kind == 'for' and n.stmt is loop]
        head = fn[0] if fn else None
    if head is None:
        raise AnalysisError('analyze_scalar: loop head not found')
    body_entry = [m for n in cfg.nodes if n.stmt is loop and n.kind in ('test', 'for') for (m, lab) in cfg.succ[n] if lab is True]
    if not body_entry:
        raise AnalysisError('analyze_scalar: loop body not found')
    escaping = []
    n_special = 0
    for c in probes:
        if c == '\n' or 0x20 <= ord(c) <= 0x7e:
            continue
        r = S.reach(env={v: c for v in cvars}, table={'self.allow_unicode': False}, blocked=raising, starts=body_entry,
                    must_decide=cvars, what=' for %r' % c)
        # the iteration can come round to the loop head (or leave the function) without having raised the flag
        if head in r or any(x in r for x in cfg.normal_exits()):
            escaping.append(c)
        else:
            n_special += 1
    if escaping:
        rule.fail('%s|special' % f.qualname, f.module.rel, loop.lineno, f.qualname, 'special characters',
                  'analyze_scalar does not treat %s as special when allow_unicode is off: such a scalar may be written plain / '
                  'quoted / as a block with the character unescaped, so the output is not ASCII'
                  % ', '.join(repr(c) for c in escaping[:6]))
    else:
        rule.ok(f.loc(loop), 'analyze_scalar: %d probe characters outside printable ASCII force double quotes unless allow_unicode'
                % n_special)
    return rule
