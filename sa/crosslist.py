"""Bundles of rules that are necessary conditions of several properties at once.

A rule is written for the property whose mechanism it describes, but the same structural fact is often a necessary
condition of other properties too: what the Python emitter writes must be readable by the scanner for C05 (emit/parse),
C02 (dump/load), C15 (the output is accepted by the library's reader) and C06 (either loader reads either dumper's output);
the pure-Python scanner/parser/composer are the behaviour the LibYAML back-end is compared with (C06), and so on.  A bundle
is run by every check of which all its rules are necessary conditions.  Ctx.call skips a rule that the check has already
run with the same arguments.

Rules with known findings that are specific to one property (R-YAML-ERROR-ONLY, O-CONVERTER-DOMAIN,
R-NO-GENERATOR-AROUND-CALLBACK, R-SIMPLE-KEY-FITS) are not in bundles."""
from . import effects as EFF
from . import rules_emit as RE
from . import rules_extra as RX
from . import rules_marks as RM
from . import rules_opts as RO
from . import rules_order as ROR
from . import rules_r6 as R6
from . import rules_r6b as R6B
from . import rules_r10 as R10
from . import rules_r12 as R12
from . import rules_read as RD
from . import rules_reader as RRD
from . import rules_repr as RR2
from . import rules_sibling as RSB
from . import rules_state as RS

EMIT_CLASSES = ['emitter.Emitter', 'serializer.Serializer', 'representer.BaseRepresenter']
DQ_EXC = {('write_double_quoted', '\x85\u2028\u2029')}


def emit_readable(ctx, repo):
    """what the pure-Python emitter writes is what the scanner reads back (C02, C05, C06, C15)."""
    ctx.call(RE.r_escape_inverse, repo)
    ctx.call(RE.r_tagchar_inclusion, repo)
    ctx.call(RE.r_tag_suffix_nonempty, repo)
    ctx.call(RE.r_directive_after_open_ended, repo)
    ctx.call(R10.r_root_plain_open_ended, repo)
    ctx.call(RE.r_breakset_agreement, repo, ['emitter'], exceptions=DQ_EXC)
    ctx.call(RE.r_bytes_iter, repo)
    ctx.call(RX.r_block_hint_leading, repo)
    ctx.call(RX.r_analyze_special, repo)
    ctx.call(R12.r_analyze_adjacent, repo)
    ctx.call(RX.r_escape_introducer, repo)
    ctx.call(RX.r_fold_leading_space, repo)
    ctx.call(RX.r_emitter_doc_reset, repo)
    ctx.call(RX.r_event_cache_reset, repo)
    ctx.call(RX.r_no_memo, repo)
    ctx.call(R6.r_tag_directive_every_handle, repo)
    ctx.call(R6B.r_flow_plain_agree, repo)
    ctx.call(R6B.r_option_immutable, repo, EMIT_CLASSES)
    ctx.call(RO.r_option_normalised, repo)
    if not any(k[1] == 'r_emitter_grammar' for k in ctx._called):
        from . import rules_emitgrammar as REG
        ctx.call(REG.r_emitter_grammar, repo, max_len=6, slack=1)
    ctx.call(R6B.r_bang_escaped, repo)
    ctx.call(R6B.r_emitter_lookahead_table, repo)
    ctx.call(R6B.r_doc_indicator_scalars, repo)
    ctx.call(R6B.r_fold_single_space, repo)
    ctx.call(R6B.r_split_outside_simple_key, repo)
    ctx.call(R6B.r_first_document_state_once, repo)
    ctx.call(EFF.r_global_readonly, repo)
    ctx.call(R6B.r_instance_writes_class, repo, ['emitter', 'serializer', 'representer'])
    ctx.call(R6B.r_indent_writers, repo)
    ctx.call(R6B.r_block_increment_relative, repo)
    ctx.call(R6B.r_grown_state_reset, repo, EMIT_CLASSES, 3)
    ctx.call(R6B.r_tag_handles_sorted, repo)


def scan_reference(ctx, repo):
    """the pure-Python reader / scanner / parser behave as documented - the behaviour LibYAML is compared with (C06) and
    the one the marks and grammars of C09 describe."""
    ctx.call(RD.r_indent_pairing, repo)
    ctx.call(RM.r_breakset_positions, repo)
    ctx.call(RM.r_key_before_value, repo)
    ctx.call(RM.r_parser_stack_discipline, repo)
    ctx.call(RSB.r_parser_lookahead, repo)
    ctx.call(RSB.r_simple_key_limit, repo)
    ctx.call(RX.r_docmarker_column0, repo)
    ctx.call(R10.r_docmarker_follow_agree, repo)
    ctx.call(RX.r_token_ready, repo)
    ctx.call(RX.r_column_per_char, repo)
    ctx.call(RX.r_plain_start_consumed, repo)
    ctx.call(RD.r_token_shapes, repo)
    ctx.call(RD.r_sentinel_appended, repo)
    ctx.call(RRD.r_lookahead_sufficient, repo)
    ctx.call(R6B.r_uri_escapes_joined, repo)
    ctx.call(R6B.r_one_token_per_fetch, repo)
    ctx.call(R6B.r_required_key_block_only, repo)
    ctx.call(R6B.r_flow_scalar_first_chunk, repo)
    ctx.call(R6B.r_checked_classes_unrelated, repo)
    ctx.call(R6B.r_need_more_tokens_pure, repo)
    ctx.call(R10.r_simple_key_settled, repo)
    ctx.call(RD.r_loop_progress, repo)
    ctx.call(R6B.r_block_increment_relative, repo)


def reader_positions(ctx, repo):
    """the reader delivers the decoded input unmodified and counts positions per character (C07, C09)."""
    ctx.call(RRD.r_incremental_decode, repo)
    ctx.call(RRD.r_bom_needs_two, repo)
    ctx.call(RRD.r_positions, repo)
    ctx.call(RX.r_decoded_unmodified, repo)
    ctx.call(RX.r_buffer_encapsulated, repo)
    ctx.call(RX.r_stale_snapshot, repo)
    ctx.call(RX.r_column_per_char, repo)
    ctx.call(RX.r_mark_from_position, repo)
    ctx.call(R10.r_mark_components_coherent, repo)
    ctx.call(R6B.r_str_input_verbatim, repo)
    ctx.call(R6B.r_window_compacted, repo)
    ctx.call(R6B.r_printable_per_character, repo)
    ctx.call(R6B.r_printable_one_test, repo)
    ctx.call(R6B.r_read_only_in_update_raw, repo)
    ctx.call(R6B.r_bom_prefix_fits, repo)


def compose_identity(ctx, repo):
    """anchors / aliases / per-document tables of the pure-Python composer and the construction cache (C13, C06, C02, C17)."""
    ctx.call(ROR.r_alias_guard, repo)
    ctx.call(ROR.r_anchor_before_children, repo)
    ctx.call(RS.r_doc_reset, repo, entries=[e for e in RS.DOC_ENTRIES if e[1] in ('compose_document', '_compose_document',
                                                                                 'construct_document')])
    ctx.call(R6.r_compose_via_dispatch, repo)
    ctx.call(R6B.r_composer_errors, repo)


def construct_protocol(ctx, repo):
    """the two-phase construction protocol shared by every loader (C13, C17, C02, C14)."""
    ctx.call(ROR.r_construct_cache, repo)
    ctx.call(ROR.r_two_phase, repo)
    ctx.call(ROR.r_generators_drained, repo)
    ctx.call(RX.r_deep_forwarded, repo)
    ctx.call(RX.r_two_phase_kept, repo)
    ctx.call(R6.r_generator_drained, repo)
    ctx.call(R6B.r_generators_fifo, repo)
    ctx.call(RR2.r_state_applied, repo)
    ctx.call(RX.r_setstate_unconditional, repo)
    ctx.call(R12.r_mode_flag_restored, repo)


def mapping_rules(ctx, repo):
    """how mappings are built (C14, C16 load order, C02 round trip of dicts)."""
    ctx.call(RR2.r_hashable_guard, repo)
    ctx.call(RR2.r_merge_shape, repo)
    ctx.call(R6.r_kind_exit, repo)
    ctx.call(R6.r_flatten_before_read, repo)
    ctx.call(R6.r_merge_cycle_cut, repo)
    ctx.call(R6.r_no_mutate_while_iterating, repo, ['constructor'])
    ctx.call(R6B.r_mapping_store_only, repo)
    ctx.call(R6B.r_merge_by_tag, repo)
    ctx.call(R6B.r_merge_value_rejected, repo)
    ctx.call(R10.r_merge_list_entries, repo)
    ctx.call(RR2.r_insertion_order_load, repo)
    ctx.call(R6B.r_constructed_key_hashing, repo)
    ctx.call(R6B.r_pairs_from_nodes, repo)
    ctx.call(R12.r_foreign_node_lists_intact, repo)
