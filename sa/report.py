"""Findings, known-findings matching, evidence files and exit codes (DESIGN 3.9, 8)."""
import json
import os
import sys
import time
import traceback

from .srcmodel import AnalysisError

VERIF = os.path.dirname(os.path.dirname(os.path.abspath(__file__)))
KNOWN_FILE = os.path.join(VERIF, 'known_findings.json')


class Finding:
    def __init__(self, rule, key, file, line, function, construct, why, chain=None, universe=None, inp=None):
        self.rule = rule
        self.key = key
        self.file = file
        self.line = line
        self.function = function
        self.construct = construct
        self.why = why
        self.chain = chain or []
        self.universe = universe
        self.input = inp

    def as_dict(self, prop):
        return {'property': prop, 'rule': self.rule, 'key': self.key, 'universe': self.universe,
                'file': self.file, 'line': self.line, 'function': self.function,
                'construct': self.construct, 'chain': self.chain, 'why': self.why}


class RuleRun:
    def __init__(self, ctx, rule_id, desc):
        self.ctx = ctx
        self.id = rule_id
        self.desc = desc
        self.instances = 0
        self.failed = 0
        self.samples = []
        self.distinct = set()
        self.failed_keys = set()

    def ok(self, where, what):
        """one rule instance evaluated and found to hold."""
        self.instances += 1
        self.distinct.add((where, what))
        if len(self.samples) < 6:
            self.samples.append('%s  %s  %s  holds' % (where, self.id, what))

    def fail(self, key, file, line, function, construct, why, chain=None, universe=None, inp=None):
        if key in self.failed_keys:      # same construct reached again (e.g. in another universe)
            return None
        self.failed_keys.add(key)
        self.instances += 1
        self.failed += 1
        self.distinct.add((function, construct))
        f = Finding(self.id, key, file, line, function, construct, why, chain, universe, inp)
        self.ctx.findings.append(f)
        return f

    def require_min(self, n, what='instances'):
        if self.instances < n:
            raise AnalysisError('%s evaluated %d %s, fewer than the %d confirmed by reading; '
                                'the rule no longer matches the code it was written for'
                                % (self.id, self.instances, what, n))


class Ctx:
    def __init__(self, prop, level, tier, checker_cmd):
        self.prop = prop
        self.level = level
        self.tier = tier
        self.checker_cmd = checker_cmd
        self.t0 = time.time()
        self.rules = []
        self.findings = []
        self.assumptions = []
        self.trusted_base = []
        self.extra = {}
        self.explanation = ''
        self.errors = []
        self._called = set()
        try:
            self.seed = int(os.environ.get('VERIF_SEED', '0'))
        except ValueError:
            self.seed = 0

    def call(self, fn, *args, **kw):
        """run one rule; a rule that cannot be evaluated (AnalysisError) does not keep the others from running.  The
        errors are raised together once every rule has had its turn (see main)."""
        key = (getattr(fn, '__module__', ''), getattr(fn, '__name__', ''), repr(args[1:]), repr(sorted(kw.items())))
        if key in self._called:
            return None
        self._called.add(key)
        try:
            return fn(self, *args, **kw)
        except AnalysisError as e:
            self.errors.append(str(e))
            return None

    def rule(self, rule_id, desc=''):
        r = RuleRun(self, rule_id, desc)
        self.rules.append(r)
        return r

    def assume(self, text):
        if text not in self.assumptions:
            self.assumptions.append(text)

    def trust(self, text):
        if text not in self.trusted_base:
            self.trusted_base.append(text)


def load_known():
    if not os.path.exists(KNOWN_FILE):
        return []
    with open(KNOWN_FILE, encoding='utf-8') as f:
        return json.load(f)


def finish(ctx, repo=None):
    """Print the verdict, write evidence, return the exit code."""
    known = [k for k in load_known() if k.get('status') == 'known' and k.get('property') == ctx.prop]
    known_idx = {(k['rule'], k['key']): k for k in known}
    matched, violations = [], []
    seen = set()
    for f in ctx.findings:
        ident = (f.rule, f.key)
        if ident in seen:
            continue
        seen.add(ident)
        if ident in known_idx:
            matched.append((f, known_idx[ident]))
        else:
            violations.append(f)
    no_write = bool(os.environ.get('SA_NO_EVIDENCE'))
    outdir = os.path.join(VERIF, 'out', ctx.prop)
    for f, k in matched:
        print('KNOWN-FINDING: property=%s %s %s:%s %s -- %s%s' % (
            ctx.prop, f.rule, f.file, f.line, f.construct, k.get('what', f.why),
            (' [input: %s]' % k['input']) if k.get('input') else ''))
    if violations and not no_write:
        os.makedirs(outdir, exist_ok=True)
        for old in os.listdir(outdir):
            if old.endswith('.json'):
                try:
                    os.remove(os.path.join(outdir, old))
                except OSError:
                    pass
    for i, f in enumerate(violations):
        path = os.path.join(outdir, '%d.json' % i)
        if not no_write:
            with open(path, 'w', encoding='utf-8') as fh:
                json.dump(f.as_dict(ctx.prop), fh, indent=1)
        print('%s:%s  %s  %s  %s' % (f.file, f.line, f.rule, f.construct, f.why))
        if f.chain:
            print('    via: ' + ' -> '.join(f.chain))
        print('VIOLATION property=%s replay=%s' % (ctx.prop, path))
    evaluations = sum(r.instances for r in ctx.rules)
    failed_unlisted = len(violations)
    # obligations the check claims: every evaluated rule instance except the ones that are
    # refuted and recorded as known findings (those are reported separately, never as discharged)
    obligations = evaluations - len(matched)
    discharged = obligations - failed_unlisted
    distinct = sum(len(r.distinct) for r in ctx.rules)
    samples = []
    for r in ctx.rules:
        samples.extend(r.samples[:3])
    cov = {
        'evaluations': evaluations,
        'distinct_nontrivial': distinct,
        'rule': 'one evaluation = one instance of a repository-specific static rule (a call site, table entry, '
                'loop, handler, regex pair ...) found in the current source; distinct = distinct (location, construct) '
                'pairs; an instance is non-trivial because the rule had a concrete construct to decide, '
                'rules that matched nothing abort the run instead',
        'samples': samples[:40],
        'obligations': obligations,
        'discharged': discharged,
        'checker_cmd': ctx.checker_cmd,
        'trusted_base': ctx.trusted_base,
        'explanation': ctx.explanation,
        'exhaustive': True,
        'rules': {r.id: {'instances': r.instances, 'failed': r.failed, 'desc': r.desc} for r in ctx.rules},
        'known_findings_matched': [{'rule': f.rule, 'key': f.key, 'what': k.get('what')} for f, k in matched],
        'refuted_known': len(matched),
    }
    if repo is not None:
        cov['tree_digest'] = repo.digest()
        cov['files_analysed'] = [os.path.relpath(p, repo.root) for p in repo.consulted]
    cov.update(ctx.extra)
    ev = {
        'property_id': ctx.prop,
        'tier': ctx.tier,
        'seed': ctx.seed,
        'level': ctx.level,
        'coverage': cov,
        'assumptions': ctx.assumptions,
        'wall_s': round(time.time() - ctx.t0, 3),
        'violations': failed_unlisted,
    }
    if not no_write:
        os.makedirs(os.path.join(VERIF, 'evidence'), exist_ok=True)
        with open(os.path.join(VERIF, 'evidence', ctx.prop + '.json'), 'w', encoding='utf-8') as fh:
            json.dump(ev, fh, indent=1, ensure_ascii=False)
            fh.write('\n')
    tot = '%d rule instances over %d rules, %d known findings, %d violations, %.2fs' % (
        evaluations, len(ctx.rules), len(matched), failed_unlisted, time.time() - ctx.t0)
    print('%s %s [%s]: %s' % (ctx.prop, 'VIOLATED' if violations else 'holds', ctx.tier, tot))
    return 1 if violations else 0


def main(prop, level, run, argv=None):
    """Common entry point of every checks/cNN.py."""
    argv = sys.argv[1:] if argv is None else argv
    tier = os.environ.get('VERIF_TIER') or 'quick'
    only_key = None
    it = iter(argv)
    for a in it:
        if a == '--tier':
            tier = next(it)
        elif a == '--replay':
            with open(next(it), encoding='utf-8') as fh:
                only_key = json.load(fh)
    if tier not in ('quick', 'thorough'):
        tier = 'quick'
    cmd = '/venv/bin/python -m checks.%s --tier %s' % (prop.lower(), tier)
    ctx = Ctx(prop, level, tier, cmd)
    try:
        from .srcmodel import Repo
        repo = Repo()
        run(ctx, repo)
        if ctx.errors:
            raise AnalysisError('; '.join(ctx.errors))
        if tier == 'thorough' and not os.environ.get('SA_NO_MODELCHECK'):
            from . import modelcheck
            try:
                modelcheck.cross_validate(ctx, repo)
            except AnalysisError as e:
                # a model mismatch never hides a violation that the rules already report
                if not ctx.findings:
                    raise
                ctx.extra['model_cross_validation'] = 'mismatch (reported next to the findings, not instead of them): %s' % e
        if only_key is not None:
            ctx.findings = [f for f in ctx.findings
                            if f.rule == only_key.get('rule') and f.key == only_key.get('key')]
        code = finish(ctx, repo)
    except AnalysisError as e:
        # a rule that could not be evaluated does not hide what the rules before it already found: violations win
        code = 2
        try:
            known = {(k['rule'], k['key']) for k in load_known() if k.get('status') == 'known' and k.get('property') == prop}
            if any((f.rule, f.key) not in known for f in ctx.findings):
                ctx.extra['analysis_error'] = str(e)
                code = finish(ctx, repo if 'repo' in locals() else None)
        except Exception:
            code = 2
        print('ANALYSIS-ERROR property=%s %s' % (prop, e))
    except Exception:
        traceback.print_exc()
        print('ANALYSIS-ERROR property=%s internal error in the analyser (traceback above)' % prop)
        code = 2
    sys.stdout.flush()
    return code
