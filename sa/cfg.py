"""Statement-level control-flow graphs with dominance / must-pass queries (DESIGN 3.2).

Nodes are simple statements and the tests of compound statements.  Edges out of a
test carry the label True / False; exceptional edges into handlers carry 'exc'.
Only explicit exceptional flow is modelled (raise statements, calls of functions that
are summarised as always raising, and the bodies of try statements with handlers).
"""
import ast

from .srcmodel import AnalysisError, norm


class N:
    __slots__ = ('id', 'kind', 'ast', 'stmt', 'lineno')

    def __init__(self, id, kind, node=None, stmt=None):
        self.id = id
        self.kind = kind      # entry stmt test for return raise exit_return exit_raise exit_fall
        self.ast = node
        self.stmt = stmt if stmt is not None else node
        self.lineno = getattr(node, 'lineno', 0) or getattr(stmt, 'lineno', 0)

    def __repr__(self):
        txt = norm(self.ast).split('\n')[0][:60] if self.ast is not None else ''
        return '<%d %s@%s %s>' % (self.id, self.kind, self.lineno, txt)


class CFG:
    def __init__(self, fnode, noreturn=None):
        self.fnode = fnode
        self.nodes = []
        self.succ = {}
        self.pred = {}
        self.noreturn = noreturn or (lambda call: False)
        self.by_ast = {}
        self.stmt_entry = {}
        self.entry = self._new('entry')
        self.exit_return = self._new('exit_return')
        self.exit_raise = self._new('exit_raise')
        self.exit_fall = self._new('exit_fall')
        self.asserts = []
        ctx = _Ctx(ret=self.exit_return, rais=[self.exit_raise], brk=None, cont=None)
        first = self._seq(fnode.body, self.exit_fall, ctx)
        self._edge(self.entry, first, None)

    # construction ------------------------------------------------------
    def _new(self, kind, node=None, stmt=None):
        n = N(len(self.nodes), kind, node, stmt)
        self.nodes.append(n)
        self.succ[n] = []
        self.pred[n] = []
        if node is not None:
            self.by_ast.setdefault(id(node), []).append(n)
        return n

    def _edge(self, a, b, label):
        if (b, label) not in self.succ[a]:
            self.succ[a].append((b, label))
            self.pred[b].append((a, label))

    def _seq(self, stmts, nxt, ctx):
        for st in reversed(stmts):
            nxt = self._stmt(st, nxt, ctx)
        return nxt

    def _raise_targets(self, ctx):
        return ctx.rais

    def _stmt(self, st, nxt, ctx):
        if isinstance(st, ast.If):
            e = self._cond(st.test, self._seq(st.body, nxt, ctx), self._seq(st.orelse, nxt, ctx), st, ctx)
            self.stmt_entry[id(st)] = e
            return e
        if isinstance(st, ast.While):
            # the loop head is a join node so that `continue` / the back edge have a target before the test is lowered
            head = self._new('loophead', None, st)
            inner = ctx.replace(brk=nxt, cont=head)
            const_true = isinstance(st.test, ast.Constant) and bool(st.test.value)
            body = self._seq(st.body, head, inner)
            if const_true:
                t = self._new('test', st.test, st)
                self._edge(t, body, True)
            else:
                t = self._cond(st.test, body, self._seq(st.orelse, nxt, ctx), st, ctx)
            self._edge(head, t, None)
            self.stmt_entry[id(st)] = head
            return head
        if isinstance(st, (ast.For, ast.AsyncFor)):
            t = self._new('for', st.iter, st)
            inner = ctx.replace(brk=nxt, cont=t)
            self._edge(t, self._seq(st.body, t, inner), True)
            self._edge(t, self._seq(st.orelse, nxt, ctx), False)
            self._exc_edges(t, st.iter, ctx)
            return t
        if isinstance(st, ast.Return):
            n = self._new('return', st)
            if st.value is not None and self._is_noreturn_expr(st.value):
                for r in ctx.rais:
                    self._edge(n, r, 'exc')
            else:
                self._edge(n, ctx.ret, None)
                self._exc_edges(n, st, ctx)
            return n
        if isinstance(st, ast.Raise):
            n = self._new('raise', st)
            for r in ctx.rais:
                self._edge(n, r, 'exc')
            return n
        if isinstance(st, ast.Break):
            n = self._new('stmt', st)
            if ctx.brk is None:
                raise AnalysisError('break outside loop')
            self._edge(n, ctx.brk, None)
            return n
        if isinstance(st, ast.Continue):
            n = self._new('stmt', st)
            self._edge(n, ctx.cont, None)
            return n
        if isinstance(st, ast.Try) or st.__class__.__name__ == 'TryStar':
            return self._try(st, nxt, ctx)
        if isinstance(st, (ast.With, ast.AsyncWith)):
            n = self._new('stmt', st)
            self._edge(n, self._seq(st.body, nxt, ctx), None)
            return n
        if st.__class__.__name__ == 'Match':
            raise AnalysisError('match statement not supported by the CFG builder (line %d)' % st.lineno)
        n = self._new('stmt', st)
        if isinstance(st, ast.Assert):
            self.asserts.append(n)
        if isinstance(st, ast.Expr) and self._is_noreturn_expr(st.value):
            n.kind = 'raise'
            for r in ctx.rais:
                self._edge(n, r, 'exc')
            return n
        self._edge(n, nxt, None)
        self._exc_edges(n, st, ctx)
        return n

    def _cond(self, test, t_target, f_target, stmt, ctx):
        """short-circuit lowering: every test node is an atomic condition; `not` swaps the targets, `and` / `or` chain
        them.  Nested ifs, merged conditions and De Morgan spellings therefore give the same graph."""
        if isinstance(test, ast.UnaryOp) and isinstance(test.op, ast.Not):
            return self._cond(test.operand, f_target, t_target, stmt, ctx)
        if isinstance(test, ast.BoolOp):
            nxt_t, nxt_f = t_target, f_target
            entry = None
            # build from the last operand backwards
            for v in reversed(test.values):
                if isinstance(test.op, ast.And):
                    entry = self._cond(v, nxt_t, f_target, stmt, ctx)
                    nxt_t = entry
                else:
                    entry = self._cond(v, t_target, nxt_f, stmt, ctx)
                    nxt_f = entry
            return entry
        t = self._new('test', test, stmt)
        self._edge(t, t_target, True)
        self._edge(t, f_target, False)
        self._exc_edges(t, test, ctx)
        return t

    def _is_noreturn_expr(self, e):
        return isinstance(e, ast.Call) and self.noreturn(e)

    def _exc_edges(self, n, node, ctx):
        """Inside a try with handlers, any statement that calls/subscripts may enter a handler."""
        if not ctx.in_try:
            return
        for sub in ast.walk(node):
            if isinstance(sub, (ast.Call, ast.Subscript, ast.Attribute, ast.BinOp)):
                for r in ctx.rais:
                    if r.kind != 'exit_raise':
                        self._edge(n, r, 'exc')
                return

    def _try(self, st, nxt, ctx):
        if st.finalbody:
            def through_finally(target):
                if target is None:
                    return None
                return self._seq(st.finalbody, target, ctx)
            after = through_finally(nxt)
            ret = through_finally(ctx.ret)
            rais_out = [through_finally(r) for r in ctx.rais]
            brk = through_finally(ctx.brk)
            cont = through_finally(ctx.cont)
        else:
            after, ret, rais_out, brk, cont = nxt, ctx.ret, list(ctx.rais), ctx.brk, ctx.cont
        hctx = _Ctx(ret=ret, rais=rais_out, brk=brk, cont=cont, in_try=ctx.in_try)
        handler_entries = []
        for h in st.handlers:
            hn = self._new('handler', h)
            self._edge(hn, self._seq(h.body, after, hctx), None)
            handler_entries.append(hn)
        if st.handlers:
            # an exception in the body may be caught by a handler or (no match) propagate
            body_rais = handler_entries + rais_out
            bctx = _Ctx(ret=ret, rais=body_rais, brk=brk, cont=cont, in_try=True)
        else:
            bctx = _Ctx(ret=ret, rais=rais_out, brk=brk, cont=cont, in_try=ctx.in_try)
        else_entry = self._seq(st.orelse, after, hctx)
        return self._seq(st.body, else_entry, bctx)

    # queries -----------------------------------------------------------
    def nodes_of(self, astnode):
        r = self.by_ast.get(id(astnode), [])
        if not r and isinstance(astnode, ast.expr):
            # a compound condition is lowered into its atomic operands: return their nodes
            out = []
            for x in ast.walk(astnode):
                out.extend(self.by_ast.get(id(x), []))
            return [n for n in out if n.kind == 'test']
        return r

    def entry_of(self, stmt):
        """the node at which control enters an if / while statement (first atomic test / loop head)."""
        return self.stmt_entry.get(id(stmt))

    def find(self, pred):
        return [n for n in self.nodes if n.ast is not None and pred(n)]

    def reach(self, starts, blocked=(), blocked_edges=(), follow_exc=True):
        blocked = set(blocked)
        blocked_edges = set(blocked_edges)
        seen = set()
        stack = [s for s in starts if s not in blocked]
        while stack:
            n = stack.pop()
            if n in seen:
                continue
            seen.add(n)
            for (m, lab) in self.succ[n]:
                if m in blocked or (n, m, lab) in blocked_edges or (n, lab) in blocked_edges:
                    continue
                if lab == 'exc' and not follow_exc:
                    continue
                if m not in seen:
                    stack.append(m)
        return seen

    def reachable(self):
        return self.reach([self.entry])

    def dominates(self, a, b):
        """every path entry -> b passes through a."""
        if a is b:
            return True
        return b not in self.reach([self.entry], blocked=[a])

    def guarded(self, b, nodes=(), edges=()):
        """every path entry -> b passes through one of `nodes` or one of `edges` ((test, label))."""
        return b not in self.reach([self.entry], blocked=nodes, blocked_edges=edges)

    def normal_exits(self):
        return [self.exit_return, self.exit_fall]

    def postdominates_normal(self, b, a):
        """every path from a to a normal exit passes through b."""
        starts = [m for (m, lab) in self.succ[a]]
        r = self.reach(starts, blocked=[b])
        return not any(x in r for x in self.normal_exits())

    def must_pass_between(self, a, b, via_nodes):
        """every path from a to b passes through a node of via_nodes."""
        starts = [m for (m, lab) in self.succ[a]]
        return b not in self.reach(starts, blocked=via_nodes)

    def paths_to_normal_exit_avoiding(self, start_nodes, avoid):
        r = self.reach(start_nodes, blocked=avoid)
        return any(x in r for x in self.normal_exits())

    def stmt_nodes(self):
        return [n for n in self.nodes if n.ast is not None]


class _Ctx:
    __slots__ = ('ret', 'rais', 'brk', 'cont', 'in_try')

    def __init__(self, ret, rais, brk, cont, in_try=False):
        self.ret = ret
        self.rais = rais
        self.brk = brk
        self.cont = cont
        self.in_try = in_try

    def replace(self, **kw):
        c = _Ctx(self.ret, self.rais, self.brk, self.cont, self.in_try)
        for k, v in kw.items():
            setattr(c, k, v)
        return c


def own_exprs(n):
    """AST sub-nodes evaluated *at* CFG node n (not the bodies of compound statements)."""
    a = n.ast
    if a is None:
        return
    if n.kind in ('test', 'for'):
        yield from ast.walk(a)
        if n.kind == 'for':
            yield from ast.walk(n.stmt.target)
        return
    if isinstance(a, ast.ExceptHandler):
        if a.type is not None:
            yield from ast.walk(a.type)
        return
    if isinstance(a, (ast.With, ast.AsyncWith)):
        for it in a.items:
            yield from ast.walk(it)
        return
    if isinstance(a, (ast.FunctionDef, ast.AsyncFunctionDef, ast.ClassDef)):
        return
    yield from ast.walk(a)


def defs_of(n, var):
    """does CFG node n assign the local name `var`?"""
    a = n.ast
    if a is None:
        return False
    if n.kind == 'for':
        return any(isinstance(x, ast.Name) and x.id == var for x in ast.walk(n.stmt.target))
    if n.kind != 'stmt' and n.kind != 'return':
        return False
    if isinstance(a, ast.Assign):
        return any(isinstance(x, ast.Name) and x.id == var and isinstance(x.ctx, ast.Store)
                   for t in a.targets for x in ast.walk(t))
    if isinstance(a, (ast.AugAssign, ast.AnnAssign)):
        return isinstance(a.target, ast.Name) and a.target.id == var
    return False


def reaching_defs(cfg, var, entry_def=False):
    """{node: set of def nodes of `var` that reach the *entry* of node} (classic forward may-analysis).  With entry_def the
    function entry counts as a definition (the value a parameter arrives with)."""
    defs = [n for n in cfg.nodes if defs_of(n, var)]
    if entry_def:
        defs.append(cfg.entry)
    IN = {n: set() for n in cfg.nodes}
    OUT = {n: set() for n in cfg.nodes}
    work = list(cfg.nodes)
    while work:
        n = work.pop()
        i = set()
        for (p, lab) in cfg.pred[n]:
            i |= OUT[p]
        IN[n] = i
        o = {n} if n in defs else set(i)
        if o != OUT[n]:
            OUT[n] = o
            for (m, lab) in cfg.succ[n]:
                work.append(m)
    return IN
