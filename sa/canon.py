"""Canonical spelling of conditions and branch structure (applied to every function before the rules run).

All rewrites are semantics-preserving for every Python value (same evaluation order, same short-circuiting, same result
objects); they only pick one spelling among equivalent ones so that structural rules do not depend on style:

  C1  not (a in b) -> a not in b;  not (a == b) -> a != b;  not (a is b) -> a is not b; and the converses
  C2  not (a and b) -> (not a) or (not b);  not (a or b) -> (not a) and (not b)      [negation normal form]
  C3  x in [a, b] / x not in [a, b]  ->  tuple display (membership in a display literal)
  C4  if not c: A else: B  ->  if c: B else: A          (both branches non-empty, test is a plain `not`)
  C5  if a: (if b: S)      ->  if a and b: S            (no else on either, inner `if` is the only statement)
  C6  if c: ...exit  else: R  ->  if c: ...exit ; R     (the body always leaves: return/raise/continue/break)
  C7  x = x + k / x = x - k -> x += k / x -= k          (k a numeric constant: no aliasing difference)
  C8  isinstance(x, A) or isinstance(x, B) -> isinstance(x, (A, B))   (same x, adjacent operands)
  C9  'a' + 'b' -> 'ab'                                 (constant folding of string literals)
"""
import ast
import copy

_NEG = {ast.In: ast.NotIn, ast.NotIn: ast.In, ast.Eq: ast.NotEq, ast.NotEq: ast.Eq, ast.Is: ast.IsNot, ast.IsNot: ast.Is}


def _always_exits(stmts):
    if not stmts:
        return False
    last = stmts[-1]
    if isinstance(last, (ast.Return, ast.Raise, ast.Continue, ast.Break)):
        return True
    if isinstance(last, ast.If):
        return bool(last.orelse) and _always_exits(last.body) and _always_exits(last.orelse)
    return False


def _strip_bool(t):
    """C24: in a truth-test position `bool(x)` is `x` (and so inside and / or / not of such a test)."""
    if isinstance(t, ast.Call) and isinstance(t.func, ast.Name) and t.func.id == 'bool' and len(t.args) == 1 and not t.keywords \
            and not isinstance(t.args[0], ast.Starred):
        return _strip_bool(t.args[0])
    if isinstance(t, ast.BoolOp):
        t.values = [_strip_bool(v) for v in t.values]
    elif isinstance(t, ast.UnaryOp) and isinstance(t.op, ast.Not):
        t.operand = _strip_bool(t.operand)
    return t


class _Expr(ast.NodeTransformer):
    def visit_Expr(self, node):
        self.generic_visit(node)
        # C24: the statement setattr(x, 'name', v) is the assignment x.name = v (x a plain name / attribute chain)
        c = node.value
        if isinstance(c, ast.Call) and isinstance(c.func, ast.Name) and c.func.id == 'setattr' and len(c.args) == 3 and not c.keywords \
                and isinstance(c.args[1], ast.Constant) and isinstance(c.args[1].value, str) and c.args[1].value.isidentifier() \
                and _chain_text(c.args[0]) is not None:
            tgt = ast.Attribute(value=c.args[0], attr=c.args[1].value, ctx=ast.Store())
            return ast.fix_missing_locations(ast.copy_location(ast.Assign(targets=[tgt], value=c.args[2]), node))
        return node

    def visit_If(self, node):
        node.test = _strip_bool(node.test)
        self.generic_visit(node)
        return node

    def visit_While(self, node):
        node.test = _strip_bool(node.test)
        self.generic_visit(node)
        return node

    def visit_UnaryOp(self, node):
        if isinstance(node.op, ast.Not):
            node.operand = _strip_bool(node.operand)
        self.generic_visit(node)
        if isinstance(node.op, ast.Not):
            o = node.operand
            if isinstance(o, ast.Compare) and len(o.ops) == 1 and type(o.ops[0]) in _NEG:
                return ast.copy_location(ast.Compare(left=o.left, ops=[_NEG[type(o.ops[0])]()], comparators=o.comparators), node)
            if isinstance(o, ast.UnaryOp) and isinstance(o.op, ast.Not) and isinstance(o.operand, ast.UnaryOp) \
                    and isinstance(o.operand.op, ast.Not):
                return o.operand            # not not not x -> not x
            if isinstance(o, ast.BoolOp):
                new_op = ast.Or() if isinstance(o.op, ast.And) else ast.And()
                vals = [self.visit(ast.copy_location(ast.UnaryOp(op=ast.Not(), operand=v), v)) for v in o.values]
                return ast.copy_location(ast.BoolOp(op=new_op, values=vals), node)
        return node

    def visit_Call(self, node):
        self.generic_visit(node)
        # C16: getattr(x, 'name') -> x.name
        if isinstance(node.func, ast.Name) and node.func.id == 'getattr' and len(node.args) == 2 and not node.keywords \
                and isinstance(node.args[1], ast.Constant) and isinstance(node.args[1].value, str) and node.args[1].value.isidentifier():
            return ast.copy_location(ast.Attribute(value=node.args[0], attr=node.args[1].value, ctx=ast.Load()), node)
        # C23: len('literal') -> its length
        if isinstance(node.func, ast.Name) and node.func.id == 'len' and len(node.args) == 1 and not node.keywords \
                and isinstance(node.args[0], ast.Constant) and isinstance(node.args[0].value, (str, bytes)):
            return ast.copy_location(ast.Constant(value=len(node.args[0].value)), node)
        # C22: islice(x, a, b) over an attribute / name -> x[a:b] (what a loop over it sees)
        fn = node.func
        if ((isinstance(fn, ast.Name) and fn.id == 'islice') or (isinstance(fn, ast.Attribute) and fn.attr == 'islice'
                                                                  and isinstance(fn.value, ast.Name) and fn.value.id == 'itertools')) \
                and 2 <= len(node.args) <= 3 and not node.keywords and _chain_text(node.args[0]) is not None:
            if len(node.args) == 2:
                lo, hi = None, node.args[1]
            else:
                lo, hi = node.args[1], node.args[2]
            none = lambda e: e is None or (isinstance(e, ast.Constant) and e.value is None)
            sl = ast.Slice(lower=None if none(lo) else lo, upper=None if none(hi) else hi, step=None)
            return ast.copy_location(ast.Subscript(value=node.args[0], slice=sl, ctx=ast.Load()), node)
        # C32: tuple(E(v) for v in (L1, L2, ...)) / list(...)  ->  (E(L1), E(L2), ...): a comprehension over a short literal display
        if isinstance(node.func, ast.Name) and node.func.id in ('tuple', 'list') and len(node.args) == 1 and not node.keywords \
                and isinstance(node.args[0], (ast.GeneratorExp, ast.ListComp)):
            un = _unroll_comp(node.args[0])
            if un is not None:
                cls = ast.Tuple if node.func.id == 'tuple' else ast.List
                return ast.copy_location(cls(elts=un, ctx=ast.Load()), node)
        # C13: x.startswith(('a', 'b')) -> x.startswith('a') or x.startswith('b')   (x a plain name / attribute chain)
        f = node.func
        if isinstance(f, ast.Attribute) and f.attr in ('startswith', 'endswith') and len(node.args) == 1 and not node.keywords \
                and isinstance(node.args[0], ast.Tuple) and len(node.args[0].elts) >= 2 \
                and all(isinstance(e, ast.Constant) and isinstance(e.value, str) for e in node.args[0].elts) \
                and _chain_text(f.value) is not None:
            import copy
            vals = [ast.copy_location(ast.Call(func=ast.copy_location(ast.Attribute(value=copy.deepcopy(f.value), attr=f.attr, ctx=ast.Load()), f),
                                               args=[e], keywords=[]), node) for e in node.args[0].elts]
            return ast.copy_location(ast.BoolOp(op=ast.Or(), values=vals), node)
        return node

    def visit_Compare(self, node):
        self.generic_visit(node)
        # C18: identity of two names that denote classes of the package (after a helper with a class parameter was inlined)
        if len(node.ops) == 1 and isinstance(node.ops[0], (ast.Is, ast.IsNot)) and isinstance(node.left, ast.Name) \
                and isinstance(node.comparators[0], ast.Name):
            a, b = node.left.id, node.comparators[0].id
            if a in _KNOWN_CLASSES and b in _KNOWN_CLASSES:
                return ast.copy_location(ast.Constant(value=(a == b) == isinstance(node.ops[0], ast.Is)), node)
        if len(node.ops) == 1 and isinstance(node.ops[0], (ast.In, ast.NotIn)) and isinstance(node.comparators[0], ast.List):
            c = node.comparators[0]
            node.comparators = [ast.copy_location(ast.Tuple(elts=c.elts, ctx=ast.Load()), c)]
        return node

    def visit_BoolOp(self, node):
        self.generic_visit(node)
        # flatten nested same-operator BoolOps (a and (b and c))
        vals = []
        for v in node.values:
            if isinstance(v, ast.BoolOp) and type(v.op) is type(node.op):
                vals.extend(v.values)
            else:
                vals.append(v)
        node.values = vals
        if isinstance(node.op, ast.Or):
            out = []
            for v in node.values:
                if out and self._isinst(v) and self._isinst(out[-1]) and ast.dump(v.args[0]) == ast.dump(out[-1].args[0]):
                    prev = out[-1]
                    classes = self._classes(prev.args[1]) + self._classes(v.args[1])
                    out[-1] = ast.copy_location(ast.Call(func=prev.func, args=[prev.args[0], ast.Tuple(elts=classes, ctx=ast.Load())],
                                                         keywords=[]), prev)
                else:
                    out.append(v)
            if len(out) == 1:
                return out[0]
            node.values = out
        return node

    @staticmethod
    def _isinst(v):
        return isinstance(v, ast.Call) and isinstance(v.func, ast.Name) and v.func.id == 'isinstance' and len(v.args) == 2 \
            and not v.keywords

    @staticmethod
    def _classes(e):
        return list(e.elts) if isinstance(e, ast.Tuple) else [e]

    def visit_BinOp(self, node):
        self.generic_visit(node)
        if isinstance(node.op, ast.Add) and isinstance(node.left, ast.Constant) and isinstance(node.right, ast.Constant) \
                and isinstance(node.left.value, str) and isinstance(node.right.value, str):
            return ast.copy_location(ast.Constant(node.left.value + node.right.value), node)
        return node

    def visit_IfExp(self, node):
        """C11: `a if X is X else b` -> a (a trivially decided test left behind by inlining a parametrised helper)."""
        node.test = _strip_bool(node.test)
        self.generic_visit(node)
        t = node.test
        if isinstance(t, ast.Constant) and isinstance(t.value, bool):
            return node.body if t.value else node.orelse
        if isinstance(t, ast.Compare) and len(t.ops) == 1 and isinstance(t.left, ast.Name) and isinstance(t.comparators[0], ast.Name) \
                and t.left.id == t.comparators[0].id:
            if isinstance(t.ops[0], (ast.Is, ast.Eq)):
                return node.body
            if isinstance(t.ops[0], (ast.IsNot, ast.NotEq)):
                return node.orelse
        return node

    def visit_JoinedStr(self, node):
        """C10: f-string -> %-format with the same template (the form every rule about message / escape templates reads).
        Only simple fields: {x}, {x!r}, {x!s}, {x:<printf-like spec>}."""
        self.generic_visit(node)
        tmpl, vals = [], []
        for v in node.values:
            if isinstance(v, ast.Constant) and isinstance(v.value, str):
                tmpl.append(v.value.replace('%', '%%'))
            elif isinstance(v, ast.FormattedValue):
                spec = ''
                if v.format_spec is not None:
                    if isinstance(v.format_spec, ast.Constant) and isinstance(v.format_spec.value, str):
                        spec = v.format_spec.value      # (a constant-only nested JoinedStr was already folded)
                    elif isinstance(v.format_spec, ast.JoinedStr) and all(isinstance(x, ast.Constant) for x in v.format_spec.values):
                        spec = ''.join(x.value for x in v.format_spec.values)
                    else:
                        return node
                if v.conversion == ord('r') and not spec:
                    tmpl.append('%r')
                elif v.conversion in (-1, ord('s')) and not spec:
                    tmpl.append('%s')
                elif v.conversion == -1 and spec and spec[-1] in 'dxXofeEgGc' and all(c in '0123456789.+- #' for c in spec[:-1]):
                    tmpl.append('%' + spec)
                else:
                    return node
                vals.append(v.value)
            else:
                return node
        if not vals:
            return ast.copy_location(ast.Constant(''.join(tmpl).replace('%%', '%')), node)
        right = vals[0] if len(vals) == 1 and not isinstance(vals[0], ast.Tuple) else ast.Tuple(elts=vals, ctx=ast.Load())
        return ast.copy_location(ast.BinOp(left=ast.Constant(''.join(tmpl)), op=ast.Mod(), right=right), node)

    def visit_Lambda(self, node):
        return node


def _chain_text(e):
    parts = []
    while isinstance(e, ast.Attribute):
        parts.append(e.attr)
        e = e.value
    if isinstance(e, ast.Name):
        parts.append(e.id)
        return '.'.join(reversed(parts))
    return None


def _effect_free(v):
    for x in ast.walk(v):
        if isinstance(x, ast.Call) and not (isinstance(x.func, ast.Name) and x.func.id == 'len'):
            return False
        if isinstance(x, (ast.NamedExpr, ast.Await, ast.Yield, ast.YieldFrom, ast.Lambda, ast.ListComp, ast.SetComp, ast.DictComp,
                          ast.GeneratorExp)):
            return False
    return True


def _reads(v):
    out = set()
    for x in ast.walk(v):
        t = _chain_text(x) if isinstance(x, (ast.Name, ast.Attribute)) else None
        if t:
            out.add(t)
    return out


def _splittable(s):
    targets, values = s.targets[0].elts, s.value.elts
    tt = [_chain_text(t) for t in targets]
    if any(t is None for t in tt):
        return False
    changed = []
    for j, v in enumerate(values):
        if j > 0:
            # values after the first: effect-free, and not reading anything an earlier (real) store changes
            if not _effect_free(v):
                return False
            for r in _reads(v):
                for t in changed:
                    if r == t or r.startswith(t + '.') or t.startswith(r + '.'):
                        return False
        if _chain_text(v) != tt[j]:
            changed.append(tt[j])
    # an attribute target's base must not be rebound by an earlier target
    for j, t in enumerate(tt):
        for t0 in tt[:j]:
            if t.startswith(t0 + '.'):
                return False
    return True


_GEN_COUNTER = [0]


def _lower_next(s):
    if not (isinstance(s, ast.Assign) and len(s.targets) == 1 and isinstance(s.targets[0], ast.Name)):
        return None
    v = s.value
    if not (isinstance(v, ast.Call) and isinstance(v.func, ast.Name) and v.func.id == 'next' and len(v.args) == 2
            and not v.keywords and isinstance(v.args[0], ast.GeneratorExp) and len(v.args[0].generators) == 1):
        return None
    g = v.args[0]
    comp = g.generators[0]
    if comp.is_async:
        return None
    default = v.args[1]
    if not isinstance(default, (ast.Name, ast.Constant, ast.Attribute)):
        return None
    # the generator's variables live in their own scope: give them names of their own
    import copy
    _GEN_COUNTER[0] += 1
    names = {x.id for x in ast.walk(comp.target) if isinstance(x, ast.Name)}
    ren = {n: '%s__g%d' % (n, _GEN_COUNTER[0]) for n in names}

    class R(ast.NodeTransformer):
        def visit_Name(self, node):
            if node.id in ren:
                return ast.copy_location(ast.Name(id=ren[node.id], ctx=node.ctx), node)
            return node
    target = R().visit(copy.deepcopy(comp.target))
    elt = R().visit(copy.deepcopy(g.elt))
    conds = [R().visit(copy.deepcopy(c)) for c in comp.ifs]
    assign = ast.copy_location(ast.Assign(targets=[ast.Name(id=s.targets[0].id, ctx=ast.Store())], value=elt,
                                          lineno=s.lineno, col_offset=s.col_offset), s)
    brk = ast.copy_location(ast.Break(), s)
    body = [assign, brk]
    if conds:
        test = conds[0] if len(conds) == 1 else ast.BoolOp(op=ast.And(), values=conds)
        body = [ast.copy_location(ast.If(test=test, body=body, orelse=[]), s)]
    els = [ast.copy_location(ast.Assign(targets=[ast.Name(id=s.targets[0].id, ctx=ast.Store())], value=default,
                                        lineno=s.lineno, col_offset=s.col_offset), s)]
    loop = ast.copy_location(ast.For(target=target, iter=comp.iter, body=body, orelse=els, type_comment=None), s)
    ast.fix_missing_locations(loop)
    return [loop]


def _count_loop_ok(loop):
    """no `continue` belonging to this loop and no store to the counter in the body."""
    def scan(stmts):
        for st in stmts:
            if isinstance(st, ast.Continue):
                return False
            if isinstance(st, (ast.For, ast.While)):
                # a continue inside a nested loop belongs to that loop; stores still matter
                pass
            else:
                for sub in ('body', 'orelse', 'finalbody'):
                    if isinstance(getattr(st, sub, None), list) and not scan(getattr(st, sub)):
                        return False
                for h in getattr(st, 'handlers', []) or []:
                    if not scan(h.body):
                        return False
        return True
    if not scan(loop.body):
        return False
    for st in loop.body:
        for x in ast.walk(st):
            if isinstance(x, ast.Name) and x.id == loop.target.id and isinstance(x.ctx, (ast.Store, ast.Del)):
                return False
    return True


def _leftmost_walrus(e):
    """the assignment expression that is evaluated first (and unconditionally) in e, if there is one; with its parent."""
    parent, field, idx = None, None, None
    while e is not None:
        if isinstance(e, ast.NamedExpr):
            return e, parent, field, idx
        if isinstance(e, ast.BoolOp):
            parent, field, idx, e = e, 'values', 0, e.values[0]
        elif isinstance(e, ast.Compare):
            parent, field, idx, e = e, 'left', None, e.left
        elif isinstance(e, ast.UnaryOp):
            parent, field, idx, e = e, 'operand', None, e.operand
        elif isinstance(e, ast.BinOp):
            parent, field, idx, e = e, 'left', None, e.left
        elif isinstance(e, (ast.Attribute, ast.Subscript)):
            parent, field, idx, e = e, 'value', None, e.value
        elif isinstance(e, ast.Call):
            if isinstance(e.func, ast.Attribute) and _chain_text(e.func) is None:
                parent, field, idx, e = e.func, 'value', None, e.func.value
            elif (isinstance(e.func, ast.Name) or _chain_text(e.func) is not None) and e.args \
                    and not isinstance(e.args[0], ast.Starred):
                parent, field, idx, e = e, 'args', 0, e.args[0]
            else:
                return None
        else:
            return None
    return None


def _hoist_walrus(s, out):
    """C14: `if (x := e) is not None and ...:` -> `x = e` + `if x is not None and ...:` (also return / expression /
    assignment statements): the assignment expression is what the statement evaluates first."""
    for fld in ('test', 'value'):
        if fld == 'test' and not isinstance(s, ast.If):
            continue
        if fld == 'value' and not isinstance(s, (ast.Return, ast.Expr, ast.Assign, ast.AnnAssign)):
            continue
        root = getattr(s, fld, None)
        while root is not None:
            hit = _leftmost_walrus(root)
            if hit is None:
                break
            w, parent, pf, idx = hit
            if not isinstance(w.target, ast.Name):
                break
            out.append(ast.copy_location(ast.Assign(targets=[ast.Name(id=w.target.id, ctx=ast.Store())], value=w.value,
                                                    lineno=s.lineno, col_offset=s.col_offset), s))
            rep = ast.copy_location(ast.Name(id=w.target.id, ctx=ast.Load()), w)
            if parent is None:
                setattr(s, fld, rep)
            elif idx is None:
                setattr(parent, pf, rep)
            else:
                getattr(parent, pf)[idx] = rep
            root = getattr(s, fld)


_MATCH_COUNTER = [0]


def _unroll_comp(comp):
    """elements of `E(v) for v in (L1, ..., Ln)` (one generator, no conditions, n <= 8, every Li a literal without effects and
    v a plain name that E does not rebind), or None."""
    import copy
    if len(comp.generators) != 1:
        return None
    g = comp.generators[0]
    if g.ifs or g.is_async or not isinstance(g.target, ast.Name) or not isinstance(g.iter, (ast.Tuple, ast.List)) \
            or not (1 <= len(g.iter.elts) <= 8):
        return None

    def lit(e):
        return isinstance(e, ast.Constant) or (isinstance(e, (ast.Tuple, ast.List)) and all(lit(x) for x in e.elts))
    if not all(lit(e) for e in g.iter.elts):
        return None
    v = g.target.id
    if any(isinstance(x, (ast.NamedExpr, ast.Lambda, ast.GeneratorExp, ast.ListComp, ast.SetComp, ast.DictComp))
           for x in ast.walk(comp.elt)):
        return None
    out = []
    for L in g.iter.elts:
        class T(ast.NodeTransformer):
            def visit_Name(self, node):
                if node.id == v and isinstance(node.ctx, ast.Load):
                    return ast.copy_location(copy.deepcopy(L), node)
                return node
        out.append(T().visit(copy.deepcopy(comp.elt)))
    return out


def _pure_subject(e):
    return isinstance(e, ast.Name) or _chain_text(e) is not None


def _pattern_cond(pat, subj, binds):
    """condition under which `pat` matches the (re-evaluable) expression `subj`; captures are appended to binds as
    (name, expression).  None: a pattern kind that is not lowered."""
    import copy
    S = lambda: copy.deepcopy(subj)
    if isinstance(pat, ast.MatchValue):
        return ast.Compare(left=S(), ops=[ast.Eq()], comparators=[pat.value])
    if isinstance(pat, ast.MatchSingleton):
        return ast.Compare(left=S(), ops=[ast.Is()], comparators=[ast.Constant(pat.value)])
    if isinstance(pat, ast.MatchAs):
        if pat.pattern is None:
            if pat.name is not None:
                binds.append((pat.name, S()))
            return ast.Constant(True)
        c = _pattern_cond(pat.pattern, subj, binds)
        if c is not None and pat.name is not None:
            binds.append((pat.name, S()))
        return c
    if isinstance(pat, ast.MatchOr):
        inner = []
        conds = [_pattern_cond(p, subj, inner) for p in pat.patterns]
        if any(c is None for c in conds) or inner:
            return None
        return ast.BoolOp(op=ast.Or(), values=conds)
    if isinstance(pat, ast.MatchClass):
        if pat.patterns:
            return None
        conds = [ast.Call(func=ast.Name(id='isinstance', ctx=ast.Load()), args=[S(), pat.cls], keywords=[])]
        for attr, sub in zip(pat.kwd_attrs, pat.kwd_patterns):
            c = _pattern_cond(sub, ast.Attribute(value=S(), attr=attr, ctx=ast.Load()), binds)
            if c is None:
                return None
            if not (isinstance(c, ast.Constant) and c.value is True):
                conds.append(c)
        return conds[0] if len(conds) == 1 else ast.BoolOp(op=ast.And(), values=conds)
    return None


def _lower_match(s, out):
    """C26: `match x: case P1: B1 ... case _: Bn` with value / singleton / class / or / capture / wildcard patterns is the
    if / elif chain it abbreviates (first matching case wins; a guard is the last conjunct)."""
    subj = s.subject
    pre = []
    if not _pure_subject(subj):
        _MATCH_COUNTER[0] += 1
        tmp = '__match%d' % _MATCH_COUNTER[0]
        pre.append(ast.Assign(targets=[ast.Name(id=tmp, ctx=ast.Store())], value=subj))
        subj = ast.Name(id=tmp, ctx=ast.Load())
    arms = []
    for case in s.cases:
        binds = []
        cond = _pattern_cond(case.pattern, subj, binds)
        if cond is None:
            return False
        if case.guard is not None:
            if binds:
                return False
            cond = ast.BoolOp(op=ast.And(), values=[cond, case.guard])
        body = [ast.Assign(targets=[ast.Name(id=n, ctx=ast.Store())], value=v) for n, v in binds] + list(case.body)
        arms.append((cond, body))
    node = None
    for cond, body in reversed(arms):
        if isinstance(cond, ast.Constant) and cond.value is True:
            node = body
            continue
        node = [ast.If(test=cond, body=body, orelse=node or [])]
    res = pre + (node or [])
    for x in res:
        ast.copy_location(x, s)
        ast.fix_missing_locations(x)
        for y in ast.walk(x):
            if not hasattr(y, 'lineno'):
                y.lineno, y.col_offset = s.lineno, s.col_offset
    out.extend(_canon_block([_Expr().visit(x) for x in res]))
    return True


def _has_continue(stmts):
    for st in stmts:
        for x in ast.walk(st):
            if isinstance(x, ast.Continue):
                return True
    return False


def _rotate_walrus_while(s, out):
    """C27: `while (x := E) <op> Y: B`  ->  `x = E; while x <op> Y: B; x = E` (no continue in B, no else): the loop the
    assignment expression abbreviates."""
    import copy
    if s.orelse or _has_continue(s.body):
        return None
    hit = _leftmost_walrus(s.test)
    if hit is None:
        return None
    w, parent, pf, idx = hit
    if not isinstance(w.target, ast.Name):
        return None
    # further assignment expressions in the test are not handled
    if sum(isinstance(x, ast.NamedExpr) for x in ast.walk(s.test)) != 1:
        return None
    def assign():
        a = ast.Assign(targets=[ast.Name(id=w.target.id, ctx=ast.Store())], value=copy.deepcopy(w.value))
        ast.copy_location(a, s)
        ast.fix_missing_locations(a)
        return a
    rep = ast.copy_location(ast.Name(id=w.target.id, ctx=ast.Load()), w)
    if parent is None:
        s.test = rep
    elif idx is None:
        setattr(parent, pf, rep)
    else:
        getattr(parent, pf)[idx] = rep
    out.append(assign())
    s.body = list(s.body) + [assign()]
    return s


_FUNC_TAIL = [None]


def _hoist_leading_breaks(s, last=False):
    """C29: `while True: if c1: break; if c2: break; B`  ->  `while not c1 and not c2: B` (no else clause).  When the loop is
    the last statement of a function, a leading `if c: return` (no value) leaves the function exactly as `break` would."""
    if s.orelse or not (isinstance(s.test, ast.Constant) and s.test.value is True):
        return
    conds = []
    body = list(s.body)
    while body and isinstance(body[0], ast.If) and not body[0].orelse and len(body[0].body) == 1 and (
            isinstance(body[0].body[0], ast.Break)
            or (last and isinstance(body[0].body[0], ast.Return) and (body[0].body[0].value is None or (
                isinstance(body[0].body[0].value, ast.Constant) and body[0].body[0].value.value is None)))):
        conds.append(body[0].test)
        body = body[1:]
    if not conds or not body:
        return
    neg = [_Expr().visit(ast.copy_location(ast.UnaryOp(op=ast.Not(), operand=c), c)) for c in conds]
    s.test = neg[0] if len(neg) == 1 else ast.copy_location(ast.BoolOp(op=ast.And(), values=neg), s.test)
    s.test = _Expr().visit(s.test)
    s.body = body
    ast.fix_missing_locations(s)


def _merge_try_else_unpack(s):
    """C30: `try: ...; t = CALL  except E: H  else: a, b = t; R`  ->  `try: ...; a, b = CALL  except E: H  else: R` (unpacking a
    local cannot raise what the handlers catch when they name exception classes of calls; t is used nowhere else)."""
    if not (s.body and s.orelse and not s.finalbody):
        return
    b, e = s.body[-1], s.orelse[0]
    if not (isinstance(b, ast.Assign) and len(b.targets) == 1 and isinstance(b.targets[0], ast.Name) and isinstance(b.value, ast.Call)):
        return
    t = b.targets[0].id
    if not (isinstance(e, ast.Assign) and len(e.targets) == 1 and isinstance(e.value, ast.Name) and e.value.id == t
            and isinstance(e.targets[0], (ast.Tuple, ast.Name))):
        return
    uses = sum(1 for st in s.body + s.orelse + [x for h in s.handlers for x in h.body] for x in ast.walk(st)
               if isinstance(x, ast.Name) and x.id == t)
    if uses != 2:
        return
    if any(h.type is None or (isinstance(h.type, ast.Name) and h.type.id in ('Exception', 'BaseException', 'ValueError', 'TypeError'))
           for h in s.handlers):
        return
    b.targets = e.targets
    s.orelse = s.orelse[1:]


def _fold_conditional_adjust(stmts):
    """C31: `x = E0` directly followed by `if c: x += E1` (E0 a constant, name or attribute chain; c does not read x)
    ->  `if c: x = E0 + E1  else: x = E0`: every value x can have is then one expression."""
    import copy
    out = []
    i = 0
    while i < len(stmts):
        a = stmts[i]
        b = stmts[i + 1] if i + 1 < len(stmts) else None
        if isinstance(a, ast.Assign) and len(a.targets) == 1 and isinstance(a.targets[0], ast.Name) \
                and (isinstance(a.value, (ast.Constant, ast.Name)) or _chain_text(a.value) is not None) \
                and isinstance(b, ast.If) and not b.orelse and len(b.body) == 1 and isinstance(b.body[0], ast.AugAssign) \
                and isinstance(b.body[0].op, (ast.Add, ast.Sub)) and isinstance(b.body[0].target, ast.Name) \
                and b.body[0].target.id == a.targets[0].id \
                and not any(isinstance(x, ast.Name) and x.id == a.targets[0].id for x in ast.walk(b.test)) \
                and not any(isinstance(x, ast.Name) and x.id == a.targets[0].id for x in ast.walk(b.body[0].value)) \
                and not any(isinstance(x, (ast.Call, ast.NamedExpr)) for x in ast.walk(b.test)):
            x = a.targets[0].id
            adj = ast.Assign(targets=[ast.Name(id=x, ctx=ast.Store())],
                             value=ast.BinOp(left=copy.deepcopy(a.value), op=b.body[0].op, right=b.body[0].value))
            plain = ast.Assign(targets=[ast.Name(id=x, ctx=ast.Store())], value=copy.deepcopy(a.value))
            node = ast.If(test=b.test, body=[adj], orelse=[plain])
            ast.copy_location(node, b)
            for y in ast.walk(node):
                if not hasattr(y, 'lineno'):
                    y.lineno, y.col_offset = b.lineno, b.col_offset
            ast.fix_missing_locations(node)
            out.append(node)
            i += 2
            continue
        out.append(a)
        i += 1
    return out


def _canon_block(stmts):
    if _FUNC_TAIL[0] is stmts:
        new = _fold_conditional_adjust(stmts)
        _FUNC_TAIL[0] = new
        stmts = new
    else:
        stmts = _fold_conditional_adjust(stmts)
    out = []
    for s in stmts:
        if isinstance(s, (ast.FunctionDef, ast.AsyncFunctionDef, ast.ClassDef)):
            out.append(s)
            continue
        # C15: annotated assignments are plain assignments (a bare annotation of a local declares nothing at run time)
        if isinstance(s, ast.AnnAssign) and isinstance(s.target, (ast.Name, ast.Attribute, ast.Subscript)):
            if s.value is None:
                if isinstance(s.target, ast.Name):
                    continue
            else:
                s = ast.copy_location(ast.Assign(targets=[s.target], value=s.value, lineno=s.lineno, col_offset=s.col_offset), s)
        if isinstance(s, ast.Match) and _lower_match(s, out):
            continue
        if isinstance(s, ast.While):
            _rotate_walrus_while(s, out)
            _hoist_leading_breaks(s, last=(s is stmts[-1] and _FUNC_TAIL[0] is stmts))
        if isinstance(s, ast.Try):
            _merge_try_else_unpack(s)
        _hoist_walrus(s, out)
        # C19: `v = next((E for T in IT if C), D)` -> first-match loop with else
        lowered = _lower_next(s)
        if lowered is not None:
            out.extend(_canon_block(lowered))
            continue
        # C20: `x = a if c else b` / `return a if c else b` -> if statement
        if isinstance(s, (ast.Assign, ast.Return, ast.AugAssign)) and isinstance(getattr(s, 'value', None), ast.IfExp) \
                and not (isinstance(s, ast.Assign) and any(isinstance(t, (ast.Subscript,)) for t in s.targets)):
            import copy as _copy
            ie = s.value
            a, b = _copy.copy(s), _copy.copy(s)
            a.value, b.value = ie.body, ie.orelse
            node = ast.copy_location(ast.If(test=ie.test, body=[a], orelse=[b]), s)
            out.extend(_canon_block([node]))
            continue
        # C17: `for i in itertools.count(a): [if c: break]; body`  ->  `i = a; while [not c / True]: body; i += 1`
        if isinstance(s, ast.For) and not s.orelse and isinstance(s.target, ast.Name) and isinstance(s.iter, ast.Call) \
                and ((isinstance(s.iter.func, ast.Attribute) and s.iter.func.attr == 'count' and isinstance(s.iter.func.value, ast.Name)
                      and s.iter.func.value.id == 'itertools') or (isinstance(s.iter.func, ast.Name) and s.iter.func.id == 'count')) \
                and len(s.iter.args) <= 1 and not s.iter.keywords \
                and (not s.iter.args or isinstance(s.iter.args[0], ast.Constant)) and _count_loop_ok(s):
            start = s.iter.args[0] if s.iter.args else ast.Constant(0)
            out.append(ast.copy_location(ast.Assign(targets=[ast.Name(id=s.target.id, ctx=ast.Store())], value=start,
                                                    lineno=s.lineno, col_offset=s.col_offset), s))
            body = list(s.body)
            test = ast.Constant(True)
            if body and isinstance(body[0], ast.If) and not body[0].orelse and len(body[0].body) == 1 \
                    and isinstance(body[0].body[0], ast.Break):
                test = _Expr().visit(ast.copy_location(ast.UnaryOp(op=ast.Not(), operand=body[0].test), body[0].test))
                body = body[1:]
            body.append(ast.copy_location(ast.AugAssign(target=ast.Name(id=s.target.id, ctx=ast.Store()), op=ast.Add(),
                                                        value=ast.Constant(1)), s))
            s = ast.copy_location(ast.While(test=test, body=body, orelse=[]), s)
        # C25: `for i, c in enumerate(x): body`  (x a name that the body does not rebind, no continue, i and c not stored)
        #      ->  `i = 0; while i < len(x): c = x[i]; body; i += 1`   - the indexed loop it abbreviates
        if isinstance(s, ast.For) and not s.orelse and isinstance(s.target, ast.Tuple) and len(s.target.elts) == 2 \
                and all(isinstance(t, ast.Name) for t in s.target.elts) and isinstance(s.iter, ast.Call) \
                and isinstance(s.iter.func, ast.Name) and s.iter.func.id == 'enumerate' and len(s.iter.args) == 1 \
                and not s.iter.keywords and isinstance(s.iter.args[0], ast.Name):
            iv, cv, xs = s.target.elts[0].id, s.target.elts[1].id, s.iter.args[0].id
            probe = ast.For(target=ast.Name(id=iv, ctx=ast.Store()), iter=s.iter, body=s.body, orelse=[])
            stored = {x.id for st in s.body for x in ast.walk(st) if isinstance(x, ast.Name) and isinstance(x.ctx, (ast.Store, ast.Del))}
            if _count_loop_ok(probe) and not (stored & {iv, cv, xs}):
                def nm(i, ctx=ast.Load):
                    return ast.Name(id=i, ctx=ctx())
                out.append(ast.fix_missing_locations(ast.copy_location(
                    ast.Assign(targets=[nm(iv, ast.Store)], value=ast.Constant(0)), s)))
                test = ast.Compare(left=nm(iv), ops=[ast.Lt()], comparators=[ast.Call(func=nm('len'), args=[nm(xs)], keywords=[])])
                first = ast.Assign(targets=[nm(cv, ast.Store)], value=ast.Subscript(value=nm(xs), slice=nm(iv), ctx=ast.Load()))
                inc = ast.AugAssign(target=nm(iv, ast.Store), op=ast.Add(), value=ast.Constant(1))
                w = ast.While(test=test, body=[first] + list(s.body) + [inc], orelse=[])
                s = ast.fix_missing_locations(ast.copy_location(w, s))
                for x in ast.walk(s):
                    if not hasattr(x, 'lineno'):
                        x.lineno, x.col_offset = s.lineno, s.col_offset
        for sub in ('body', 'orelse', 'finalbody'):
            if isinstance(getattr(s, sub, None), list):
                setattr(s, sub, _canon_block(getattr(s, sub)))
        for h in getattr(s, 'handlers', []) or []:
            h.body = _canon_block(h.body)
        if isinstance(s, ast.If):
            # C4
            if s.body and s.orelse and isinstance(s.test, ast.UnaryOp) and isinstance(s.test.op, ast.Not) \
                    and not (len(s.orelse) == 1 and isinstance(s.orelse[0], ast.If) and not _always_exits(s.body)):
                s.test, s.body, s.orelse = s.test.operand, s.orelse, s.body
            # C5
            while (not s.orelse and len(s.body) == 1 and isinstance(s.body[0], ast.If) and not s.body[0].orelse):
                inner = s.body[0]
                vals = []
                for t in (s.test, inner.test):
                    if isinstance(t, ast.BoolOp) and isinstance(t.op, ast.And):
                        vals.extend(t.values)
                    else:
                        vals.append(t)
                s.test = ast.copy_location(ast.BoolOp(op=ast.And(), values=vals), s.test)
                s.body = inner.body
            # C6
            if s.orelse and _always_exits(s.body):
                tail = s.orelse
                s.orelse = []
                out.append(s)
                out.extend(tail)
                continue
        # C12: `a, b = x, y` -> `a = x; b = y` when no later value can see an earlier target and at most the first value
        # has an effect (all right-hand sides are evaluated before any store)
        if isinstance(s, ast.Assign) and len(s.targets) == 1 and isinstance(s.targets[0], ast.Tuple) \
                and isinstance(s.value, ast.Tuple) and len(s.value.elts) == len(s.targets[0].elts) \
                and not any(isinstance(e, ast.Starred) for e in s.targets[0].elts + s.value.elts) and _splittable(s):
            for t, v in zip(s.targets[0].elts, s.value.elts):
                if _chain_text(t) == _chain_text(v):
                    continue
                out.append(ast.copy_location(ast.Assign(targets=[t], value=v, lineno=s.lineno, col_offset=s.col_offset), s))
            continue
        if isinstance(s, ast.Assign) and len(s.targets) == 1 and isinstance(s.value, ast.BinOp) \
                and isinstance(s.value.op, (ast.Add, ast.Sub)) and isinstance(s.value.right, ast.Constant) \
                and isinstance(s.value.right.value, (int, float)) and not isinstance(s.value.right.value, bool) \
                and isinstance(s.targets[0], (ast.Name, ast.Attribute)) \
                and ast.dump(s.value.left).replace('Load()', 'X').replace('Store()', 'X') == ast.dump(s.targets[0]).replace('Load()', 'X').replace('Store()', 'X'):
            s = ast.copy_location(ast.AugAssign(target=s.targets[0], op=s.value.op, value=s.value.right), s)
        out.append(s)
    if stmts and not out:
        out.append(ast.copy_location(ast.Pass(), stmts[0]))
    return _tail_duplicate(out)


def _tail_duplicate(stmts):
    """C21: `if c: ...; b = E1  else: ...; b = E2` followed by an `if` whose test reads b: the second `if` is copied to the end
    of both branches, so that in each copy b has one definition (the hoisted-boolean idiom written back)."""
    import copy
    out = []
    i = 0
    while i < len(stmts):
        s = stmts[i]
        nxt = stmts[i + 1] if i + 1 < len(stmts) else None
        if isinstance(s, ast.If) and s.body and s.orelse and isinstance(nxt, ast.If):
            # the leaves of the if / elif / else chain: every one must end by assigning the same name
            leaves = []

            def collect(node):
                leaves.append(node.body)
                if len(node.orelse) == 1 and isinstance(node.orelse[0], ast.If) and node.orelse[0].orelse:
                    collect(node.orelse[0])
                else:
                    leaves.append(node.orelse)
            collect(s)
            names = set()
            for lf in leaves:
                last = lf[-1] if lf else None
                if isinstance(last, ast.Assign) and len(last.targets) == 1 and isinstance(last.targets[0], ast.Name):
                    names.add(last.targets[0].id)
                else:
                    names.add(None)
            if len(names) == 1 and None not in names:
                b = next(iter(names))
                reads = any(isinstance(x, ast.Name) and x.id == b for x in ast.walk(nxt.test))
                size = sum(1 for _ in ast.walk(nxt))
                if reads and size * len(leaves) <= 240:
                    for lf in leaves:
                        lf.append(copy.deepcopy(nxt))
                    out.append(s)
                    i += 2
                    continue
        out.append(s)
        i += 1
    return out


def _inline_partials(fdef):
    """C28: `e = partial(F, a, b)` (bound once in the function; a, b constants, parameters or locals bound once, or f-strings /
    %-formats over those) and later `e(x, y)`  ->  `F(a, b, x, y)`: the call the partial object abbreviates."""
    import copy
    stores = {}
    for x in ast.walk(fdef):
        if isinstance(x, ast.Name) and isinstance(x.ctx, (ast.Store, ast.Del)):
            stores[x.id] = stores.get(x.id, 0) + 1
        elif isinstance(x, (ast.FunctionDef, ast.AsyncFunctionDef, ast.Lambda)) and x is not fdef:
            return
    params = {a.arg for a in fdef.args.args + fdef.args.kwonlyargs + fdef.args.posonlyargs}

    def stable(e):
        if isinstance(e, ast.Constant):
            return True
        if isinstance(e, ast.Name):
            return (e.id in params and stores.get(e.id, 0) == 0) or stores.get(e.id, 0) == 1 or e.id not in stores
        if isinstance(e, ast.JoinedStr):
            return all(stable(v.value) if isinstance(v, ast.FormattedValue) else True for v in e.values)
        if isinstance(e, ast.BinOp) and isinstance(e.op, ast.Mod):
            return stable(e.left) and stable(e.right)
        if isinstance(e, ast.Tuple):
            return all(stable(x) for x in e.elts)
        return False
    parts = {}
    for st in ast.walk(fdef):
        if isinstance(st, ast.Assign) and len(st.targets) == 1 and isinstance(st.targets[0], ast.Name) \
                and stores.get(st.targets[0].id) == 1 and isinstance(st.value, ast.Call) and st.value.args \
                and ((isinstance(st.value.func, ast.Name) and st.value.func.id == 'partial')
                     or (isinstance(st.value.func, ast.Attribute) and st.value.func.attr == 'partial'
                         and isinstance(st.value.func.value, ast.Name) and st.value.func.value.id == 'functools')) \
                and isinstance(st.value.args[0], ast.Name) and all(stable(a) for a in st.value.args[1:]) \
                and all(k.arg is not None and stable(k.value) for k in st.value.keywords):
            parts[st.targets[0].id] = (st, st.value)
    if not parts:
        return
    # every use of the name must be a direct call
    uses = {}
    for x in ast.walk(fdef):
        if isinstance(x, ast.Name) and isinstance(x.ctx, ast.Load) and x.id in parts:
            uses[x.id] = uses.get(x.id, 0) + 1
    calls = {}
    for x in ast.walk(fdef):
        if isinstance(x, ast.Call) and isinstance(x.func, ast.Name) and x.func.id in parts:
            calls[x.func.id] = calls.get(x.func.id, 0) + 1
    ok = {n for n in parts if uses.get(n, 0) == calls.get(n, 0)}
    if not ok:
        return

    class T(ast.NodeTransformer):
        def visit_Call(self, node):
            self.generic_visit(node)
            if isinstance(node.func, ast.Name) and node.func.id in ok:
                p = parts[node.func.id][1]
                node.func = copy.deepcopy(p.args[0])
                node.args = [copy.deepcopy(a) for a in p.args[1:]] + node.args
                node.keywords = [copy.deepcopy(k) for k in p.keywords
                                 if k.arg not in {q.arg for q in node.keywords}] + node.keywords
            return node

        def visit_Assign(self, node):
            if any(node is parts[n][0] for n in ok):
                return ast.copy_location(ast.Pass(), node)
            self.generic_visit(node)
            return node
    T().visit(fdef)
    ast.fix_missing_locations(fdef)


def canon_function(fdef):
    _inline_partials(fdef)
    t = _Expr()
    fdef.body = [t.visit(s) for s in fdef.body]
    _FUNC_TAIL[0] = fdef.body
    try:
        fdef.body = _canon_block(fdef.body)
    finally:
        _FUNC_TAIL[0] = None
    # run C4..C6 to a fixed point is not needed: _canon_block recurses bottom-up
    return fdef


_KNOWN_CLASSES = set()


def canon_modules(modules):
    n = 0
    _KNOWN_CLASSES.clear()
    for m in modules.values():
        for node in ast.walk(m.tree):
            if isinstance(node, ast.ClassDef):
                _KNOWN_CLASSES.add(node.name)
    # a class name that is also bound as a variable somewhere is not a reliable constant
    for m in modules.values():
        for fn in ast.walk(m.tree):
            if not isinstance(fn, (ast.FunctionDef, ast.AsyncFunctionDef, ast.Lambda)):
                continue
            for node in ast.walk(fn):
                if isinstance(node, ast.Name) and isinstance(node.ctx, ast.Store) and node.id in _KNOWN_CLASSES:
                    _KNOWN_CLASSES.discard(node.id)
                if isinstance(node, ast.arg) and node.arg in _KNOWN_CLASSES:
                    _KNOWN_CLASSES.discard(node.arg)
    for m in modules.values():
        for node in ast.walk(m.tree):
            if isinstance(node, (ast.FunctionDef, ast.AsyncFunctionDef)):
                canon_function(node)
                n += 1
        ast.fix_missing_locations(m.tree)
    return n
