"""Canonical spelling of conditions and branch structure (applied to every function before the rules run).

All rewrites are semantics-preserving for every Python value (same evaluation order, same short-circuiting, same result
objects); they only pick one spelling among equivalent ones so that structural rules do not depend on style:

  C1  not (a in b) -> a not in b;  not (a == b) -> a != b;  not (a is b) -> a is not b; and the converses
  C2  not (a and b) -> (not a) or (not b);  not (a or b) -> (not a) and (not b)      [negation normal form]
  C3  x in [a, b] / x not in [a, b]  ->  tuple display (membership in a display literal)
  C4  if not c: A else: B  ->  if c: B else: A          (both branches non-empty, test is a plain `not`)
  C5  if a: (if b: S)      ->  if a and b: S            (no else on either, inner `if` is the only statement)
  C6  if c: ...exit  else: R  ->  if c: ...exit ; R     (the body always leaves: return/raise/continue/break)
  C7  x = x + k / x = x - k -> x += k / x -= k          (k a numeric constant: no aliasing difference)
  C8  isinstance(x, A) or isinstance(x, B) -> isinstance(x, (A, B))   (same x, adjacent operands)
  C9  'a' + 'b' -> 'ab'                                 (constant folding of string literals)
"""
import ast
import copy

_NEG = {ast.In: ast.NotIn, ast.NotIn: ast.In, ast.Eq: ast.NotEq, ast.NotEq: ast.Eq, ast.Is: ast.IsNot, ast.IsNot: ast.Is}


def _always_exits(stmts):
    if not stmts:
        return False
    last = stmts[-1]
    if isinstance(last, (ast.Return, ast.Raise, ast.Continue, ast.Break)):
        return True
    if isinstance(last, ast.If):
        return bool(last.orelse) and _always_exits(last.body) and _always_exits(last.orelse)
    return False


class _Expr(ast.NodeTransformer):
    def visit_UnaryOp(self, node):
        self.generic_visit(node)
        if isinstance(node.op, ast.Not):
            o = node.operand
            if isinstance(o, ast.Compare) and len(o.ops) == 1 and type(o.ops[0]) in _NEG:
                return ast.copy_location(ast.Compare(left=o.left, ops=[_NEG[type(o.ops[0])]()], comparators=o.comparators), node)
            if isinstance(o, ast.UnaryOp) and isinstance(o.op, ast.Not) and isinstance(o.operand, ast.UnaryOp) \
                    and isinstance(o.operand.op, ast.Not):
                return o.operand            # not not not x -> not x
            if isinstance(o, ast.BoolOp):
                new_op = ast.Or() if isinstance(o.op, ast.And) else ast.And()
                vals = [self.visit(ast.copy_location(ast.UnaryOp(op=ast.Not(), operand=v), v)) for v in o.values]
                return ast.copy_location(ast.BoolOp(op=new_op, values=vals), node)
        return node

    def visit_Compare(self, node):
        self.generic_visit(node)
        if len(node.ops) == 1 and isinstance(node.ops[0], (ast.In, ast.NotIn)) and isinstance(node.comparators[0], ast.List):
            c = node.comparators[0]
            node.comparators = [ast.copy_location(ast.Tuple(elts=c.elts, ctx=ast.Load()), c)]
        return node

    def visit_BoolOp(self, node):
        self.generic_visit(node)
        # flatten nested same-operator BoolOps (a and (b and c))
        vals = []
        for v in node.values:
            if isinstance(v, ast.BoolOp) and type(v.op) is type(node.op):
                vals.extend(v.values)
            else:
                vals.append(v)
        node.values = vals
        if isinstance(node.op, ast.Or):
            out = []
            for v in node.values:
                if out and self._isinst(v) and self._isinst(out[-1]) and ast.dump(v.args[0]) == ast.dump(out[-1].args[0]):
                    prev = out[-1]
                    classes = self._classes(prev.args[1]) + self._classes(v.args[1])
                    out[-1] = ast.copy_location(ast.Call(func=prev.func, args=[prev.args[0], ast.Tuple(elts=classes, ctx=ast.Load())],
                                                         keywords=[]), prev)
                else:
                    out.append(v)
            if len(out) == 1:
                return out[0]
            node.values = out
        return node

    @staticmethod
    def _isinst(v):
        return isinstance(v, ast.Call) and isinstance(v.func, ast.Name) and v.func.id == 'isinstance' and len(v.args) == 2 \
            and not v.keywords

    @staticmethod
    def _classes(e):
        return list(e.elts) if isinstance(e, ast.Tuple) else [e]

    def visit_BinOp(self, node):
        self.generic_visit(node)
        if isinstance(node.op, ast.Add) and isinstance(node.left, ast.Constant) and isinstance(node.right, ast.Constant) \
                and isinstance(node.left.value, str) and isinstance(node.right.value, str):
            return ast.copy_location(ast.Constant(node.left.value + node.right.value), node)
        return node

    def visit_IfExp(self, node):
        """C11: `a if X is X else b` -> a (a trivially decided test left behind by inlining a parametrised helper)."""
        self.generic_visit(node)
        t = node.test
        if isinstance(t, ast.Compare) and len(t.ops) == 1 and isinstance(t.left, ast.Name) and isinstance(t.comparators[0], ast.Name) \
                and t.left.id == t.comparators[0].id:
            if isinstance(t.ops[0], (ast.Is, ast.Eq)):
                return node.body
            if isinstance(t.ops[0], (ast.IsNot, ast.NotEq)):
                return node.orelse
        return node

    def visit_JoinedStr(self, node):
        """C10: f-string -> %-format with the same template (the form every rule about message / escape templates reads).
        Only simple fields: {x}, {x!r}, {x!s}, {x:<printf-like spec>}."""
        self.generic_visit(node)
        tmpl, vals = [], []
        for v in node.values:
            if isinstance(v, ast.Constant) and isinstance(v.value, str):
                tmpl.append(v.value.replace('%', '%%'))
            elif isinstance(v, ast.FormattedValue):
                spec = ''
                if v.format_spec is not None:
                    if isinstance(v.format_spec, ast.Constant) and isinstance(v.format_spec.value, str):
                        spec = v.format_spec.value      # (a constant-only nested JoinedStr was already folded)
                    elif isinstance(v.format_spec, ast.JoinedStr) and all(isinstance(x, ast.Constant) for x in v.format_spec.values):
                        spec = ''.join(x.value for x in v.format_spec.values)
                    else:
                        return node
                if v.conversion == ord('r') and not spec:
                    tmpl.append('%r')
                elif v.conversion in (-1, ord('s')) and not spec:
                    tmpl.append('%s')
                elif v.conversion == -1 and spec and spec[-1] in 'dxXofeEgGc' and all(c in '0123456789.+- #' for c in spec[:-1]):
                    tmpl.append('%' + spec)
                else:
                    return node
                vals.append(v.value)
            else:
                return node
        if not vals:
            return ast.copy_location(ast.Constant(''.join(tmpl).replace('%%', '%')), node)
        right = vals[0] if len(vals) == 1 and not isinstance(vals[0], ast.Tuple) else ast.Tuple(elts=vals, ctx=ast.Load())
        return ast.copy_location(ast.BinOp(left=ast.Constant(''.join(tmpl)), op=ast.Mod(), right=right), node)

    def visit_Lambda(self, node):
        return node


def _canon_block(stmts):
    out = []
    for s in stmts:
        if isinstance(s, (ast.FunctionDef, ast.AsyncFunctionDef, ast.ClassDef)):
            out.append(s)
            continue
        for sub in ('body', 'orelse', 'finalbody'):
            if isinstance(getattr(s, sub, None), list):
                setattr(s, sub, _canon_block(getattr(s, sub)))
        for h in getattr(s, 'handlers', []) or []:
            h.body = _canon_block(h.body)
        if isinstance(s, ast.If):
            # C4
            if s.body and s.orelse and isinstance(s.test, ast.UnaryOp) and isinstance(s.test.op, ast.Not) \
                    and not (len(s.orelse) == 1 and isinstance(s.orelse[0], ast.If) and not _always_exits(s.body)):
                s.test, s.body, s.orelse = s.test.operand, s.orelse, s.body
            # C5
            while (not s.orelse and len(s.body) == 1 and isinstance(s.body[0], ast.If) and not s.body[0].orelse):
                inner = s.body[0]
                vals = []
                for t in (s.test, inner.test):
                    if isinstance(t, ast.BoolOp) and isinstance(t.op, ast.And):
                        vals.extend(t.values)
                    else:
                        vals.append(t)
                s.test = ast.copy_location(ast.BoolOp(op=ast.And(), values=vals), s.test)
                s.body = inner.body
            # C6
            if s.orelse and _always_exits(s.body):
                tail = s.orelse
                s.orelse = []
                out.append(s)
                out.extend(tail)
                continue
        if isinstance(s, ast.Assign) and len(s.targets) == 1 and isinstance(s.value, ast.BinOp) \
                and isinstance(s.value.op, (ast.Add, ast.Sub)) and isinstance(s.value.right, ast.Constant) \
                and isinstance(s.value.right.value, (int, float)) and not isinstance(s.value.right.value, bool) \
                and isinstance(s.targets[0], (ast.Name, ast.Attribute)) \
                and ast.dump(s.value.left).replace('Load()', 'X').replace('Store()', 'X') == ast.dump(s.targets[0]).replace('Load()', 'X').replace('Store()', 'X'):
            s = ast.copy_location(ast.AugAssign(target=s.targets[0], op=s.value.op, value=s.value.right), s)
        out.append(s)
    return out


def canon_function(fdef):
    t = _Expr()
    fdef.body = [t.visit(s) for s in fdef.body]
    fdef.body = _canon_block(fdef.body)
    # run C4..C6 to a fixed point is not needed: _canon_block recurses bottom-up
    return fdef


def canon_modules(modules):
    n = 0
    for m in modules.values():
        for node in ast.walk(m.tree):
            if isinstance(node, (ast.FunctionDef, ast.AsyncFunctionDef)):
                canon_function(node)
                n += 1
        ast.fix_missing_locations(m.tree)
    return n
