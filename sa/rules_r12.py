"""Rules added in round 12.  Each states a necessary condition generally (never the edit).

R-ANALYZE-ADJACENT   analyze_scalar, interpreted abstractly over *two adjacent characters* (the per-character loop is run for
                     the first and then, with the state it left, for the second; position, length and all other characters
                     are unknown) and then through the code after the loop: a space followed by a line break leaves only the
                     double-quoted style, a line break followed by a space rules out the plain and the single-quoted styles,
                     a line break rules out the plain styles, '#' after a space rules out the plain styles (C02, C05, C06, C15).
"""
import ast

from . import charworld as CW
from .srcmodel import AnalysisError
from .rules_extra import _method, _plain_copy


BREAKS = ('\n', '\x85', ' ', ' ')


def _pass_stmts(loop, cvars, text, me, allow_unicode):
    """the body of the per-character loop as one pass for a given character (see R-ANALYZE-SPECIAL)."""
    class T(ast.NodeTransformer):
        def visit_Attribute(self, node):
            if node.attr == 'allow_unicode' and isinstance(node.value, ast.Name) and node.value.id == me \
                    and isinstance(node.ctx, ast.Load):
                return ast.Constant(allow_unicode)
            self.generic_visit(node)
            return node

        def visit_Assign(self, node):
            if len(node.targets) == 1 and isinstance(node.targets[0], ast.Name) and node.targets[0].id in cvars \
                    and isinstance(node.value, ast.Subscript) and isinstance(node.value.value, ast.Name) \
                    and node.value.value.id == text and isinstance(node.value.slice, ast.Name):
                return ast.copy_location(ast.Pass(), node)
            self.generic_visit(node)
            return node
    return [ast.fix_missing_locations(T().visit(_plain_copy(s))) for s in loop.body]


def _cursor_of(loop, cvars, text):
    """the name of the index variable of the character loop (ch = text[<index>]), or None."""
    for x in ast.walk(loop):
        if isinstance(x, ast.Assign) and len(x.targets) == 1 and isinstance(x.targets[0], ast.Name) \
                and x.targets[0].id in cvars and isinstance(x.value, ast.Subscript) \
                and isinstance(x.value.value, ast.Name) and x.value.value.id == text and isinstance(x.value.slice, ast.Name):
            return x.value.slice.id
    return None


def r_analyze_adjacent(ctx, repo):
    from . import rules_opts as RO
    rule = ctx.rule('R-ANALYZE-ADJACENT',
                    'analyze_scalar, interpreted over two adjacent characters with everything else unknown: space + break '
                    'leaves only the double-quoted style; break + space forbids plain and single-quoted; a break forbids the '
                    'plain styles; "#" after a space forbids the plain styles')
    f = _method(repo, 'emitter.Emitter', 'analyze_scalar')
    loop, cvars, flags = RO._scalar_analysis_parts(repo, f)
    body = f.node.body
    text = f.params[1] if len(f.params) > 1 else None
    me = f.params[0] if f.params else 'self'
    ret = None
    for s in body[body.index(loop) + 1:]:
        if isinstance(s, ast.Return) and isinstance(s.value, ast.Call) and \
                all(any(k.arg == w for k in s.value.keywords) for w in RO.PERMISSIONS):
            ret = s
    if ret is None:
        raise AnalysisError('analyze_scalar: the ScalarAnalysis(...) built after the loop was not found')
    pre = body[:body.index(loop)]
    tail = body[body.index(loop) + 1:body.index(ret)]
    kws = {k.arg: k.value for k in ret.value.keywords}
    cursor = _cursor_of(loop, cvars, text)
    cursors = {cursor} if cursor is not None else set()
    if isinstance(loop, ast.For):
        # for index in range(len(text)) / for index, ch in enumerate(text): the targets that are not the character
        cursors |= {x.id for x in ast.walk(loop.target) if isinstance(x, ast.Name) and x.id not in cvars}
        if loop.orelse:
            raise AnalysisError('analyze_scalar: the character loop has an else clause')

    def verdicts(chars, allow_unicode):
        """for the character sequence `chars` somewhere in the text: {permission: set of truth values over all paths}"""
        it = CW.Interp(repo, None, '￿', '<none>', None, budget=2000000)
        stmts = _pass_stmts(loop, cvars, text, me, allow_unicode)
        states = [st for kind, val, st in it.run_block(_plain_copy(pre), CW.State({}), 0) if kind == 'fall']
        if not states:
            raise AnalysisError('analyze_scalar: no path reaches the character loop')
        for i, c in enumerate(chars):
            nxt = []
            for st in states:
                st = st.copy()
                for v in cvars:
                    st.env[v] = CW.C(c)
                for cur in cursors:
                    # the first probed character may be anywhere; the second is not the first character of the text
                    st.env[cur] = CW.UNK if i == 0 else CW.POS
                for kind, val, s2 in it.run_block(stmts, st, 0):
                    if kind in ('fall', 'continue'):
                        nxt.append(s2)
                    elif kind == 'break':
                        raise AnalysisError('analyze_scalar: the character loop can be left early')
            states = _dedupe(nxt)
            if not states:
                raise AnalysisError('analyze_scalar: no path through a pass of the character loop for %r' % c)
        out = {w: set() for w in RO.PERMISSIONS}
        for st in states:
            for kind, val, s2 in it.run_block(_plain_copy(tail), st.copy(), 0):
                if kind != 'fall':
                    continue
                for w in RO.PERMISSIONS:
                    for v, s3 in it.ev(kws[w], s2, 0):
                        out[w].add(CW.truth(v))
        return out

    ALL = RO.PERMISSIONS
    PLAIN = ('allow_flow_plain', 'allow_block_plain')
    obligations = []
    for b in BREAKS:
        obligations.append(((' ', b), ALL, 'a space before the line break %r is kept only by the double-quoted style (folding '
                                           'and the block writers drop or move it)' % b))
        obligations.append(((b, ' '), PLAIN + ('allow_single_quoted',),
                            'a space after the line break %r is indentation to the plain and single-quoted readers' % b))
        obligations.append((('a', b), PLAIN, 'a plain scalar with the line break %r does not read back as written' % b))
    obligations.append(((' ', '#'), PLAIN, '" #" starts a comment in a plain scalar'))
    # sanity of the interpretation: two letters restrict nothing
    try:
        base = verdicts(('a', 'b'), True)
    except CW.Budget:
        raise AnalysisError('analyze_scalar: interpretation budget exceeded')
    if any(True not in base[w] for w in ALL):
        raise AnalysisError('analyze_scalar: the two-character interpretation cannot show that "ab" may be written in every style '
                            '(the classification is not understood)')
    n = 0
    for chars, must_forbid, why in obligations:
        for au in (True, False):
            if not au and any(ord(c) > 0x7e for c in chars):
                continue        # without allow_unicode these are special characters anyway (R-ANALYZE-SPECIAL)
            try:
                got = verdicts(chars, au)
            except CW.Budget:
                raise AnalysisError('analyze_scalar: interpretation budget exceeded')
            bad = [w for w in must_forbid if got[w] != {False}]
            n += 1
            if not bad:
                rule.ok(f.loc(ret), 'text containing %r, allow_unicode=%s: %s false on every path'
                        % (''.join(chars), au, ', '.join(x.replace('allow_', '') for x in must_forbid)))
            if bad:
                rule.fail('%s|adjacent|%s|%s' % (f.qualname, '+'.join('%04x' % ord(c) for c in chars), ','.join(bad)),
                          f.module.rel, ret.lineno, f.qualname, 'ScalarAnalysis(%s=...)' % bad[0],
                          'for a text containing %r (allow_unicode=%s) some path leaves %s possibly true: %s'
                          % (''.join(chars), au, ', '.join(bad), why))
                break
    ctx.extra['R-ANALYZE-ADJACENT'] = {'scenarios': n, 'function': f.qualname,
                                       'method': 'two passes of the character loop + the code after it, three-valued'}
    return rule


def _dedupe(states):
    seen, out = set(), []
    for s in states:
        try:
            key = (frozenset(s.env.items()), s.progress, s.moved)
        except TypeError:
            key = None
        if key is not None:
            if key in seen:
                continue
            seen.add(key)
        out.append(s)
    return out


# ------------------------------------------------------------------------------------- R-FOREIGN-NODE-LISTS-INTACT
MIN_MUTATIONS = 6
MUTATORS = {'append', 'extend', 'insert', 'pop', 'remove', 'reverse', 'sort', 'clear', '__setitem__', '__delitem__',
            '__iadd__'}


def r_foreign_node_lists_intact(ctx, repo, modules=('constructor',)):
    """A constructor function may edit the child list of the node it was handed (flatten_mapping rewrites node.value); the
    child list of any *other* node - a merge source, an alias target - is shared by every place that refers to that node and
    is only read.  May-alias analysis per function, flow-insensitive, two levels: F0 = a local that may be the `.value` list of
    a node other than the function's own node parameter; F1 = a local container that may hold such lists."""
    from .srcmodel import walk_function
    rule = ctx.rule('R-FOREIGN-NODE-LISTS-INTACT',
                    'no constructor function mutates in place a list that may be the .value of a node other than the node it was '
                    'called for (merge sources and alias targets are shared; their child lists are read, never edited)')
    n = 0
    for f in repo.all_functions(list(modules)):
        if f.cls is None or len(f.params) < 2:
            continue
        own = f.params[1]
        stmts = list(walk_function(f.node))

        def is_foreign_value(e, F0):
            """e may evaluate to the child list of a foreign node"""
            if isinstance(e, ast.Attribute) and e.attr == 'value' and isinstance(e.ctx, ast.Load):
                return not (isinstance(e.value, ast.Name) and e.value.id == own)
            if isinstance(e, ast.Name):
                return e.id in F0
            if isinstance(e, ast.IfExp):
                return is_foreign_value(e.body, F0) or is_foreign_value(e.orelse, F0)
            if isinstance(e, ast.BoolOp):
                return any(is_foreign_value(v, F0) for v in e.values)
            if isinstance(e, ast.NamedExpr):
                return is_foreign_value(e.value, F0)
            return False

        def holds_foreign(e, F0, F1):
            if isinstance(e, ast.Name):
                return e.id in F1
            if isinstance(e, (ast.List, ast.Tuple)):
                return any(is_foreign_value(x, F0) for x in e.elts)
            if isinstance(e, ast.ListComp):
                return is_foreign_value(e.elt, F0) or _comp_over(e, F0, F1)
            if isinstance(e, ast.Call) and isinstance(e.func, ast.Name) and e.func.id in ('reversed', 'list', 'tuple', 'iter') \
                    and e.args:
                return holds_foreign(e.args[0], F0, F1)
            return False

        def _comp_over(e, F0, F1):
            return False

        # only scalar-free functions matter: `.value` of a ScalarNode is a str (immutable); every mutation below is on lists
        F0, F1 = set(), set()
        changed = True
        while changed:
            changed = False
            for s in stmts:
                if isinstance(s, ast.Assign):
                    for t in s.targets:
                        if isinstance(t, ast.Name):
                            if is_foreign_value(s.value, F0) and t.id not in F0:
                                F0.add(t.id); changed = True
                            if holds_foreign(s.value, F0, F1) and t.id not in F1:
                                F1.add(t.id); changed = True
                elif isinstance(s, ast.NamedExpr) and isinstance(s.target, ast.Name):
                    if is_foreign_value(s.value, F0) and s.target.id not in F0:
                        F0.add(s.target.id); changed = True
                elif isinstance(s, ast.For) and isinstance(s.target, ast.Name):
                    if holds_foreign(s.iter, F0, F1) and s.target.id not in F0:
                        F0.add(s.target.id); changed = True
                elif isinstance(s, ast.Call) and isinstance(s.func, ast.Attribute) and isinstance(s.func.value, ast.Name) \
                        and s.func.attr in ('append', 'insert') and s.args:
                    if is_foreign_value(s.args[-1], F0) and s.func.value.id not in F1:
                        F1.add(s.func.value.id); changed = True
        # sinks
        n_f, failed_f = n, rule.failed
        for s in stmts:
            target, how = None, None
            if isinstance(s, ast.Call) and isinstance(s.func, ast.Attribute) and s.func.attr in MUTATORS:
                target, how = s.func.value, '.%s(...)' % s.func.attr
            elif isinstance(s, ast.AugAssign):
                target, how = s.target, 'augmented assignment'
                if isinstance(target, ast.Subscript):
                    target = target.value
            elif isinstance(s, ast.Delete):
                for t in s.targets:
                    if isinstance(t, ast.Subscript) and is_foreign_value(t.value, F0):
                        target, how = t.value, 'del ...[...]'
            elif isinstance(s, ast.Assign):
                for t in s.targets:
                    if isinstance(t, ast.Subscript) and is_foreign_value(t.value, F0):
                        target, how = t.value, 'item assignment'
            if target is None:
                continue
            n += 1
            if is_foreign_value(target, F0):
                from .astutil import anon_text
                rule.fail('%s|foreign-list-mutated|%s' % (f.qualname, how), f.module.rel, getattr(s, 'lineno', f.node.lineno),
                          f.qualname, norm_text(s),
                          'the list mutated here (%s) may be the child list of a node other than %r - a merge source or an alias '
                          'target, which every other reference to that node shares: a later use of the same anchor sees the edit'
                          % (how, own))
        if n > n_f and rule.failed == failed_f:
            rule.ok(f.loc(), '%s: %d in-place mutations, none on a list that may belong to a node other than %r (foreign lists: %s)'
                    % (f.name, n - n_f, own, ', '.join(sorted(F0)) or '-'))
    if n < MIN_MUTATIONS:
        raise AnalysisError('R-FOREIGN-NODE-LISTS-INTACT examined %d in-place mutations in the constructor, fewer than %d: the '
                            'rule no longer matches the code it was written for' % (n, MIN_MUTATIONS))
    ctx.extra['R-FOREIGN-NODE-LISTS-INTACT'] = {'in_place_mutations_examined': n}
    return rule


def norm_text(s):
    from .srcmodel import norm
    try:
        return norm(s).split('\n')[0][:80]
    except Exception:
        return type(s).__name__


# ------------------------------------------------------------------------------------- R-CLASS-STATE-WRITERS-OFFLINE
def r_class_state_writers_offline(ctx, repo, modules=None):
    """Class-level state of the loader / dumper classes is written by classmethods (the add_* registrars).  None of them may be
    reachable from code that runs while a document is loaded or dumped (instance methods): a classmethod called from there
    that stores on `cls` keeps a result of one call where later calls and other classes find it (a derived cache goes stale
    when a base class registers later; a memo shared through the MRO leaks between sibling classes)."""
    from . import astutil as A
    from .srcmodel import walk_function
    rule = ctx.rule('R-CLASS-STATE-WRITERS-OFFLINE',
                    'a classmethod that stores on its class (attribute, item or container reached through cls) is never called - '
                    'directly or through other classmethods - from an instance method: class-level state changes only by explicit '
                    'registration, never as a side effect of loading or dumping')
    funcs = [f for f in repo.all_functions(list(modules) if modules else None)] if modules else list(repo.all_functions())
    cms = [f for f in funcs if f.cls is not None and f.is_classmethod and f.params]

    def writes_class(f):
        c = f.params[0]
        aliases = {c}
        # locals that may hold a container reached from the class: x = cls.attr / cls.__dict__.get(..) / vars(cls)[..]
        reach = set()
        for s in walk_function(f.node):
            if isinstance(s, ast.Assign):
                v = s.value
                rooted = any(isinstance(x, ast.Name) and x.id == c for x in ast.walk(v)) and \
                    isinstance(v, (ast.Attribute, ast.Subscript, ast.Call)) and not \
                    (isinstance(v, ast.Call) and isinstance(v.func, ast.Attribute) and v.func.attr in ('copy',)) and not \
                    (isinstance(v, ast.Call) and isinstance(v.func, ast.Name) and v.func.id in ('dict', 'list', 'sorted', 'tuple', 'len', 'isinstance', 'issubclass', 'getattr', 'hasattr'))
                for t in s.targets:
                    if isinstance(t, ast.Name) and rooted:
                        reach.add(t.id)
                    if isinstance(t, ast.Attribute) and isinstance(t.value, ast.Name) and t.value.id == c and len(s.targets) > 1:
                        for t2 in s.targets:
                            if isinstance(t2, ast.Name):
                                reach.add(t2.id)
        for mu in A.find_mutations(f.node):
            root = mu.root if getattr(mu, 'root', None) is not None else mu.receiver
            tgt = mu.receiver
            if mu.kind in ('rebind', 'augassign') and isinstance(tgt, ast.Attribute) and isinstance(tgt.value, ast.Name) \
                    and tgt.value.id == c:
                return mu
            if mu.kind not in ('rebind',):
                r = root
                while isinstance(r, (ast.Attribute, ast.Subscript, ast.Call)):
                    r = r.value if not isinstance(r, ast.Call) else r.func
                if isinstance(r, ast.Name) and (r.id == c or r.id in reach):
                    return mu
        for call in A.func_calls(f.node):
            if isinstance(call.func, ast.Name) and call.func.id == 'setattr' and call.args and isinstance(call.args[0], ast.Name) \
                    and call.args[0].id == c:
                class M:
                    node = call
                    stmt = call
                return M
        return None
    direct = {}
    for f in cms:
        mu = writes_class(f)
        if mu is not None:
            direct[f] = mu
    if len(direct) < 4:
        raise AnalysisError('R-CLASS-STATE-WRITERS-OFFLINE: only %d classmethods that store on their class found (the six add_* '
                            'registrars were confirmed by reading)' % len(direct))
    writer_names = {f.name for f in direct}
    # classmethods calling writers are writers too
    changed = True
    while changed:
        changed = False
        for f in cms:
            if f.name in writer_names:
                continue
            for call in A.func_calls(f.node):
                if isinstance(call.func, ast.Attribute) and call.func.attr in writer_names:
                    writer_names.add(f.name)
                    changed = True
                    break
    meta = set()
    for q, ci in (repo.classes.items() if isinstance(repo.classes, dict) else [(c.qualname, c) for c in repo.classes]):
        if any(isinstance(b, ast.Name) and b.id == 'type' for b in ci.base_exprs):
            meta.add(ci.name)
    n = 0
    for g in funcs:
        if g.cls is None or g.is_classmethod:
            continue
        cname = g.cls.name if hasattr(g.cls, 'name') else str(g.cls)
        if cname in meta or g.name in ('__init_subclass__',):
            continue
        for call in A.func_calls(g.node):
            if isinstance(call.func, ast.Attribute) and call.func.attr in writer_names:
                n += 1
                w = [f for f in direct if f.name == call.func.attr]
                what = w[0].qualname if w else call.func.attr
                rule.fail('%s|calls-class-writer|%s' % (g.qualname, call.func.attr), g.module.rel, call.lineno, g.qualname,
                          norm_text(call),
                          '%s runs while a document is loaded / dumped and calls the classmethod %s, which stores on the class: the '
                          'class-level state then depends on what was loaded or dumped before, is inherited by subclasses through '
                          'attribute lookup and is not refreshed when a base class registers something later' % (g.qualname, what))
    if not rule.failed:
        callers = len([g for g in funcs if g.cls is not None and not g.is_classmethod])
        for f in sorted(direct, key=lambda f: f.qualname):
            rule.ok(f.loc(), '%s stores on its class; none of the %d instance methods of the package calls it' % (f.qualname, callers))
    return rule


# ------------------------------------------------------------------------------------- R-MODE-FLAG-RESTORED
def r_mode_flag_restored(ctx, repo, modules=('constructor', 'representer')):
    """construct_object / represent_data re-enter themselves for child nodes.  An instance attribute that such a function sets
    to a boolean constant and stores again later is a mode switched on for the duration of the call: the later store must put
    back the value saved before the first store (a local bound from the attribute), never a constant - otherwise an inner call
    that finishes switches the mode off for the rest of the enclosing one."""
    from .srcmodel import walk_function, norm
    rule = ctx.rule('R-MODE-FLAG-RESTORED',
                    'an instance attribute set to a boolean constant and stored again later in the same re-entrant function is '
                    'restored from a local that saved its previous value')
    n = 0
    for f in repo.all_functions(list(modules)):
        if f.cls is None or not f.params:
            continue
        me = f.params[0]
        order = {}

        def number(stmts):
            for st in stmts:
                order[id(st)] = len(order)
                for fld in ('body', 'orelse', 'finalbody'):
                    sub = getattr(st, fld, None)
                    if isinstance(sub, list) and not isinstance(st, (ast.FunctionDef, ast.ClassDef, ast.Lambda)):
                        number(sub)
                for h in getattr(st, 'handlers', []) or []:
                    number(h.body)
        number(f.node.body)
        stores = {}
        all_assigns = [s for s in walk_function(f.node) if isinstance(s, ast.Assign) and id(s) in order]
        for s in all_assigns:
            for t in s.targets:
                if isinstance(t, ast.Attribute) and isinstance(t.value, ast.Name) and t.value.id == me:
                    stores.setdefault(t.attr, []).append(s)
        for attr, ss in sorted(stores.items()):
            ss.sort(key=lambda s: order[id(s)])
            firsts = [s for s in ss if isinstance(s.value, ast.Constant) and isinstance(s.value.value, bool)]
            if len(ss) < 2 or not firsts or ss[0] is not firsts[0]:
                continue
            saved = set()
            for s in all_assigns:
                if len(s.targets) == 1 and isinstance(s.targets[0], ast.Name) \
                        and isinstance(s.value, ast.Attribute) and s.value.attr == attr and isinstance(s.value.value, ast.Name) \
                        and s.value.value.id == me and order[id(s)] < order[id(ss[0])]:
                    saved.add(s.targets[0].id)
            n += 1
            bad = [s for s in ss[1:] if not (isinstance(s.value, ast.Name) and s.value.id in saved)]
            if bad:
                rule.fail('%s|%s|not-restored' % (f.qualname, attr), f.module.rel, bad[0].lineno, f.qualname, norm_text(bad[0]),
                          '%s switches %s.%s to %s for the duration of the call and later stores %s instead of the value it had '
                          'before: the function re-enters itself for child nodes, so an inner call that finishes changes the mode '
                          'of the enclosing one (objects constructed / represented after it are handled in the wrong mode)'
                          % (f.qualname, me, attr, norm(ss[0].value), norm(bad[0].value)[:30]))
            else:
                rule.ok(f.loc(ss[0]), '%s.%s set to %s and restored from %s' % (me, attr, norm(ss[0].value), ', '.join(sorted(saved))))
    if n < 1:
        raise AnalysisError('R-MODE-FLAG-RESTORED: no temporarily switched mode attribute found (construct_object sets deep_construct)')
    return rule


# ------------------------------------------------------------------------------------- R-EVENT-MARKS-FROM-TOKENS
def r_event_marks_from_tokens(ctx, repo):
    """Every position an event of the parser carries comes from a token the parser holds in that very step (peek_token /
    get_token, or a mark handed down as an argument).  A mark read from an attribute of the parser is a position remembered
    from an earlier step: across documents it points back into text that was already delivered (marks move backwards)."""
    from .srcmodel import walk_function, norm
    rule = ctx.rule('R-EVENT-MARKS-FROM-TOKENS',
                    'the marks given to the parser\'s events are computed from tokens obtained in the same call (or from a mark '
                    'parameter), never read from the parser\'s own attributes')
    c = repo.cls('parser.Parser')
    n = 0
    for f in c.methods.values():
        if not f.params:
            continue
        me = f.params[0]
        assigns = {}
        for s in walk_function(f.node):
            if isinstance(s, ast.Assign):
                for t in s.targets:
                    elts = t.elts if isinstance(t, (ast.Tuple, ast.List)) else [t]
                    for x in elts:
                        if isinstance(x, ast.Name):
                            assigns.setdefault(x.id, []).append(s.value)

        def state_reads(e, seen):
            """attribute reads on self that are not the callee of a call, in e and in everything its locals are bound to"""
            out = []
            callees = {id(x.func) for x in ast.walk(e) if isinstance(x, ast.Call)}
            for x in ast.walk(e):
                if isinstance(x, ast.Attribute) and isinstance(x.value, ast.Name) and x.value.id == me and id(x) not in callees:
                    out.append(x)
                elif isinstance(x, ast.Name) and x.id in assigns and x.id not in seen:
                    seen.add(x.id)
                    for v in assigns[x.id]:
                        out.extend(state_reads(v, seen))
            return out
        n0, failed0 = n, rule.failed
        for call in walk_function(f.node):
            if not (isinstance(call, ast.Call) and isinstance(call.func, ast.Name) and call.func.id.endswith('Event')):
                continue
            marks = [k.value for k in call.keywords if k.arg in ('start_mark', 'end_mark')]
            # positional marks: the last two positional arguments of every event class are start_mark, end_mark unless given
            # by keyword; events.py fixes the order (anchor/tag/implicit/value first)
            pos = [a for a in call.args]
            marks += pos[-2:] if len(pos) >= 2 and not marks else []
            for mk in marks:
                n += 1
                bad = state_reads(mk, set())
                if bad:
                    rule.fail('%s|%s|stale-mark|%s' % (f.qualname, call.func.id, bad[0].attr), f.module.rel, call.lineno, f.qualname,
                              norm_text(call),
                              'a mark of this %s can come from %s.%s, parser state written in an earlier step: the event then points '
                              'at text of an earlier node or document instead of at its own tokens (positions are no longer monotone)'
                              % (call.func.id, me, bad[0].attr))
                    break
        if n > n0 and rule.failed == failed0:
            rule.ok(f.loc(), '%s: %d event marks, all computed from tokens of the same step or a mark parameter' % (f.name, n - n0))
    if n < 20:
        raise AnalysisError('R-EVENT-MARKS-FROM-TOKENS: only %d event marks examined in the parser' % n)
    ctx.extra['R-EVENT-MARKS-FROM-TOKENS'] = {'event_marks_examined': n}
    return rule


# ------------------------------------------------------------------------------------- R-COMPONENT-METHODS-DISJOINT
# The binding's emitter replaces the Python serializer's stream methods on purpose (CEmitter precedes Serializer in the C dumpers).
SHADOW_OK = {('cyaml', 'open'), ('cyaml', 'close'), ('cyaml', 'serialize')}


def r_component_methods_disjoint(ctx, repo):
    """The shipped loaders and dumpers are assembled from component classes by multiple inheritance; each component calls its own
    methods through `self`.  If two components of one assembled class define a method of the same name with different bodies,
    the one that comes first in the MRO silently replaces the other for *both* components (a per-document reset of the
    serializer that is really the emitter's; a dispose() that no longer reaches the parser's)."""
    rule = ctx.rule('R-COMPONENT-METHODS-DISJOINT',
                    'no two component classes of a shipped loader / dumper define the same method (other than __init__, which each '
                    'assembled class calls explicitly per component) with different bodies')
    n = 0
    for q, c in sorted((c.qualname, c) for c in (repo.classes.values() if isinstance(repo.classes, dict) else repo.classes)):
        mod = q.split('.')[0]
        if mod not in ('loader', 'dumper', 'cyaml'):
            continue
        bases = [b for b in c.bases if hasattr(b, 'methods')]
        if len(bases) < 2:
            continue
        owners = {}
        for b in bases:
            seen = set()
            for k in (b.mro or [b]):
                if not hasattr(k, 'methods'):
                    continue
                for name, f in k.methods.items():
                    if name in seen:
                        continue
                    seen.add(name)
                    owners.setdefault(name, []).append((b, f))
        n += 1
        bad = None
        for name, lst in sorted(owners.items()):
            if len(lst) < 2 or name == '__init__' or (mod, name) in SHADOW_OK:
                continue
            bodies = {ast.dump(ast.Module(body=f.node.body, type_ignores=[])) for _, f in lst}
            if len(bodies) > 1:
                bad = (name, lst)
                break
        if bad:
            name, lst = bad
            first = lst[0][1]
            rule.fail('%s|shadowed|%s' % (q, name), c.module.rel, c.node.lineno, q, 'class %s(%s)' % (c.name, ', '.join(b.name for b in bases)),
                      '%s is defined by %s: in %s the definition of %s comes first in the MRO and is the one every component calls '
                      'through self, so the other component runs code that is not its own' %
                      (name, ' and '.join(f.qualname for _, f in lst), q, first.qualname))
        else:
            rule.ok('%s:%d' % (c.module.rel, c.node.lineno), '%s: the methods of its %d components are pairwise distinct' % (q, len(bases)))
    if n < 8:
        raise AnalysisError('R-COMPONENT-METHODS-DISJOINT: only %d assembled classes found (13 confirmed)' % n)
    return rule


# ------------------------------------------------------------------------------------- R-UPDATE-POSTCONDITION
def r_update_postcondition(ctx, repo):
    """Reader.update(length) is the one place that makes look-ahead available: peek / prefix / forward index the buffer without a
    bounds test after calling it.  So on every normal way out of update() either the buffer holds `length` characters (the
    satisfied edge of a comparison of len(self.buffer) with the parameter), or the end-of-input sentinel '\\0' has been appended,
    or input had ended before (raw_buffer is None).  A stream may return fewer items than asked from any read(), so a single
    refill - however large - establishes none of these."""
    from .cfg import CFG
    from .srcmodel import norm
    rule = ctx.rule('R-UPDATE-POSTCONDITION',
                    'every normal exit of Reader.update(length) is preceded by len(self.buffer) >= length, by the appended NUL '
                    'sentinel, or by the test that input had already ended')
    f = _method(repo, 'reader.Reader', 'update')
    if len(f.params) < 2:
        raise AnalysisError('Reader.update: no length parameter')
    me, length = f.params[0], f.params[1]
    cfg = CFG(f.node)
    good_nodes, good_edges = [], []
    for nd in cfg.nodes:
        a = getattr(nd, 'ast', None)
        if nd.kind == 'stmt' and isinstance(a, (ast.AugAssign, ast.Assign)):
            tgt = a.target if isinstance(a, ast.AugAssign) else a.targets[0]
            if isinstance(tgt, ast.Attribute) and tgt.attr == 'buffer' and isinstance(tgt.value, ast.Name) and tgt.value.id == me \
                    and any(isinstance(x, ast.Constant) and x.value == '\0' for x in ast.walk(a.value)):
                good_nodes.append(nd)
        elif nd.kind == 'test' and isinstance(a, ast.Compare) and len(a.ops) == 1:
            l, r, op = a.left, a.comparators[0], a.ops[0]
            def is_len(e):
                return isinstance(e, ast.Call) and isinstance(e.func, ast.Name) and e.func.id == 'len' and len(e.args) == 1 \
                    and isinstance(e.args[0], ast.Attribute) and e.args[0].attr == 'buffer' and isinstance(e.args[0].value, ast.Name) \
                    and e.args[0].value.id == me
            def is_length(e):
                return isinstance(e, ast.Name) and e.id == length
            sat = None
            if is_len(l) and is_length(r):
                sat = {ast.Lt: False, ast.GtE: True}.get(type(op))
            elif is_length(l) and is_len(r):
                sat = {ast.Gt: False, ast.LtE: True}.get(type(op))
            if sat is not None:
                good_edges.append((nd, sat))
            # input already ended: self.raw_buffer is None
            if isinstance(l, ast.Attribute) and l.attr == 'raw_buffer' and isinstance(r, ast.Constant) and r.value is None:
                s2 = {ast.Is: True, ast.IsNot: False, ast.Eq: True, ast.NotEq: False}.get(type(op))
                if s2 is not None:
                    good_edges.append((nd, s2))
    if not good_edges:
        raise AnalysisError('Reader.update: no comparison of len(self.buffer) with the requested length found')
    r = cfg.reach([cfg.entry], blocked=good_nodes, blocked_edges=good_edges, follow_exc=False)
    if any(x in r for x in cfg.normal_exits()):
        rule.fail('%s|exit-without-lookahead' % f.qualname, f.module.rel, f.node.lineno, f.qualname, 'def update(self, %s)' % length,
                  'update() can return without the buffer holding the requested %s characters and without the NUL sentinel: after a '
                  'short read() peek / prefix / forward index past the end of the buffer (IndexError) or see a truncated window '
                  '(spurious ScannerError on a valid document)' % length)
    else:
        rule.ok(f.loc(), 'every normal exit passes len(self.buffer) >= %s, the sentinel or the ended-input test (%d satisfied edges, '
                         '%d sentinel stores)' % (length, len(good_edges), len(good_nodes)))
    return rule
