"""Rules added in round 12.  Each states a necessary condition generally (never the edit).

R-ANALYZE-ADJACENT   analyze_scalar, interpreted abstractly over *two adjacent characters* (the per-character loop is run for
                     the first and then, with the state it left, for the second; position, length and all other characters
                     are unknown) and then through the code after the loop: a space followed by a line break leaves only the
                     double-quoted style, a line break followed by a space rules out the plain and the single-quoted styles,
                     a line break rules out the plain styles, '#' after a space rules out the plain styles (C02, C05, C06, C15).
"""
import ast

from . import charworld as CW
from .srcmodel import AnalysisError
from .rules_extra import _method, _plain_copy


BREAKS = ('\n', '\x85', ' ', ' ')


def _pass_stmts(loop, cvars, text, me, allow_unicode):
    """the body of the per-character loop as one pass for a given character (see R-ANALYZE-SPECIAL)."""
    class T(ast.NodeTransformer):
        def visit_Attribute(self, node):
            if node.attr == 'allow_unicode' and isinstance(node.value, ast.Name) and node.value.id == me \
                    and isinstance(node.ctx, ast.Load):
                return ast.Constant(allow_unicode)
            self.generic_visit(node)
            return node

        def visit_Assign(self, node):
            if len(node.targets) == 1 and isinstance(node.targets[0], ast.Name) and node.targets[0].id in cvars \
                    and isinstance(node.value, ast.Subscript) and isinstance(node.value.value, ast.Name) \
                    and node.value.value.id == text and isinstance(node.value.slice, ast.Name):
                return ast.copy_location(ast.Pass(), node)
            self.generic_visit(node)
            return node
    return [ast.fix_missing_locations(T().visit(_plain_copy(s))) for s in loop.body]


def _cursor_of(loop, cvars, text):
    """the name of the index variable of the character loop (ch = text[<index>]), or None."""
    for x in ast.walk(loop):
        if isinstance(x, ast.Assign) and len(x.targets) == 1 and isinstance(x.targets[0], ast.Name) \
                and x.targets[0].id in cvars and isinstance(x.value, ast.Subscript) \
                and isinstance(x.value.value, ast.Name) and x.value.value.id == text and isinstance(x.value.slice, ast.Name):
            return x.value.slice.id
    return None


def r_analyze_adjacent(ctx, repo):
    from . import rules_opts as RO
    rule = ctx.rule('R-ANALYZE-ADJACENT',
                    'analyze_scalar, interpreted over two adjacent characters with everything else unknown: space + break '
                    'leaves only the double-quoted style; break + space forbids plain and single-quoted; a break forbids the '
                    'plain styles; "#" after a space forbids the plain styles')
    f = _method(repo, 'emitter.Emitter', 'analyze_scalar')
    loop, cvars, flags = RO._scalar_analysis_parts(repo, f)
    body = f.node.body
    text = f.params[1] if len(f.params) > 1 else None
    me = f.params[0] if f.params else 'self'
    ret = None
    for s in body[body.index(loop) + 1:]:
        if isinstance(s, ast.Return) and isinstance(s.value, ast.Call) and \
                all(any(k.arg == w for k in s.value.keywords) for w in RO.PERMISSIONS):
            ret = s
    if ret is None:
        raise AnalysisError('analyze_scalar: the ScalarAnalysis(...) built after the loop was not found')
    pre = body[:body.index(loop)]
    tail = body[body.index(loop) + 1:body.index(ret)]
    kws = {k.arg: k.value for k in ret.value.keywords}
    cursor = _cursor_of(loop, cvars, text)
    cursors = {cursor} if cursor is not None else set()
    if isinstance(loop, ast.For):
        # for index in range(len(text)) / for index, ch in enumerate(text): the targets that are not the character
        cursors |= {x.id for x in ast.walk(loop.target) if isinstance(x, ast.Name) and x.id not in cvars}
        if loop.orelse:
            raise AnalysisError('analyze_scalar: the character loop has an else clause')

    def verdicts(chars, allow_unicode):
        """for the character sequence `chars` somewhere in the text: {permission: set of truth values over all paths}"""
        it = CW.Interp(repo, None, '￿', '<none>', None, budget=2000000)
        stmts = _pass_stmts(loop, cvars, text, me, allow_unicode)
        states = [st for kind, val, st in it.run_block(_plain_copy(pre), CW.State({}), 0) if kind == 'fall']
        if not states:
            raise AnalysisError('analyze_scalar: no path reaches the character loop')
        for i, c in enumerate(chars):
            nxt = []
            for st in states:
                st = st.copy()
                for v in cvars:
                    st.env[v] = CW.C(c)
                for cur in cursors:
                    # the first probed character may be anywhere; the second is not the first character of the text
                    st.env[cur] = CW.UNK if i == 0 else CW.POS
                for kind, val, s2 in it.run_block(stmts, st, 0):
                    if kind in ('fall', 'continue'):
                        nxt.append(s2)
                    elif kind == 'break':
                        raise AnalysisError('analyze_scalar: the character loop can be left early')
            states = _dedupe(nxt)
            if not states:
                raise AnalysisError('analyze_scalar: no path through a pass of the character loop for %r' % c)
        out = {w: set() for w in RO.PERMISSIONS}
        for st in states:
            for kind, val, s2 in it.run_block(_plain_copy(tail), st.copy(), 0):
                if kind != 'fall':
                    continue
                for w in RO.PERMISSIONS:
                    for v, s3 in it.ev(kws[w], s2, 0):
                        out[w].add(CW.truth(v))
        return out

    ALL = RO.PERMISSIONS
    PLAIN = ('allow_flow_plain', 'allow_block_plain')
    obligations = []
    for b in BREAKS:
        obligations.append(((' ', b), ALL, 'a space before the line break %r is kept only by the double-quoted style (folding '
                                           'and the block writers drop or move it)' % b))
        obligations.append(((b, ' '), PLAIN + ('allow_single_quoted',),
                            'a space after the line break %r is indentation to the plain and single-quoted readers' % b))
        obligations.append((('a', b), PLAIN, 'a plain scalar with the line break %r does not read back as written' % b))
    obligations.append(((' ', '#'), PLAIN, '" #" starts a comment in a plain scalar'))
    # sanity of the interpretation: two letters restrict nothing
    try:
        base = verdicts(('a', 'b'), True)
    except CW.Budget:
        raise AnalysisError('analyze_scalar: interpretation budget exceeded')
    if any(True not in base[w] for w in ALL):
        raise AnalysisError('analyze_scalar: the two-character interpretation cannot show that "ab" may be written in every style '
                            '(the classification is not understood)')
    n = 0
    for chars, must_forbid, why in obligations:
        for au in (True, False):
            if not au and any(ord(c) > 0x7e for c in chars):
                continue        # without allow_unicode these are special characters anyway (R-ANALYZE-SPECIAL)
            try:
                got = verdicts(chars, au)
            except CW.Budget:
                raise AnalysisError('analyze_scalar: interpretation budget exceeded')
            bad = [w for w in must_forbid if got[w] != {False}]
            n += 1
            if bad:
                rule.fail('%s|adjacent|%s|%s' % (f.qualname, '+'.join('%04x' % ord(c) for c in chars), ','.join(bad)),
                          f.module.rel, ret.lineno, f.qualname, 'ScalarAnalysis(%s=...)' % bad[0],
                          'for a text containing %r (allow_unicode=%s) some path leaves %s possibly true: %s'
                          % (''.join(chars), au, ', '.join(bad), why))
                break
    if not rule.failed:
        rule.ok(f.loc(ret), '%d two-character scenarios: the style permissions are withdrawn on every path' % n)
    return rule


def _dedupe(states):
    seen, out = set(), []
    for s in states:
        try:
            key = (frozenset(s.env.items()), s.progress, s.moved)
        except TypeError:
            key = None
        if key is not None:
            if key in seen:
                continue
            seen.add(key)
        out.append(s)
    return out
