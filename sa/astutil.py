"""Small AST helpers shared by the rules."""
import ast

from .srcmodel import attr_chain, norm, walk_function

MUTATORS = {'append', 'extend', 'insert', 'pop', 'remove', 'clear', 'update', 'setdefault',
            'popitem', 'sort', 'reverse', 'add', 'discard', '__setitem__', '__delitem__',
            'difference_update', 'intersection_update', 'symmetric_difference_update'}
ELEMENT_ACCESSORS = {'get', 'setdefault', 'pop', 'popitem', 'values', 'items', '__getitem__'}


def strip_elements(expr):
    """cls.R[k] / cls.R.setdefault(k, []) / cls.R.get(k) -> (cls.R, depth)."""
    depth = 0
    while True:
        if isinstance(expr, ast.Subscript):
            expr = expr.value
            depth += 1
        elif (isinstance(expr, ast.Call) and isinstance(expr.func, ast.Attribute)
              and expr.func.attr in ELEMENT_ACCESSORS):
            expr = expr.func.value
            depth += 1
        else:
            return expr, depth


class Mutation:
    __slots__ = ('node', 'stmt', 'receiver', 'root', 'depth', 'kind')

    def __init__(self, node, stmt, receiver, kind):
        self.node = node
        self.stmt = stmt
        self.receiver = receiver            # expression whose object is mutated
        self.root, self.depth = strip_elements(receiver)
        self.kind = kind

    def __repr__(self):
        return 'Mutation(%s %s @%d)' % (self.kind, norm(self.receiver), self.node.lineno)


def enclosing_stmt(node):
    n = node
    while n is not None and not isinstance(n, ast.stmt):
        n = getattr(n, '_parent', None)
    return n


def find_mutations(fnode_or_nodes):
    """All syntactic mutation sites (subscript store/del, augmented assignment of a
    subscript/attribute, mutating method calls) and attribute rebindings."""
    nodes = walk_function(fnode_or_nodes) if isinstance(fnode_or_nodes, (ast.FunctionDef, ast.AsyncFunctionDef)) \
        else fnode_or_nodes
    out = []
    for n in nodes:
        if isinstance(n, (ast.Assign, ast.AnnAssign)):
            targets = n.targets if isinstance(n, ast.Assign) else [n.target]
            for t in targets:
                for tt in _flatten_targets(t):
                    if isinstance(tt, ast.Subscript):
                        out.append(Mutation(n, n, tt.value, 'setitem'))
                    elif isinstance(tt, ast.Attribute):
                        out.append(Mutation(n, n, tt, 'rebind'))
        elif isinstance(n, ast.AugAssign):
            if isinstance(n.target, ast.Subscript):
                out.append(Mutation(n, n, n.target.value, 'setitem'))
            elif isinstance(n.target, ast.Attribute):
                out.append(Mutation(n, n, n.target, 'augassign'))
        elif isinstance(n, ast.Delete):
            for t in n.targets:
                if isinstance(t, ast.Subscript):
                    out.append(Mutation(n, n, t.value, 'delitem'))
                elif isinstance(t, ast.Attribute):
                    out.append(Mutation(n, n, t, 'rebind'))
        elif isinstance(n, (ast.For, ast.AsyncFor)):
            for tt in _flatten_targets(n.target):
                if isinstance(tt, ast.Subscript):
                    out.append(Mutation(n, n, tt.value, 'setitem'))
                elif isinstance(tt, ast.Attribute):
                    out.append(Mutation(n, n, tt, 'rebind'))
        elif isinstance(n, ast.Call) and isinstance(n.func, ast.Attribute) and n.func.attr in MUTATORS:
            out.append(Mutation(n, enclosing_stmt(n), n.func.value, 'call:' + n.func.attr))
    return out


def _flatten_targets(t):
    if isinstance(t, (ast.Tuple, ast.List)):
        for e in t.elts:
            yield from _flatten_targets(e)
    elif isinstance(t, ast.Starred):
        yield from _flatten_targets(t.value)
    else:
        yield t


def is_attr(expr, base, attr=None):
    """expr is `<base>.<attr>` with Name base."""
    return (isinstance(expr, ast.Attribute) and isinstance(expr.value, ast.Name)
            and expr.value.id == base and (attr is None or expr.attr == attr))


def calls_in(node_or_nodes):
    nodes = node_or_nodes if isinstance(node_or_nodes, list) else [node_or_nodes]
    for root in nodes:
        for n in ast.walk(root):
            if isinstance(n, ast.Call):
                yield n


def func_calls(fnode):
    """Call nodes of a function body (nested defs excluded), each once."""
    c = getattr(fnode, '_calls_cache', None)
    if c is None:
        c = [n for n in walk_function(fnode) if isinstance(n, ast.Call)]
        try:
            fnode._calls_cache = c
        except AttributeError:
            pass
    return c


def call_name(call):
    """'self.m' / 'f' / 'mod.f' dotted text of the callee, or None."""
    ch = attr_chain(call.func)
    return '.'.join(ch) if ch else None


def const_str(node):
    """String value of a constant / concatenation / implicit concatenation, else None."""
    if isinstance(node, ast.Constant) and isinstance(node.value, str):
        return node.value
    if isinstance(node, ast.BinOp) and isinstance(node.op, ast.Add):
        a, b = const_str(node.left), const_str(node.right)
        if a is not None and b is not None:
            return a + b
    return None


def const_value(node):
    try:
        return ast.literal_eval(node)
    except Exception:
        return NotImplemented


def negate(polarity_expr):
    return ast.UnaryOp(op=ast.Not(), operand=polarity_expr)


def strip_not(test):
    """-> (inner test, positive?)"""
    pos = True
    while isinstance(test, ast.UnaryOp) and isinstance(test.op, ast.Not):
        test = test.operand
        pos = not pos
    return test, pos


def function_of(node):
    n = getattr(node, '_parent', None)
    while n is not None and not isinstance(n, (ast.FunctionDef, ast.AsyncFunctionDef)):
        n = getattr(n, '_parent', None)
    return n


def class_of(node):
    n = getattr(node, '_parent', None)
    while n is not None and not isinstance(n, ast.ClassDef):
        n = getattr(n, '_parent', None)
    return n


def names_read(expr):
    return {n.id for n in ast.walk(expr) if isinstance(n, ast.Name)}


def conjuncts(test):
    """operands of a (possibly nested) `and` test; a plain test is its own single conjunct."""
    if isinstance(test, ast.BoolOp) and isinstance(test.op, ast.And):
        out = []
        for v in test.values:
            out.extend(conjuncts(v))
        return out
    return [test]


def guarding_ifs(node, stop=None):
    """(if-statement, branch) pairs enclosing node, innermost first; branch is 'body' or 'orelse'."""
    out = []
    p = node
    while p is not None and p is not stop:
        par = getattr(p, '_parent', None)
        if isinstance(par, ast.If):
            if any(p is x for x in par.body):
                out.append((par, 'body'))
            elif any(p is x for x in par.orelse):
                out.append((par, 'orelse'))
        p = par
    return out


def eval3(test, atom):
    """three-valued evaluation of a boolean expression; atom(node) -> True/False/None for the leaves."""
    if isinstance(test, ast.UnaryOp) and isinstance(test.op, ast.Not):
        v = eval3(test.operand, atom)
        return None if v is None else (not v)
    if isinstance(test, ast.BoolOp):
        vals = [eval3(v, atom) for v in test.values]
        if isinstance(test.op, ast.And):
            if any(v is False for v in vals):
                return False
            return True if all(v is True for v in vals) else None
        if any(v is True for v in vals):
            return True
        return False if all(v is False for v in vals) else None
    if isinstance(test, ast.Constant):
        return bool(test.value)
    return atom(test)


def cfg_reach_under(cfg, atom, starts=None, blocked=(), follow_exc=True):
    """nodes reachable from the entry when every test is evaluated with eval3(test, atom): a decided test follows one
    edge only.  `blocked` nodes are not entered."""
    seen = set()
    blocked = set(blocked)
    stack = list(starts or [cfg.entry])
    while stack:
        n = stack.pop()
        if n in seen or n in blocked:
            continue
        seen.add(n)
        v = None
        if n.kind == 'test' and n.ast is not None:
            v = eval3(n.ast, atom)
        for (m, lab) in cfg.succ[n]:
            if v is not None and lab in (True, False) and lab != v:
                continue
            if lab == 'exc' and not follow_exc:
                continue
            stack.append(m)
    return seen


def local_names(fnode):
    """names bound inside the function: parameters (except the receiver) and every stored / loop / except name."""
    a = fnode.args
    params = [x.arg for x in a.posonlyargs + a.args + a.kwonlyargs]
    if a.vararg:
        params.append(a.vararg.arg)
    if a.kwarg:
        params.append(a.kwarg.arg)
    out = set(params[1:] if params and params[0] in ('self', 'cls') else params)
    for n in ast.walk(fnode):
        if isinstance(n, ast.Name) and isinstance(n.ctx, (ast.Store, ast.Del)):
            out.add(n.id)
        elif isinstance(n, ast.ExceptHandler) and n.name:
            out.add(n.name)
        elif isinstance(n, ast.arg) and n.arg not in ('self', 'cls'):
            out.add(n.arg)
    return out


def anon_text(node, fnode, limit=None):
    """structural text of `node` with every local variable of the enclosing function written as `_`: identifies a
    construct independently of how the locals are called (used for finding keys)."""
    loc = local_names(fnode)
    changed = []
    for n in ast.walk(node):
        if isinstance(n, ast.Name) and n.id in loc:
            changed.append((n, n.id))
            n.id = '_'
    try:
        try:
            t = ast.unparse(node)
        except Exception:
            t = ast.dump(node)
    finally:
        for n, old in changed:
            n.id = old
    return t if limit is None else t[:limit]


class _Unknown(Exception):
    pass


_STR_METHODS = ('startswith', 'endswith', 'lower', 'upper', 'replace', 'strip', 'lstrip', 'rstrip', 'isdigit', 'isalpha',
                'isalnum', 'find', 'count', 'split', 'rstrip', 'casefold', 'removeprefix', 'removesuffix')


def _cev(e, env):
    t = norm(e)
    if t in env:
        return env[t]
    if isinstance(e, ast.Constant):
        return e.value
    if isinstance(e, (ast.Tuple, ast.List)):
        return tuple(_cev(x, env) for x in e.elts)
    if isinstance(e, ast.Set):
        return frozenset(_cev(x, env) for x in e.elts)
    if isinstance(e, ast.UnaryOp):
        v = _cev(e.operand, env)
        if isinstance(e.op, ast.Not):
            return not v
        if isinstance(e.op, ast.USub):
            return -v
        raise _Unknown()
    if isinstance(e, ast.BoolOp):
        last = None
        for x in e.values:
            last = _cev(x, env)
            if isinstance(e.op, ast.And) and not last:
                return last
            if isinstance(e.op, ast.Or) and last:
                return last
        return last
    if isinstance(e, ast.IfExp):
        return _cev(e.body, env) if _cev(e.test, env) else _cev(e.orelse, env)
    if isinstance(e, ast.Compare):
        left = _cev(e.left, env)
        for op, r in zip(e.ops, e.comparators):
            right = _cev(r, env)
            try:
                ok = {ast.Eq: lambda: left == right, ast.NotEq: lambda: left != right, ast.Lt: lambda: left < right,
                      ast.LtE: lambda: left <= right, ast.Gt: lambda: left > right, ast.GtE: lambda: left >= right,
                      ast.In: lambda: left in right, ast.NotIn: lambda: left not in right, ast.Is: lambda: left is right,
                      ast.IsNot: lambda: left is not right}[type(op)]()
            except TypeError:
                raise _Unknown()
            if not ok:
                return False
            left = right
        return True
    if isinstance(e, ast.BinOp) and isinstance(e.op, ast.Mod):
        l, r = _cev(e.left, env), _cev(e.right, env)
        if isinstance(l, str) and isinstance(r, (str, int, tuple)) and (
                not isinstance(r, tuple) or all(isinstance(x, (str, int)) for x in r)):
            try:
                return l % r
            except (TypeError, ValueError):
                raise _Unknown()
        raise _Unknown()
    if isinstance(e, ast.JoinedStr):
        parts = []
        for v in e.values:
            if isinstance(v, ast.Constant):
                parts.append(str(v.value))
            elif isinstance(v, ast.FormattedValue) and v.conversion == -1 and v.format_spec is None:
                x = _cev(v.value, env)
                if not isinstance(x, (str, int)):
                    raise _Unknown()
                parts.append(str(x))
            else:
                raise _Unknown()
        return ''.join(parts)
    if isinstance(e, ast.BinOp) and isinstance(e.op, (ast.Add, ast.Mult, ast.Sub)):
        l, r = _cev(e.left, env), _cev(e.right, env)
        try:
            return l + r if isinstance(e.op, ast.Add) else l * r if isinstance(e.op, ast.Mult) else l - r
        except TypeError:
            raise _Unknown()
    if isinstance(e, ast.Subscript):
        v = _cev(e.value, env)
        if isinstance(e.slice, ast.Slice):
            lo = _cev(e.slice.lower, env) if e.slice.lower else None
            hi = _cev(e.slice.upper, env) if e.slice.upper else None
            st = _cev(e.slice.step, env) if e.slice.step else None
            try:
                return v[lo:hi:st]
            except TypeError:
                raise _Unknown()
        try:
            return v[_cev(e.slice, env)]
        except (TypeError, IndexError, KeyError):
            raise _Unknown()
    if isinstance(e, (ast.ListComp, ast.SetComp, ast.GeneratorExp, ast.DictComp)):
        results = []

        def bind(target, value, env2):
            if isinstance(target, ast.Name):
                env2[target.id] = value
            elif isinstance(target, (ast.Tuple, ast.List)):
                vals = list(value)
                if len(vals) != len(target.elts):
                    raise _Unknown()
                for t, v in zip(target.elts, vals):
                    bind(t, v, env2)
            else:
                raise _Unknown()

        def run(i, env2):
            if len(results) > 5000:
                raise _Unknown()
            if i == len(e.generators):
                if isinstance(e, ast.DictComp):
                    results.append((_cev(e.key, env2), _cev(e.value, env2)))
                else:
                    results.append(_cev(e.elt, env2))
                return
            g = e.generators[i]
            if g.is_async:
                raise _Unknown()
            it = _cev(g.iter, env2)
            if not isinstance(it, (tuple, list, str, frozenset, dict, range)):
                raise _Unknown()
            for v in it:
                env3 = dict(env2)
                bind(g.target, v, env3)
                if all(_cev(c, env3) for c in g.ifs):
                    run(i + 1, env3)
        run(0, dict(env))
        if isinstance(e, ast.DictComp):
            return dict(results)
        if isinstance(e, ast.SetComp):
            return frozenset(results)
        return tuple(results)
    if isinstance(e, ast.Dict):
        out = {}
        for k, v in zip(e.keys, e.values):
            if k is None:
                sub = _cev(v, env)
                if not isinstance(sub, dict):
                    raise _Unknown()
                out.update(sub)
            else:
                out[_cev(k, env)] = _cev(v, env)
        return out
    if isinstance(e, ast.Call) and not e.keywords and isinstance(e.func, ast.Name) and e.func.id not in env \
            and e.func.id in ('zip', 'enumerate', 'range', 'tuple', 'list', 'dict', 'reversed', 'sorted', 'frozenset', 'set'):
        args = [_cev(a, env) for a in e.args]
        try:
            r = {'zip': zip, 'enumerate': enumerate, 'range': range, 'tuple': tuple, 'list': tuple, 'dict': dict,
                 'reversed': lambda x: tuple(reversed(x)), 'sorted': lambda x: tuple(sorted(x)), 'frozenset': frozenset,
                 'set': frozenset}[e.func.id](*args)
        except (TypeError, ValueError):
            raise _Unknown()
        return r if isinstance(r, (dict, frozenset, range)) else tuple(r)
    if isinstance(e, ast.Call) and not e.keywords:
        if isinstance(e.func, ast.Attribute) and e.func.attr in _STR_METHODS:
            recv = _cev(e.func.value, env)
            if isinstance(recv, str):
                return getattr(recv, e.func.attr)(*[_cev(a, env) for a in e.args])
            raise _Unknown()
        if isinstance(e.func, ast.Name) and e.func.id in ('len', 'bool', 'str', 'int', 'ord', 'chr', 'isinstance') and e.func.id not in env:
            args = [_cev(a, env) for a in e.args]
            if e.func.id == 'isinstance':
                raise _Unknown()
            try:
                return {'len': len, 'bool': bool, 'str': str, 'int': int, 'ord': ord, 'chr': chr}[e.func.id](*args)
            except (TypeError, ValueError):
                raise _Unknown()
    raise _Unknown()


def const_eval(expr, env):
    """fold an expression over literals and the given bindings ({normalised source text: Python constant}): pure operators,
    comparisons and str methods only.  Returns (True, value) or (False, None) when something in it is not known."""
    try:
        return True, _cev(expr, env)
    except (_Unknown, AttributeError, TypeError, ValueError, KeyError, IndexError, RecursionError):
        return False, None


def const_truth(expr, env):
    ok, v = const_eval(expr, env)
    return bool(v) if ok else None


def module_str_constants(module):
    """{name: str} for module-level names bound exactly once to a string expression that folds to a constant."""
    binds = {}
    for st in module.tree.body:
        if isinstance(st, ast.Assign) and len(st.targets) == 1 and isinstance(st.targets[0], ast.Name):
            binds.setdefault(st.targets[0].id, []).append(st.value)
        elif isinstance(st, (ast.AugAssign, ast.AnnAssign)) and isinstance(st.target, ast.Name):
            binds.setdefault(st.target.id, []).append(None)
    env = {}
    for _ in range(3):
        for k, v in binds.items():
            if len(v) == 1 and v[0] is not None and k not in env:
                ok, val = const_eval(v[0], env)
                if ok and isinstance(val, str):
                    env[k] = val
    return env


def fold_str(node, module=None, extra_env=None):
    """string value of an expression built from literals, %-formatting, concatenation, f-strings and single-assignment
    module-level string constants; None when it does not fold."""
    s = const_str(node)
    if s is not None:
        return s
    env = dict(module_str_constants(module)) if module is not None else {}
    if extra_env:
        env.update(extra_env)
    ok, v = const_eval(node, env)
    return v if ok and isinstance(v, str) else None


def module_constants(module):
    """{name: value} for module-level names bound exactly once to an expression that folds to a constant (str, number,
    tuple, dict, frozenset ...), using the constants found so far."""
    binds = {}
    for st in module.tree.body:
        if isinstance(st, ast.Assign) and len(st.targets) == 1 and isinstance(st.targets[0], ast.Name):
            binds.setdefault(st.targets[0].id, []).append(st.value)
        elif isinstance(st, (ast.AugAssign, ast.AnnAssign)) and isinstance(st.target, ast.Name):
            binds.setdefault(st.target.id, []).append(None)
    env = {}
    for _ in range(3):
        for k, v in binds.items():
            if len(v) == 1 and v[0] is not None and k not in env and not isinstance(v[0], ast.Call):
                ok, val = const_eval(v[0], env)
                if ok and isinstance(val, (str, int, float, tuple, dict, frozenset, bytes, bool)):
                    env[k] = val
    return env


def class_body_constants(cls_node, env):
    """{name: value} for names bound exactly once in a class body to a foldable expression (a later `del name` of a
    temporary does not matter for the values computed from it)."""
    binds = {}
    for st in cls_node.body:
        if isinstance(st, ast.Assign) and len(st.targets) == 1 and isinstance(st.targets[0], ast.Name):
            binds.setdefault(st.targets[0].id, []).append(st.value)
        elif isinstance(st, (ast.AugAssign, ast.AnnAssign)) and isinstance(st.target, ast.Name):
            binds.setdefault(st.target.id, []).append(None)
    out = dict(env)
    for _ in range(3):
        for k, v in binds.items():
            if len(v) == 1 and v[0] is not None and k not in out and not (isinstance(v[0], ast.Call) and not isinstance(v[0].func, ast.Name)):
                ok, val = const_eval(v[0], out)
                if ok and isinstance(val, (str, int, float, tuple, dict, frozenset, bytes, bool)):
                    out[k] = val
    return out


def fold_value(node, module=None, cls_node=None):
    """Python value of a literal, or of an expression over literals and module- / class-level constants (comprehensions,
    zip, {**a, **b} ...); NotImplemented when it does not fold."""
    v = const_value(node)
    if v is not NotImplemented:
        return v
    env = module_constants(module) if module is not None else {}
    if cls_node is not None:
        env = class_body_constants(cls_node, env)
    ok, val = const_eval(node, env)
    return val if ok else NotImplemented


def local_values(fnode, expr, params=(), depth=0):
    """the expressions a value can come from: for a local name that is not a parameter and is only bound by plain
    assignments, the (recursively resolved) right-hand sides; for a conditional expression both arms; otherwise the
    expression itself.  Used to see through `x = <value> ... self.a = x`."""
    if depth > 4:
        return [expr]
    if isinstance(expr, ast.IfExp):
        return local_values(fnode, expr.body, params, depth + 1) + local_values(fnode, expr.orelse, params, depth + 1)
    if isinstance(expr, ast.Name) and expr.id not in params:
        binds = []
        for n in ast.walk(fnode):
            if isinstance(n, ast.Name) and n.id == expr.id and isinstance(n.ctx, (ast.Store, ast.Del)):
                par = getattr(n, '_parent', None)
                if isinstance(par, ast.Assign) and n in par.targets:
                    binds.append(par.value)
                else:
                    return [expr]
        if binds:
            out = []
            for b in binds:
                out += local_values(fnode, b, params, depth + 1)
            return out
    return [expr]


def with_derived(atom, fnode):
    """wrap a three-valued atom so that it also decides locals bound exactly once in fnode to a boolean expression over
    decided atoms (`no_tag = tag is None or tag == '!'` ... `if no_tag:`): the hoisted-condition idiom."""
    stores = {}
    for x in ast.walk(fnode):
        if isinstance(x, ast.Name) and isinstance(x.ctx, (ast.Store, ast.Del)):
            stores[x.id] = stores.get(x.id, 0) + 1
    derived = {}
    for x in ast.walk(fnode):
        if isinstance(x, ast.Assign) and len(x.targets) == 1 and isinstance(x.targets[0], ast.Name) \
                and stores.get(x.targets[0].id) == 1 and isinstance(x.value, (ast.BoolOp, ast.Compare, ast.UnaryOp)):
            derived[x.targets[0].id] = x.value
    if not derived:
        return atom
    busy = set()

    def wrapped(node):
        v = atom(node)
        if v is not None:
            return v
        if isinstance(node, ast.Name) and node.id in derived and node.id not in busy:
            busy.add(node.id)
            try:
                return eval3(derived[node.id], wrapped)
            finally:
                busy.discard(node.id)
        return None
    return wrapped
