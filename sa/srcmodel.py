"""Source model of /repo: modules, star imports, class table, C3 MRO, lookup (DESIGN 3.1).

Nothing here imports or executes PyYAML; everything is derived from the AST of the
files as they are on disk now.
"""
import ast
import hashlib
import os

from . import pyxfront


class AnalysisError(Exception):
    """The analysis cannot be performed soundly on this tree (exit 2)."""


def repo_root():
    return os.environ.get('SA_REPO', '/repo')


def norm(node):
    """Position-free structural text of an AST node (used for keys and comparisons)."""
    if node is None:
        return 'None'
    if isinstance(node, list):
        return '[' + ';'.join(norm(n) for n in node) + ']'
    try:
        return ast.unparse(node)
    except Exception:
        return ast.dump(node)


def set_parents(tree):
    for parent in ast.walk(tree):
        for child in ast.iter_child_nodes(parent):
            child._parent = parent
    tree._parent = None


def attr_chain(node):
    """self.a.b -> ['self','a','b']; anything else -> None."""
    parts = []
    while isinstance(node, ast.Attribute):
        parts.append(node.attr)
        node = node.value
    if isinstance(node, ast.Name):
        parts.append(node.id)
        return list(reversed(parts))
    return None


class Ref:
    """Result of resolving a name/expression at module or class level."""
    __slots__ = ('kind', 'obj', 'extra')

    def __init__(self, kind, obj, extra=None):
        self.kind = kind      # 'class' | 'func' | 'module' | 'ext' | 'value'
        self.obj = obj
        self.extra = extra

    def __repr__(self):
        return 'Ref(%s, %s)' % (self.kind, getattr(self.obj, 'qualname', self.obj))


class Module:
    def __init__(self, name, path, source, tree, kind='py', lowered=None, pyxfuncs=None):
        self.name = name
        self.path = path
        self.source = source
        self.lowered = lowered
        self.tree = tree
        self.kind = kind
        self.pyxfuncs = pyxfuncs or {}
        self.bindings = {}       # name -> list of binding tuples, source order
        self.star_imports = []   # module names
        self.all = None
        self.classes = {}
        self.functions = {}
        self.rel = os.path.relpath(path, repo_root())
        set_parents(tree)

    def __repr__(self):
        return 'Module(%s)' % self.name

    def lines(self):
        return self.source.split('\n')


class FuncInfo:
    def __init__(self, module, cls, node):
        self.module = module
        self.cls = cls
        self.node = node
        self.name = node.name
        self.qualname = '%s.%s%s' % (module.name, (cls.name + '.') if cls else '', node.name)
        self.decorators = [norm(d) for d in node.decorator_list]
        self.is_classmethod = 'classmethod' in self.decorators
        self.is_staticmethod = 'staticmethod' in self.decorators
        self.is_generator = any(isinstance(n, (ast.Yield, ast.YieldFrom))
                                for n in walk_function(node))
        self.pyx = module.pyxfuncs.get(node.lineno)

    @property
    def params(self):
        a = self.node.args
        return [x.arg for x in a.posonlyargs + a.args]

    def defaults(self):
        """{param: default expr node}"""
        a = self.node.args
        pos = a.posonlyargs + a.args
        out = {}
        for p, d in zip(pos[len(pos) - len(a.defaults):], a.defaults):
            out[p.arg] = d
        for p, d in zip(a.kwonlyargs, a.kw_defaults):
            if d is not None:
                out[p.arg] = d
        return out

    def __repr__(self):
        return 'Func(%s)' % self.qualname

    def loc(self, node=None):
        n = node if node is not None else self.node
        line = getattr(n, 'lineno', None)
        if line is None:
            # nodes without a position of their own (comprehension clauses, arguments): use what they contain / the function
            line = next((getattr(x, 'lineno') for x in ast.walk(n) if hasattr(x, 'lineno')), self.node.lineno)
        return '%s:%d' % (self.module.rel, line)


def walk_function(fnode):
    """Walk the body of a function without descending into nested defs/classes/lambdas."""
    stack = list(fnode.body)
    while stack:
        n = stack.pop()
        yield n
        for c in ast.iter_child_nodes(n):
            if isinstance(c, (ast.FunctionDef, ast.AsyncFunctionDef, ast.ClassDef, ast.Lambda)):
                continue
            stack.append(c)


class ClassInfo:
    def __init__(self, module, node):
        self.module = module
        self.node = node
        self.name = node.name
        self.qualname = '%s.%s' % (module.name, node.name)
        self.base_exprs = node.bases
        self.bases = []       # ClassInfo or Ref('ext')
        self.methods = {}
        self.attrs = {}       # name -> list of value nodes (class-level assignments)
        self.attr_stmts = {}  # name -> list of statements
        self.mro = None
        self.metaclass = None
        for kw in node.keywords:
            if kw.arg == 'metaclass':
                self.metaclass = kw.value
        self._scan_body(node.body)

    def _scan_body(self, body):
        for st in body:
            if isinstance(st, (ast.FunctionDef, ast.AsyncFunctionDef)):
                self.methods[st.name] = FuncInfo(self.module, self, st)
            elif isinstance(st, ast.Assign):
                for t in st.targets:
                    for nm in _target_names(t):
                        self.attrs.setdefault(nm, []).append(st.value)
                        self.attr_stmts.setdefault(nm, []).append(st)
            elif isinstance(st, ast.AugAssign) and isinstance(st.target, ast.Name):
                self.attrs.setdefault(st.target.id, []).append(st.value)
                self.attr_stmts.setdefault(st.target.id, []).append(st)
            elif isinstance(st, ast.AnnAssign) and isinstance(st.target, ast.Name) and st.value is not None:
                self.attrs.setdefault(st.target.id, []).append(st.value)
                self.attr_stmts.setdefault(st.target.id, []).append(st)
            elif isinstance(st, (ast.While, ast.For, ast.If, ast.Try)):
                for sub in ('body', 'orelse', 'finalbody'):
                    self._scan_body(getattr(st, sub, []) or [])
                for h in getattr(st, 'handlers', []) or []:
                    self._scan_body(h.body)

    def __repr__(self):
        return 'Class(%s)' % self.qualname

    def is_subclass_of(self, other):
        return any(c is other for c in self.mro if isinstance(c, ClassInfo))

    def mro_classes(self):
        return [c for c in self.mro if isinstance(c, ClassInfo)]

    def ext_bases(self):
        return [c.obj for c in self.mro if isinstance(c, Ref)]


def _target_names(t):
    if isinstance(t, ast.Name):
        yield t.id
    elif isinstance(t, (ast.Tuple, ast.List)):
        for e in t.elts:
            yield from _target_names(e)


BUILTIN_NAMES = set(dir(__builtins__)) if not isinstance(__builtins__, dict) else set(__builtins__)


class Repo:
    """All analysed source of the package."""

    PY_DIR = 'lib/yaml'
    PYX = 'yaml/_yaml.pyx'
    PXD = 'yaml/_yaml.pxd'

    def __init__(self, root=None, need_pyx=True):
        self.root = root or repo_root()
        self.modules = {}
        self.consulted = []
        pydir = os.path.join(self.root, self.PY_DIR)
        if not os.path.isdir(pydir):
            raise AnalysisError('missing %s' % pydir)
        for fn in sorted(os.listdir(pydir)):
            if not fn.endswith('.py'):
                continue
            path = os.path.join(pydir, fn)
            with open(path, encoding='utf-8') as f:
                src = f.read()
            try:
                tree = ast.parse(src, filename=path)
            except SyntaxError as e:
                raise AnalysisError('cannot parse %s: %s' % (path, e))
            name = fn[:-3]
            self.modules[name] = Module(name, path, src, tree)
            self.consulted.append(path)
        self.pxd_enums = {}
        pyx = os.path.join(self.root, self.PYX)
        if os.path.exists(pyx):
            try:
                src, text, tree, funcs = pyxfront.load(pyx)
            except SyntaxError as e:
                raise AnalysisError('cannot lower/parse %s: %s' % (pyx, e))
            self.modules['_yaml'] = Module('_yaml', pyx, src, tree, kind='pyx',
                                           lowered=text, pyxfuncs=funcs)
            self.consulted.append(pyx)
            nfun = sum(1 for n in ast.walk(tree) if isinstance(n, ast.FunctionDef))
            if nfun < 40 or len(funcs) != nfun:
                raise AnalysisError('.pyx lowering recognised %d headers for %d functions' % (len(funcs), nfun))
            pxd = os.path.join(self.root, self.PXD)
            if os.path.exists(pxd):
                with open(pxd, encoding='utf-8') as f:
                    self.pxd_enums = pyxfront.parse_pxd_enums(f.read())
                self.consulted.append(pxd)
        elif need_pyx:
            raise AnalysisError('missing %s' % pyx)
        from . import expand
        self.expansion = expand.expand_modules(self.modules)
        if not os.environ.get('SA_NO_CANON'):
            from . import canon
            canon.canon_modules(self.modules)
            # canonicalisation can expose further named constants (getattr(self, 'NAME') -> self.NAME)
            if not os.environ.get('SA_NO_EXPAND'):
                if expand.resubstitute_constants(self.modules):
                    canon.canon_modules(self.modules)
        for m in self.modules.values():
            set_parents(m.tree)
        for m in self.modules.values():
            self._index_module(m)
        self.classes = {}
        for m in self.modules.values():
            for c in m.classes.values():
                self.classes[c.qualname] = c
        for c in self.classes.values():
            self._resolve_bases(c)
        for c in self.classes.values():
            self._mro(c, ())
        # helpers that are not in the reference inventory and were inlined at every call site are dead in the normalised
        # program: they are not analysed on their own (their code is analysed where it runs)
        self.dead_helpers = set()
        base0 = expand.load_baseline()
        if base0 is not None and isinstance(self.expansion, dict) and self.expansion.get('inlined_helpers'):
            known_funcs = set(base0.get('functions', []))
            used = set()
            for m in self.modules.values():
                for n in ast.walk(m.tree):
                    if isinstance(n, ast.Attribute):
                        used.add(n.attr)
                    elif isinstance(n, ast.Name):
                        used.add(n.id)
            for q in self.expansion['inlined_helpers']:
                name = q.split('.')[-1]
                if q not in known_funcs and name not in used:
                    parts = q.split('.')
                    m = self.modules.get(parts[0])
                    if m is None:
                        continue
                    if len(parts) == 2 and parts[1] in m.functions:
                        self.dead_helpers.add(m.functions.pop(parts[1]))
                    elif len(parts) == 3 and parts[1] in m.classes and parts[2] in m.classes[parts[1]].methods:
                        self.dead_helpers.add(m.classes[parts[1]].methods.pop(parts[2]))
        # classes that are not in the reference inventory (private bases / mixins introduced by a refactoring) are
        # transparent: what they define is seen as defined by the inventoried class that inherits it
        base = expand.load_baseline()
        self.new_classes = set()
        if base is not None:
            known = set(base.get('classes', []))
            self.new_classes = {q for q in self.classes if q not in known}
            for c in self.classes.values():
                if c.qualname not in known:
                    continue
                for k in c.mro[1:]:
                    if isinstance(k, ClassInfo) and k.qualname in self.new_classes:
                        for name, fi in k.methods.items():
                            c.methods.setdefault(name, fi)
                        for name, v in k.attrs.items():
                            c.attrs.setdefault(name, v)
                            c.attr_stmts.setdefault(name, k.attr_stmts.get(name, []))

    # -- indexing ---------------------------------------------------------
    def _index_module(self, m):
        def scan(body):
            for st in body:
                if isinstance(st, ast.ClassDef):
                    ci = ClassInfo(m, st)
                    m.classes[st.name] = ci
                    m.bindings.setdefault(st.name, []).append(('class', ci))
                elif isinstance(st, (ast.FunctionDef, ast.AsyncFunctionDef)):
                    fi = FuncInfo(m, None, st)
                    m.functions[st.name] = fi
                    m.bindings.setdefault(st.name, []).append(('func', fi))
                elif isinstance(st, ast.Assign):
                    for t in st.targets:
                        for nm in _target_names(t):
                            m.bindings.setdefault(nm, []).append(('assign', st.value, st))
                            if nm == '__all__':
                                try:
                                    m.all = list(ast.literal_eval(st.value))
                                except Exception:
                                    raise AnalysisError('%s: __all__ is not a literal' % m.rel)
                elif isinstance(st, ast.Import):
                    for a in st.names:
                        if a.asname:
                            m.bindings.setdefault(a.asname, []).append(('import', a.name))
                        else:
                            top = a.name.split('.')[0]
                            m.bindings.setdefault(top, []).append(('import', top))
                elif isinstance(st, ast.ImportFrom):
                    modname = self._import_target(m, st)
                    for a in st.names:
                        if a.name == '*':
                            m.star_imports.append(modname)
                        else:
                            m.bindings.setdefault(a.asname or a.name, []).append(
                                ('from', modname, a.name))
                    # importing a submodule binds it on the package
                    if st.level and modname[0] == 'int':
                        m.bindings.setdefault(modname[1], []).append(('submodule', modname[1]))
                elif isinstance(st, (ast.If, ast.Try, ast.While, ast.For, ast.With)):
                    for sub in ('body', 'orelse', 'finalbody'):
                        scan(getattr(st, sub, []) or [])
                    for h in getattr(st, 'handlers', []) or []:
                        scan(h.body)
        scan(m.tree.body)

    def _import_target(self, m, st):
        """('int', modname) for modules of this package, ('ext', dotted) otherwise."""
        mod = st.module or ''
        if st.level:
            name = mod.split('.')[0] if mod else '__init__'
            if name in self.modules:
                return ('int', name)
            raise AnalysisError('%s: relative import of unknown module %r' % (m.rel, mod))
        if mod == 'yaml':
            return ('int', '__init__')
        if mod.startswith('yaml.'):
            name = mod.split('.', 1)[1]
            if name in self.modules:
                return ('int', name)
        return ('ext', mod)

    def exports(self, m):
        if m.all is not None:
            return list(m.all)
        names = [n for n in m.bindings if not n.startswith('_')]
        for tgt in m.star_imports:
            if tgt[0] == 'int':
                names.extend(self.exports(self.modules[tgt[1]]))
        return names

    # -- name resolution --------------------------------------------------
    def resolve_name(self, m, name, _seen=None):
        _seen = _seen or set()
        key = (m.name, name)
        if key in _seen:
            return None
        _seen = _seen | {key}
        b = m.bindings.get(name)
        if b:
            last = b[-1]
            # a 'submodule' binding is shadowed by any real binding of the same name
            real = [x for x in b if x[0] != 'submodule']
            if real:
                last = real[-1]
            kind = last[0]
            if kind == 'class':
                return Ref('class', last[1])
            if kind == 'func':
                return Ref('func', last[1])
            if kind == 'assign':
                r = self.resolve_expr(m, last[1], _seen)
                if r is not None and r.kind in ('class', 'func', 'module', 'ext'):
                    return r
                return Ref('value', last[1], m)
            if kind == 'import':
                if last[1] == 'yaml':
                    return Ref('module', self.modules['__init__'])
                return Ref('ext', last[1])
            if kind == 'from':
                tgt, nm = last[1], last[2]
                if tgt[0] == 'int':
                    r = self.resolve_name(self.modules[tgt[1]], nm, _seen)
                    if r is None and tgt[1] == '__init__' and nm in self.modules:
                        return Ref('module', self.modules[nm])
                    return r
                return Ref('ext', tgt[1] + '.' + nm)
            if kind == 'submodule':
                return Ref('module', self.modules[last[1]])
        for tgt in m.star_imports:
            if tgt[0] == 'int':
                tm = self.modules[tgt[1]]
                if name in self.exports(tm):
                    r = self.resolve_name(tm, name, _seen)
                    if r is not None:
                        return r
        if m.name == '__init__' and name in self.modules:
            return None
        if name in BUILTIN_NAMES:
            return Ref('ext', 'builtins.' + name)
        return None

    def resolve_expr(self, m, node, _seen=None, cls=None):
        """Resolve Name / dotted Attribute at module (or class) level."""
        if isinstance(node, ast.Name):
            if cls is not None:
                if node.id in cls.methods:
                    return Ref('func', cls.methods[node.id])
            return self.resolve_name(m, node.id, _seen)
        if isinstance(node, ast.Attribute):
            base = self.resolve_expr(m, node.value, _seen, cls)
            if base is None:
                return None
            return self.member(base, node.attr, _seen)
        return None

    def member(self, base, attr, _seen=None):
        if base.kind == 'module':
            mod = base.obj
            r = self.resolve_name(mod, attr, _seen)
            if r is not None:
                return r
            if mod.name == '__init__' and attr in self.modules:
                return Ref('module', self.modules[attr])
            return None
        if base.kind == 'class':
            found = self.lookup(base.obj, attr)
            if found is None:
                return None
            owner, what = found
            if isinstance(what, FuncInfo):
                return Ref('func', what, owner)
            return Ref('value', what[-1], owner)
        if base.kind == 'ext':
            return Ref('ext', base.obj + '.' + attr)
        return None

    # -- classes ------------------------------------------------------------
    def _resolve_bases(self, c):
        for be in c.base_exprs:
            r = self.resolve_expr(c.module, be)
            if r is None:
                raise AnalysisError('%s: cannot resolve base %s of class %s'
                                    % (c.module.rel, norm(be), c.name))
            if r.kind == 'class':
                c.bases.append(r.obj)
            elif r.kind == 'ext':
                if r.obj != 'builtins.object':      # implicit, always last
                    c.bases.append(r)
            else:
                raise AnalysisError('%s: base %s of %s is not a class' % (c.module.rel, norm(be), c.name))

    def _mro(self, c, stack):
        if c.mro is not None:
            return c.mro
        if c in stack:
            raise AnalysisError('inheritance cycle at %s' % c.qualname)
        seqs = []
        for b in c.bases:
            if isinstance(b, ClassInfo):
                seqs.append(list(self._mro(b, stack + (c,))))
            else:
                seqs.append([b])
        seqs.append(list(c.bases))
        res = [c]
        seqs = [s for s in seqs if s]
        while seqs:
            for s in seqs:
                head = s[0]
                if not any(_in_tail(head, t) for t in seqs):
                    break
            else:
                raise AnalysisError('inconsistent MRO for %s' % c.qualname)
            res.append(head)
            seqs = [[x for x in s if not _same(x, head)] for s in seqs]
            seqs = [s for s in seqs if s]
        c.mro = res
        return res

    def lookup(self, cls, name):
        """(owner ClassInfo, FuncInfo | [value nodes]) along the MRO, or None."""
        for k in cls.mro:
            if isinstance(k, ClassInfo):
                if name in k.methods:
                    return k, k.methods[name]
                if name in k.attrs:
                    return k, k.attrs[name]
        return None

    def lookup_after(self, universe, after_cls, name):
        """super() resolution: next definition after `after_cls` in universe's MRO."""
        seen = False
        for k in universe.mro:
            if isinstance(k, ClassInfo):
                if seen:
                    if name in k.methods:
                        return k, k.methods[name]
                    if name in k.attrs:
                        return k, k.attrs[name]
                elif k is after_cls:
                    seen = True
        return None

    def cls(self, qualname):
        c = self.classes.get(qualname)
        if c is None:
            raise AnalysisError('anchor class %s has vanished' % qualname)
        return c

    def func(self, qualname):
        parts = qualname.split('.')
        m = self.modules.get(parts[0])
        if m is None:
            raise AnalysisError('anchor module %s has vanished' % parts[0])
        if len(parts) == 2:
            f = m.functions.get(parts[1])
        else:
            c = m.classes.get(parts[1])
            f = c.methods.get(parts[2]) if c else None
        if f is None:
            raise AnalysisError('anchor function %s has vanished' % qualname)
        return f

    def all_functions(self, modules=None):
        for m in self.modules.values():
            if modules is not None and m.name not in modules:
                continue
            for f in m.functions.values():
                yield f
            for c in m.classes.values():
                for f in c.methods.values():
                    yield f

    def universes(self, modnames):
        out = []
        for mn in modnames:
            m = self.modules.get(mn)
            if m is None:
                raise AnalysisError('module %s has vanished' % mn)
            out.extend(m.classes.values())
        return out

    def digest(self):
        h = hashlib.sha256()
        for p in sorted(self.consulted):
            with open(p, 'rb') as f:
                h.update(p.encode())
                h.update(f.read())
        return h.hexdigest()

    def is_yaml_error(self, cls):
        """cls (ClassInfo) derives from error.YAMLError."""
        base = self.cls('error.YAMLError')
        return isinstance(cls, ClassInfo) and cls.is_subclass_of(base)


def _same(a, b):
    if isinstance(a, ClassInfo) or isinstance(b, ClassInfo):
        return a is b
    return a.obj == b.obj


def _in_tail(x, seq):
    return any(_same(x, y) for y in seq[1:])
