"""Generate /verif/MANIFEST.json from the table below (python -m sa.manifest_gen)."""
import json
import os

VERIF = os.path.dirname(os.path.dirname(os.path.abspath(__file__)))
PY = '/venv/bin/python'

TRUST = ('Trusted base: CPython\'s ast (and re._parser for C08); the analyser\'s own model of Python name resolution '
         '(star imports through __all__, C3 MRO, super()), cross-checked against the imported package by '
         '`python -m sa.modelcheck` in the thorough tier; closed tables of pure/partial/sink callables and of mutating '
         'method names; libyaml (C code outside the repository) honours its header contract. ')

CHECKS = {
    'C01': dict(
        level='proof', technique='abstract interpretation over the resolved per-class call graph + registry reconstruction',
        design='DESIGN.md 4/C01',
        text='Proof over the program text that the six safe/base entry points are confined: the effective constructor tables '
             '(static MRO + folded registrations + derived copy-on-write summaries) are exactly the 12 core tags + an '
             'always-raising None fallback; no other class or later registration can write them (ownership invariant); '
             'abstract interpretation of everything reachable from the table values, kind defaults and loader entry points '
             'reaches no import / name lookup / dynamic call / attribute mutation (positive control: the unsafe universe '
             'reaches all four kinds); every constructed value lies in the allowed type universe. The obligation set is finite '
             'and is discharged for every tag and node shape because construct_object is the only dispatcher. The clause '
             '"malformed scalars under explicit core tags raise a YAML error" is decided too and has known findings.',
        note=TRUST + 'Assumes A-NODE (node.value is str / list of nodes, established for both composers) and that user code '
             'does not register on the shipped safe classes (excluded by the property).'),
    'C04': dict(
        level='proof', technique='abstract interpretation with per-universe flag-constant pruning + registry reconstruction',
        design='DESIGN.md 4/C04',
        text='Same confinement proof as C01 over FullLoader/CFullLoader/full_load(_all): tables = safe set + the 12 value-like '
             'python/* tags + the single prefix python/name:, fallback always raises ConstructorError (this is what rejects '
             'python/object*, python/module); with unsafe=False propagated as a constant no import, dynamic call or mutation '
             'is reachable; name lookup occurs only in find_python_name and its sys.modules read is dominated by the '
             'not-imported rejection; constructed values = safe universe + tuple + complex + the looked-up attribute.',
        note=TRUST + 'Hashing a looked-up object used as a mapping key is not counted as calling it.'),
    'C10': dict(
        level='proof', technique='inductive ownership invariant checked by CFG dominance + effect analysis',
        design='DESIGN.md 4/C10',
        text='Inductive invariant over all histories of registrations and subclass definitions: every registry object is owned '
             'by exactly one class. Initially true (fresh displays), preserved by each of the six add_* classmethods on every '
             'CFG path incl. copy depth (R-COW), nothing else writes or aliases a registry or any other class-level container '
             '(R-SOLE-WRITER, R-GLOBAL-READONLY), library-made registrations (yaml.add_* fan-out, YAMLObject metaclass) target '
             'only the given/documented non-safe classes, all dispatchers read through self.',
        note=TRUST + 'User code that assigns the registries directly is outside the histories the property quantifies over.'),
    'C11': dict(
        level='other', technique='effect/alias analysis of class-level containers + post-dominance of per-document resets',
        design='DESIGN.md 4/C11',
        text='Decides the structural clauses that make calls and documents independent: no module/class-level container is '
             'mutated or handed out live during a call (directly, via locals, via aliasing instance fields); every '
             'per-document accumulator of composer/constructor/representer/serializer and their C siblings (computed from '
             '__init__ and the methods reachable from the per-document entry) is reset after each document; the parser sets '
             'tag handles/version for each document start; resolver descent is bracketed; one loader/dumper per API call, '
             'disposed in finally. Equality of results across histories as such is a run-time relation and is NOT decided.',
        note=TRUST + 'State inside libyaml structs is not visible.'),
}

CHECKS.update({
    'C12': dict(
        level='other', technique='scenario evaluation on the CFGs of the emitter\'s document states and scalar writers (three-valued, '
                                 'event class and option values as constants), state-machine / pushdown models of emitter and parser '
                                 'compared with the documented grammars, per-document reset by post-dominance',
        design='DESIGN.md 4/C12',
        text='Decides the structural clauses of both sides without which documents of a stream run together, are split or are '
             'dropped: every document after the first is introduced by "---", an explicit end writes "...", an open-ended last '
             'document is closed before the stream ends; the writers of texts that only a document marker delimits (root-level plain '
             'scalar, keep-chomped block scalar) set open_ended and a directive is written only after such a document was closed; '
             'marker-like scalars are never plain; emitter and parser accept exactly the documented grammars for streams of several '
             'documents (bounded sentence length); the look-ahead that decides a document\'s text stays inside the document; '
             'per-document state is reset; document markers are recognised at column 0 only; one document per iteration step. '
             'Equality of each document with its input for every option set (text fidelity of the scalar writers) and libyaml\'s '
             'own emitter are NOT decided.',
        note=TRUST + 'Earlier sessions listed C12 as not applicable; the clauses above became available as general rules in round 10 '
             '(DESIGN 4/C12, 12.2e). The claim is for these clauses, not for round-trip equality.'),
    'C03': dict(
        level='other', technique='raise-set resolution, guard-idiom dominance, per-character abstract interpretation of scanner loops',
        design='DESIGN.md 4/C03',
        text='Decides the exception-class, guard and loop-termination clauses: every explicit raise of reader/scanner/parser/'
             'composer (and the error mapping of the C binding) is a YAMLError subclass; every partial operation on input-derived '
             'data is dominated by an enumerated guard idiom or rests on a listed structural belief; for each character loop of '
             'the scanner and each class of current character one iteration leaves the loop or consumes input (leaves at the '
             'NUL sentinel); the sentinel is always appended and every chunk validated. Termination of the recursive-descent '
             'parser/composer, crashes inside libyaml and truth of error positions are NOT decided.',
        note=TRUST + 'Listed beliefs: parser state/mark stack balance (A-STACK), reader window (A-WINDOW, checked under C07).'),
    'C13': dict(
        level='other', technique='CFG dominance / post-dominance of guards and orderings on composer, constructor and their Cython siblings',
        design='DESIGN.md 4/C13',
        text='Decides the orderings and guards from which alias identity follows: undefined alias / duplicate anchor rejected with '
             'ComposerError before use; collection registered under its anchor before children are composed; anchors reset per '
             'document; construct_object consults the cache first, guards recursion, caches on every normal path, releases the '
             'recursion mark only after caching and resumes generators early only in deep mode; container constructors are '
             'two-phase and lazy; pending generators are drained before a document is returned. The identity relation of the '
             'result itself is a run-time relation and is NOT decided.',
        note=TRUST),
    'C18': dict(
        level='other', technique='shape rules on the generator API, read-size constancy, CFG reachability of token look-ahead',
        design='DESIGN.md 4/C18',
        text='Decides the structural conditions without which no read-ahead bound exists: iterating API functions are generators '
             'yielding one item per check/get step in try/finally dispose with no draining construct; the reader requests a '
             'constant block only inside its demand loops (C handler passes libyaml\'s size through); tokens are fetched only for '
             'an empty queue or a pending simple key that expires by line and by a character-distance constant; one parser step '
             'per request and no token look-ahead after a document end marker. The numeric bound (two refill blocks) is a '
             'run-time count and is NOT decided.',
        note=TRUST),
    'C19': dict(
        level='proof', technique='handler inventory over a name-based may-call graph + stream attribute whitelist + effect analysis',
        design='DESIGN.md 4/C19',
        text='Proof over the finite handler inventory that no except clause of the package (Python and .pyx) can intercept an '
             'exception originating in caller-supplied code without re-raising it unchanged (two enumerated, reasoned exceptions), '
             'that the API entry points only have try/finally dispose and dispose cannot fail, that only read/name and '
             'write/flush/encoding of a caller stream are touched (append-only output), that every cdef function that can raise '
             'declares `except` and no libyaml failure is dropped, and that no class/module-level state is written during a call '
             '(library left usable). This covers every interruption point because an exception can only be altered by a handler.',
        note=TRUST + 'The prefix property inside libyaml\'s own output buffer (C code) is not visible.'),
})

CHECKS.update({
    'C02': dict(
        level='other', technique='table/literal agreement between writer and reader, CFG pairing, constant evaluation of character predicates',
        design='DESIGN.md 4/C02',
        text='Round-trip equality is value-level and NOT decided. Decided are agreement clauses that are necessary for it: safe '
             'dumpers represent exactly the safe type universe and every tag they write has a safe constructor accepting the node '
             'kind; dumpers and loaders share one implicit-resolver table and the serializers compute implicit flags with it; plain '
             'style / tag elision only under those flags; escape tables inverse and raw characters printable; tag/anchor '
             'characters accepted by the scanner; break-class literals complete; event brackets; alias keys are ids of kept-alive '
             'objects and only immutable atoms skip anchoring; container constructors two-phase and lazy.',
        note=TRUST + 'Scalar analysis, folding, chomping/indent hints and width handling (the interactions named in why_tests_cant) '
             'are outside what these rules decide.'),
    'C05': dict(
        level='other', technique='CFG path rule over the emitter state machine, propositional model enumeration of conditions, literal agreement',
        design='DESIGN.md 4/C05',
        text='Decides: every explicit raise of the emitter is EmitterError and every state handler positively identifies the event '
             'class or raises on every path (ill-formed event sequences end in EmitterError); stack/queue/table look-ups of the '
             'emitter guarded; bytes iteration consistent; escape tables inverse; tag characters accepted by the scanner; plain/'
             'elision only under implicit flags; a directive line is preceded by "..." after an open-ended document (implication '
             'checked over all truth assignments); a prefix is replaced by its handle only when a non-empty suffix remains; '
             'break-class literals complete. Character-for-character fidelity of the scalar writers is NOT decided.',
        note=TRUST + 'A-EVENT-SHAPE: event objects carry well-typed payloads.'),
    'C14': dict(
        level='other', technique='CFG dominance of node-shape / hashability guards, alias analysis of the merge flattening',
        design='DESIGN.md 4/C14',
        text='Decides the rejection sentence (every use of a node as scalar/sequence/mapping/single-pair mapping is dominated by the '
             'test whose failure raises ConstructorError; dict store dominated by the hashability test) and the structural '
             'invariants merge precedence and source re-use rest on (flatten_mapping mutates only fresh lists and the node being '
             'flattened; merged pairs are prepended to own pairs). Precedence among several merge sources and merge recursion are '
             'value-level and NOT decided.',
        note=TRUST),
    'C15': dict(
        level='other', technique='keyword-binding check along the API/dumper/component chain, guard evaluation on probe values, funnel rules',
        design='DESIGN.md 4/C15',
        text='Decides: every option is forwarded keyword-for-keyword from the API through all six dumper classes to the component '
             'that implements it; indent/width/line_break only receive defaults or values their guard confines (guards evaluated '
             'on probe values); CR/LF reach the stream only through write_line_break and a text LF is never written verbatim; '
             'every write encodes when an encoding is set; str/bytes/BOM selection; document events built from the options per '
             'document (C emitter mapping included); "..." before directives after an open-ended document; raw tag/anchor '
             'characters are printable ASCII and accepted by the scanner. Per-line indentation and canonical-form acceptance are '
             'value-level and NOT decided.',
        note=TRUST),
    'C16': dict(
        level='other', technique='who-may-call rule for nondeterminism sources, shape rule on the sort gate, reset post-dominance',
        design='DESIGN.md 4/C16',
        text='Decides: no source of run-to-run variation on the dump path (id() only as alias key); items sorted with sorted() '
             'exactly when sort_keys, TypeError falls back to insertion order, sets pass the same gate; sort_keys plumbed; anchor '
             'names are a template of a per-document counter that is reset; loading inserts in document order. The fixed-point '
             'equality dump(load(dump(x))) == dump(x) is relational over runs and NOT decided.',
        note=TRUST),
    'C17': dict(
        level='other', technique='writer/reader vocabulary agreement over reconstructed tables and constant tag expressions',
        design='DESIGN.md 4/C17',
        text='Decides that Representer and the unsafe loaders speak the same protocol: every tag/prefix written has a table entry '
             'accepting the node kind; state keys written are read; list items applied by extend, dict items by item assignment, '
             'arguments constructed deep; exactly tuple/complex/name are in the Full tables; alias keys of kept-alive objects; '
             'recursion guard. Equality with what pickle rebuilds is value-level and NOT decided.',
        note=TRUST),
})

CHECKS.update({
    'C06': dict(
        level='other', technique='sibling cross-checking of the Cython binding (lowered to Python) against the Python components; LL(1) FOLLOW-set oracle',
        design='DESIGN.md 4/C06',
        text='What libyaml\'s C scanner/emitter do is outside the repository and NOT decided. Decided is the binding, which '
             're-implements composer, serializer and the token/event codecs: class composition of the 8 loader/dumper pairs, one '
             'codec branch per libyaml enum member building the homonymous class, consistent style constants, equal feature '
             'signatures of the two composers and the two serializers, error kinds mapped to the same exception classes, no '
             'dropped libyaml failure, identical option plumbing. For the Python side two oracles libyaml is known to follow: '
             'the FOLLOW sets of the documented LL(1) event grammar (computed by the checker) against every empty-node '
             'decision of parser.py, and the 1024-character simple-key window.',
        note=TRUST + 'A-LIBYAML: libyaml implements the documented grammar and the 1024-character limit.'),
    'C07': dict(
        level='other', technique='linear-form (interval) reasoning on reader index arithmetic, guard evaluation on probe buffers, CFG dominance',
        design='DESIGN.md 4/C07',
        text='Equality of results across encodings and chunkings is value-level and NOT decided. Decided: incremental decoding '
             '(final=eof, tail kept, append on refill, eof only on an empty read); refill guards and amounts of peek/prefix/'
             'forward cover the largest offset read; the BOM test runs only with two bytes or at end of input; reader error '
             'positions are the affine expressions implied by the reader invariants; every chunk validated, sentinel appended; '
             'constant read size; C input-handler cache arithmetic.',
        note=TRUST),
    'C08': dict(
        level='proof', technique='regular-language analysis: regex -> DFA inclusion/disjointness with witnesses + string abstract interpretation of the converters',
        design='DESIGN.md 4/C08',
        text='Every obligation is decided for strings of unbounded length by automata: each resolver language equals the YAML 1.1 '
             'type-repository language; first characters covered by the index; languages pairwise disjoint; resolver timestamp '
             'inside the constructor regex; every bool word has a value; string abstract interpretation of construct_yaml_int/'
             'float shows every int()/float()/[0] argument language inside the operation\'s domain; captured timestamp groups '
             'inside datetime\'s domains; the language each safe representer writes lies in the language the loader accepts. '
             'Refuted obligations are genuine defects listed as known findings, each scoped by the regular language of its '
             'counterexamples so that any other counterexample is still reported.',
        note=TRUST + 'Trusted models: CPython\'s documented grammars of int()/float() and output formats of str(int), repr(float), '
             'isoformat; the type-repository regexes transcribed in sa.rules_lang.REFERENCE.'),
    'C09': dict(
        level='other', technique='reaching definitions + dominance for mark order, per-character evaluation of break sets, path enumeration of parser state functions, LL(1) FOLLOW oracle',
        design='DESIGN.md 4/C09',
        text='That each mark equals the position obtained by counting breaks is a run-time equality and NOT decided. Decided: '
             'indent/flow-level pairing of the scanner; start mark taken before the reader moves and end mark at or after it for '
             'every two-mark token; the reader advances line exactly on what the scanner consumes as a break (CR LF once); '
             'index/pointer alignment and affine error positions; KEY inserted at the recorded token number before VALUE; '
             'every parser state path makes exactly one next-state decision and pushes exactly when it delegates to a node '
             'state; End events built from peeked tokens are zero-width; empty-node decisions test the grammar\'s FOLLOW sets.',
        note=TRUST),
})

# rules added in the strengthening rounds (DESIGN.md 12); appended to the level text of the property's check
ADDENDA = {
    'C01': ' Also: registrations computed at import time (loops over vars()/dir()) and fan-out to a computed set of classes are '
           'reported as "table not provably closed" (R-TABLE-CLOSED / R-FANOUT dynamic). R-MERGE-SHAPE / R-HASHABLE-GUARD are shared here: no merged pair is dropped before construction (an undispatched node is an accepted tag); dict keys count as constructed contents in R-RETURN-UNIVERSE.',
    'C02': ' Also: emitter simple-key bound x worst-case escape expansion vs the scanner\'s key window (R-SIMPLE-KEY-FITS, one '
           'known finding); indentation indicator for every leading space/break (R-BLOCK-HINT-LEADING); per-character '
           'evaluation of the scalar analysis for BOM / non-printables / non-ASCII (R-ANALYZE-SPECIAL). R-TIMESTAMP-EXACT (integer arithmetic only), R-ALIAS-KEY-FRESH, R-ESCAPE-INTRODUCER (\'%\' never written raw in tags), R-FOLD-LEADING-SPACE.',
    'C03': ' Also: parameters bound to the literal None by a caller are not dereferenced unguarded (R-NONE-DEREF). R-LOOKAHEAD-SUFFICIENT and R-BUFFER-ENCAPSULATED are shared here; R-REGEX-LINEAR (no exponential ambiguity in any regex matched against document text, decided on the Thompson automaton with path multiplicities); R-PLAIN-START-CONSUMED (check_plain / scan_plain agreement: no empty token without progress).',
    'C04': ' Also: getattr in find_python_name is applied to the module object only, never along an attribute chain '
           '(R-GETATTR-CHAIN); the unsafe switch is bound, by keyword or position, only to False or forwarded (R-UNSAFE-FLAG). Formatting a document-selected object into a string (implicit __repr__/__str__) is an S-dyncall sink; pkgutil/importlib are S-import sinks; R-MERGE-SHAPE shared.',
    'C05': ' Also: per-event caches are cleared on every exit of the process_* methods (R-EVENT-CACHE-RESET); tag-prefix table '
           'rebuilt per document (R-EMITTER-DOC-RESET); R-BLOCK-HINT-LEADING. R-ESCAPE-INTRODUCER, R-FOLD-LEADING-SPACE; R-EMITTER-GRAMMAR: the control of the emitter (states, continuation stack, look-ahead queue) is abstractly interpreted over event kinds and compared with the documented event grammar - every well-formed stream up to length 8 is processed, every ill-formed completion (well-formed prefix + up to 1 (quick) / 2 (thorough) arbitrary events + STREAM-END) raises EmitterError.',
    'C06': ' Also: document markers are recognised at column 0 only (R-DOCMARKER-COLUMN0, a forward dataflow over the scanner '
           'CFGs); end of input only on an empty read (shared R-INCREMENTAL-DECODE); the pushdown model extracted from the '
           'parser\'s state methods accepts exactly the sentences of the documented grammar up to length 6 (quick) / 8 '
           '(thorough) (R-PARSER-GRAMMAR). R-DIRECTIVES-RESET and R-RESOLVE-INDEX are shared here (LibYAML scopes %TAG per document and passes the event\'s implicit pair to resolve unchanged).',
    'C07': ' Also: what the decoder returned is appended to the buffer unmodified (R-DECODED-UNMODIFIED, reaching definitions). R-BUFFER-ENCAPSULATED (only the reader touches its window), R-STALE-SNAPSHOT (nothing computed from pointer/buffer is used across update()).',
    'C08': ' re.IGNORECASE and inline case variants are modelled. R-TIMESTAMP-INT-FIELDS, R-TIMESTAMP-EXACT, R-REGEX-LINEAR.',
    'C09': ' Also: get_mark builds a fresh Mark from index/line/column (R-MARK-FROM-POSITION); R-DOCMARKER-COLUMN0; '
           'R-PARSER-GRAMMAR (model of the parser state machine vs the documented grammar, both inclusions, bounded length). R-TOKEN-READY (queue head only after need_more_tokens() said no), R-COLUMN-PER-CHAR.',
    'C10': ' Also: every normal path through an add_* classmethod establishes ownership (R-COW-ALL-PATHS); fan-out targets '
           'are resolved through loops, helper functions and generators, a computed set of targets is a violation.',
    'C11': ' Also: R-EMITTER-DOC-RESET; no function changes interpreter-wide settings (R-NO-PROCESS-STATE). R-NO-MEMO (no lru_cache / cached_property anywhere).',
    'C13': ' Also: construct_sequence/mapping/pairs forward their deep argument (R-DEEP-FORWARDED). R-HASHABLE-GUARD shared; R-TWO-PHASE-KEPT (from_yaml returns the generator unconsumed; construct_document never enables deep construction).',
    'C15': ' Also: R-ANALYZE-SPECIAL and R-EMITTER-DOC-RESET. R-TAG-SUFFIX-NONEMPTY shared; R-FOLD-LEADING-SPACE.',
    'C16': ' Also: R-CONSTRUCT-CACHE (the loader gives back the sharing the dump wrote, for every node kind). R-GLOBAL-READONLY and R-NO-MEMO shared.',
    'C17': ' Also: both halves of a (dict, slots) state are applied on every path (R-STATE-APPLIED), the dict half through '
           '__dict__.update (R-DICT-STATE-DIRECT); the compact python/object: form only for __newobj__ reductions (R-NEWOBJ-FORM). R-SETSTATE-UNCONDITIONAL, R-ALIAS-KEY-FRESH.',
    'C18': ' Also: one stream.read per refill (R-SINGLE-READ); the dispose() the API calls releases every component\'s state '
           '(R-DISPOSE-CHAIN). R-NO-MEMO.',
    'C19': ' Also: R-NO-PROCESS-STATE and R-DISPOSE-CHAIN; the two enumerated handlers are recognised by shape, not by function name. R-NO-GENERATOR-AROUND-CALLBACK: every generator frame of the package from inside which caller-supplied code can run (PEP 479 turns the caller\'s StopIteration into RuntimeError) - 11 known findings on today\'s tree (the 4 iterating API functions and the 7 two-step constructors), any new frame is a violation.',
}

NOT_APPLICABLE = {
    'C20': 'The property is defined by interpreter-level call counts at sizes n, 2n, 4n - a run-time quantity. A static '
           'complexity bound would need loop-bound/amortisation reasoning not in reach, and a lint for "quadratic idioms" is a '
           'ranked heuristic that fires on today\'s correct code. The one structural anchor (simple-key window) is checked '
           'under C18.',
}


def _rules_run(pid):
    """the rule ids the check evaluated in its last run (from its evidence file; what each states is in coverage.rules)."""
    try:
        with open(os.path.join(VERIF, 'evidence', pid + '.json'), encoding='utf-8') as f:
            rules = sorted(json.load(f)['coverage'].get('rules', {}))
    except (OSError, ValueError, KeyError):
        return ''
    if not rules:
        return ''
    return (' Every rule listed here is a necessary condition of the property and is decided on the normalised AST / CFG '
            '(own rules and the shared bundles of sa/crosslist.py; DESIGN 12.2c): ' + ', '.join(rules) + '.')


def build():
    checks = []
    for pid in sorted(CHECKS):
        c = CHECKS[pid]
        mod = os.path.join(VERIF, 'checks', pid.lower() + '.py')
        if not os.path.exists(mod):
            continue
        checks.append({
            'property_id': pid,
            'quick_cmd': '%s -m checks.%s --tier quick' % (PY, pid.lower()),
            'thorough_cmd': '%s -m checks.%s --tier thorough' % (PY, pid.lower()),
            'evidence_file': '/verif/evidence/%s.json' % pid,
            'replay_cmd_template': '%s -m checks.%s --replay {path}' % (PY, pid.lower()),
            'engine': 'sa',
            'level_claimed': {'category': c['level'], 'text': c['text'] + ADDENDA.get(pid, '') + _rules_run(pid),
                              'design_ref': c['design']},
            'level_note': c['note'],
            'technique': 'static analysis: ' + c['technique'],
        })
    claimed = {c['property_id'] for c in checks}
    na = []
    props = [json.loads(l)['id'] for l in open(os.path.join(VERIF, 'properties.jsonl'))]
    for pid in props:
        if pid in claimed:
            continue
        reason = NOT_APPLICABLE.get(pid)
        if reason is None:
            reason = 'check not built yet in this session (the design claims structural clauses of this property; see DESIGN.md)'
        na.append({'property_id': pid, 'reason': reason})
    m = {
        'version': 1,
        'setup_cmd': '%s -m compileall -q sa checks' % PY,
        'hooks': {
            'guard': 'YAML_PYYAML_VERIF',
            'enable': 'none needed: every check is a static analysis of /repo\'s source files; no hook or instrumentation was '
                      'added to /repo (the only commits are the fix: commits listed in source_commits)',
            'baseline_off_cmd': 'cd /repo && /venv/bin/python -m pytest -ra -q -p no:cacheprovider --timeout=900 '
                                '--continue-on-collection-errors',
            'source_commits': ['e5f1071', '2eb0d72', '0fe7c83', '5b2856e', 'bad9c4b'],
            'add_only': True,
        },
        'engines': [{
            'name': 'sa', 'path': '/verif/sa',
            'serves_properties': sorted(claimed),
            'kind_free_text': 'repository-specific static analyser (stdlib only): source model with C3 MRO and star-import '
                              'resolution, source normalisation (helper inlining, constant substitution, canonical conditions), '
                              'short-circuit-lowered statement CFGs with dominance / reaching-definition queries, AST patterns with '
                              'metavariables, registry reconstruction, abstract '
                              'interpretation of the constructor family, effect/alias analysis, regular-language analysis '
                              'of the resolver regexes, a pushdown model of the parser compared with the documented grammar, '
                              'line-preserving lowering of _yaml.pyx',
        }],
        'checks': checks,
        'not_applicable': na,
        'notes': 'Exit codes: 0 holds (KNOWN-FINDING lines for listed findings), 1 VIOLATION, 2 ANALYSIS-ERROR (the analysis '
                 'could not be performed soundly on this tree). Checks read /repo (or $SA_REPO) on every run. '
                 'python -m sa.selftest / sa.seedtest validate the checkers on scratch copies and are not part of any check.',
    }
    return m


def main():
    m = build()
    with open(os.path.join(VERIF, 'MANIFEST.json'), 'w', encoding='utf-8') as f:
        json.dump(m, f, indent=1)
        f.write('\n')
    print('MANIFEST.json: %d checks, %d not_applicable' % (len(m['checks']), len(m['not_applicable'])))


if __name__ == '__main__':
    main()
