"""Necessary-condition rules of round 6.  Each states a structural fact of the resolved program without which the property
fails; all are decided on the normalised AST / CFG (roles, not names; no frozen text).

  R-NO-MUTATE-WHILE-ITERATING  C14 (+ all)  a container is not grown / shrunk inside a `for` loop that iterates over it
  R-KIND-EXIT                  C01/C14      every definition of construct_scalar/sequence/mapping/pairs leaves normally only after
                                            the node-kind test (its own, or the one of the same-named method it delegates to)
  R-FLATTEN-BEFORE-READ        C14          a merge source's pairs are read only after that source has itself been flattened
  R-MERGE-CYCLE-CUT            C13/C14      flatten_mapping removes the merge entry from the node before it recurses
  R-COMPOSE-VIA-DISPATCH       C13          compose_{scalar,sequence,mapping}_node are entered only through compose_node
  R-GENERATOR-DRAINED          C01/C13/C17  whatever a registered constructor returned reaches the generator test before it is used
  R-COW-MINIMAL                C10          an add_* classmethod gives the class its own copy only of the table it writes
  R-BOM-FOR-UTF16              C15          the byte-order mark is written for every UTF-16 spelling of the encoding option
  R-TAG-DIRECTIVE-EVERY-HANDLE C15/C05      every handle of DocumentStartEvent.tags gets its %TAG directive and its prefix entry
"""
import ast

from . import astutil as A
from . import charworld as CW
from .cfg import CFG, own_exprs, reaching_defs
from .srcmodel import AnalysisError, FuncInfo, norm, walk_function


def _method(repo, clsq, name):
    c = repo.cls(clsq)
    f = c.methods.get(name)
    if f is None:
        found = repo.lookup(c, name)
        if found and isinstance(found[1], FuncInfo):
            return found[1]
        raise AnalysisError('%s.%s has vanished' % (clsq, name))
    return f


def _all_funcs(repo, modules):
    for mn in modules:
        m = repo.modules.get(mn)
        if m is None:
            raise AnalysisError('module %s has vanished' % mn)
        for f in m.functions.values():
            yield f
        for c in m.classes.values():
            for f in c.methods.values():
                yield f


# ------------------------------------------------------------------------------------- R-NO-MUTATE-WHILE-ITERATING
RESIZERS = {'call:remove', 'call:pop', 'call:insert', 'call:append', 'call:extend', 'call:clear', 'call:popitem',
            'call:add', 'call:discard', 'delitem'}
VIEWS = ('items', 'keys', 'values')


def _iterated_container(it):
    """the container expression a `for` iterates over directly (x, x.items(), enumerate(x), reversed(x)); None for copies."""
    if isinstance(it, ast.Call):
        if isinstance(it.func, ast.Attribute) and it.func.attr in VIEWS and not it.args:
            return it.func.value
        if isinstance(it.func, ast.Name) and it.func.id in ('enumerate', 'reversed', 'iter') and it.args:
            return _iterated_container(it.args[0])
        return None
    if isinstance(it, (ast.Name, ast.Attribute)):
        return it
    return None


def _mutating_loops(fnode):
    """[(for stmt, mutation)] where the loop can come round again after the mutation of the container it iterates."""
    fors = [n for n in walk_function(fnode) if isinstance(n, ast.For)]
    if not fors:
        return []
    muts = [m for m in A.find_mutations(fnode) if m.kind in RESIZERS]
    if not muts:
        return []
    cfg = None
    out = []
    for loop in fors:
        cont = _iterated_container(loop.iter)
        if cont is None:
            continue
        ctext = norm(cont)
        inside = {id(x) for s in loop.body for x in ast.walk(s)}
        for m in muts:
            if id(m.node) not in inside or norm(m.receiver) != ctext:
                continue
            if cfg is None:
                cfg = CFG(fnode)
            heads = [n for n in cfg.nodes if n.kind == 'for' and n.stmt is loop]
            sites = cfg.nodes_of(m.stmt) or [n for n in cfg.nodes if n.stmt is m.stmt]
            if not heads or not sites:
                continue
            r = cfg.reach([x for s in sites for (x, lab) in cfg.succ[s] if lab != 'exc'], follow_exc=False)
            if any(h in r for h in heads):
                out.append((loop, m))
    return out


_WITNESS = '''
def witness(self, node):
    for item in node.value:
        if item[0].tag == 'x':
            node.value.remove(item)
def silent(self, node):
    for item in list(node.value):
        node.value.remove(item)
    for k in node.value:
        if k:
            node.value.remove(k)
            break
'''


def r_no_mutate_while_iterating(ctx, repo, modules):
    rule = ctx.rule('R-NO-MUTATE-WHILE-ITERATING', 'no `for` loop iterates directly over a list / dict / set that its own body grows or '
                                                   'shrinks and then continues: the iterator would skip or repeat entries')
    # the detector itself is exercised on every run (expected count on the repository is zero)
    from .srcmodel import set_parents
    wt = ast.parse(_WITNESS)
    set_parents(wt)
    w, s = wt.body
    if len(_mutating_loops(w)) != 1 or _mutating_loops(s):
        raise AnalysisError('R-NO-MUTATE-WHILE-ITERATING: the built-in witness is no longer recognised')
    n = 0
    for f in _all_funcs(repo, modules):
        loops = [x for x in walk_function(f.node) if isinstance(x, ast.For)]
        n += len(loops)
        for loop, m in _mutating_loops(f.node):
            rule.fail('%s|%s' % (f.qualname, m.kind), f.module.rel, m.node.lineno, f.qualname, A.anon_text(m.stmt, f.node, 70),
                      '%s changes the size of %s inside the `for` loop (line %d) that iterates over it and goes on iterating: '
                      'the entry after a removed one is skipped (two adjacent entries: the second is never visited)'
                      % (f.name, norm(m.receiver), loop.lineno))
    rule.instances += n
    rule.ok('%d modules' % len(modules), '%d for-loops examined' % n)
    return rule


# --------------------------------------------------------------------------------------------------- R-KIND-EXIT
KIND_METHODS = {'construct_scalar': 'ScalarNode', 'construct_sequence': 'SequenceNode', 'construct_mapping': 'MappingNode',
                'construct_pairs': 'MappingNode'}


def _kind_true_edges(cfg, var, kind):
    out = []
    for n in cfg.nodes:
        if n.kind != 'test' or not isinstance(n.ast, ast.Call):
            continue
        c = n.ast
        if norm(c.func) == 'isinstance' and len(c.args) == 2 and isinstance(c.args[0], ast.Name) and c.args[0].id == var:
            kinds = [norm(x) for x in c.args[1].elts] if isinstance(c.args[1], ast.Tuple) else [norm(c.args[1])]
            if kinds == [kind]:
                out.append((n, True))
    return out


def r_kind_exit(ctx, repo):
    rule = ctx.rule('R-KIND-EXIT', 'every definition of construct_scalar / construct_sequence / construct_mapping / construct_pairs '
                                   'returns normally only after the isinstance test of its node (its own, or that of the same-named '
                                   'method it hands the node to): a node of another kind is rejected, never answered')
    mod = repo.modules['constructor']
    for c in mod.classes.values():
        for name, kind in KIND_METHODS.items():
            f = c.methods.get(name)
            if f is None or len(f.params) < 2:
                continue
            cfg = CFG(f.node)
            node = f.params[1]
            edges = _kind_true_edges(cfg, node, kind)
            deleg = []
            for n in cfg.nodes:
                if n.ast is None or n.kind in ('test',):
                    continue
                for x in own_exprs(n):
                    if isinstance(x, ast.Call) and isinstance(x.func, ast.Attribute) and x.func.attr == name and (
                            norm(x.func.value) in ('super()', f.params[0]) or isinstance(x.func.value, ast.Name)):
                        deleg.append(n)
                        break
            r = cfg.reach([cfg.entry], blocked=deleg, blocked_edges=edges, follow_exc=False)
            leaks = [x for x in cfg.normal_exits() if x in r]
            if not leaks:
                rule.ok(f.loc(), '%s.%s: every normal exit follows the %s test or the delegation' % (c.name, name, kind))
                continue
            rets = sorted((x for x in r if x.kind == 'return'), key=lambda x: x.lineno)
            at = rets[0] if rets else None
            rule.fail('%s|exit' % f.qualname, f.module.rel, at.lineno if at else f.node.lineno, f.qualname,
                      A.anon_text(at.ast, f.node, 60) if at else 'end of function',
                      '%s.%s can return a value for a node that was never tested with isinstance(%s, %s) nor handed to the '
                      'checking %s: a node of another kind under this tag is answered instead of being rejected with ConstructorError'
                      % (c.name, name, node, kind, name))
    rule.require_min(4, 'construct_* definitions')
    return rule


# ------------------------------------------------------------------------------------------ merge flattening rules
def _flatten(repo):
    return _method(repo, 'constructor.SafeConstructor', 'flatten_mapping')


def _recursive_calls(cfg, f):
    out = []
    for n in cfg.nodes:
        if n.ast is None:
            continue
        for x in own_exprs(n):
            if isinstance(x, ast.Call) and isinstance(x.func, ast.Attribute) and x.func.attr == f.name \
                    and norm(x.func.value) == f.params[0] and len(x.args) == 1:
                out.append((n, x))
    return out


def r_flatten_before_read(ctx, repo):
    rule = ctx.rule('R-FLATTEN-BEFORE-READ', 'in flatten_mapping the pairs of a merge source are taken (X.value handed to extend / '
                                             'append / +) only after flatten_mapping(X) on every path from where X was bound: flattening '
                                             'rebinds X.value, so a list taken earlier still lacks the source\'s own merges')
    f = _flatten(repo)
    cfg = CFG(f.node)
    node = f.params[1]
    calls = _recursive_calls(cfg, f)
    n_uses = 0
    for n in cfg.nodes:
        if n.ast is None or n.kind not in ('stmt', 'return'):
            continue
        for x in own_exprs(n):
            if not (isinstance(x, ast.Attribute) and x.attr == 'value' and isinstance(x.value, ast.Name) and x.value.id != node
                    and isinstance(x.ctx, ast.Load)):
                continue
            par = getattr(x, '_parent', None)
            captured = (isinstance(par, ast.Call) and x in par.args and isinstance(par.func, ast.Attribute)
                        and par.func.attr in ('extend', 'append', 'insert')) or isinstance(par, ast.BinOp) \
                or (isinstance(par, (ast.Assign, ast.AugAssign)) and par.value is x)
            if not captured:
                continue
            var = x.value.id
            n_uses += 1
            flat = [m for (m, c) in calls if isinstance(c.args[0], ast.Name) and c.args[0].id == var]
            rd = reaching_defs(cfg, var).get(n, set())
            bad = None
            for d in rd:
                starts = [s for (s, lab) in cfg.succ[d] if lab != 'exc' and not (d.kind == 'for' and lab is False)]
                if d is n or n in cfg.reach(starts, blocked=flat, follow_exc=False):
                    bad = d
                    break
            if not rd:
                raise AnalysisError('flatten_mapping: %s is read without a definition' % var)
            if bad is None:
                rule.ok(f.loc(n.ast), 'the pairs of a merge source are read after it was flattened')
            else:
                rule.fail('%s|read-before-flatten' % f.qualname, f.module.rel, n.lineno, f.qualname, A.anon_text(n.ast, f.node, 70),
                          'flatten_mapping takes %s.value before flatten_mapping(%s) has run on some path: flattening assigns a new '
                          'list to .value, so the captured pairs lack the keys that the source itself inherits through `<<` '
                          '(merges no longer apply recursively for that source)' % (var, var))
    if not n_uses:
        raise AnalysisError('flatten_mapping: no place where the pairs of a merge source are taken was found')
    return rule


def r_merge_cycle_cut(ctx, repo):
    rule = ctx.rule('R-MERGE-CYCLE-CUT', 'flatten_mapping takes the `<<` entry out of node.value before it recurses into the merged '
                                         'node(s): that removal is what ends the recursion when a mapping merges itself (directly or '
                                         'through another mapping)')
    f = _flatten(repo)
    cfg = CFG(f.node)
    node = f.params[1]
    target = '%s.value' % node
    cuts = []
    for m in A.find_mutations(f.node):
        if (m.kind in ('delitem', 'call:remove', 'call:pop', 'call:clear') and norm(m.receiver) == target) or \
                (m.kind == 'rebind' and norm(m.receiver) == target):
            cuts.extend(cfg.nodes_of(m.stmt) or [n for n in cfg.nodes if n.stmt is m.stmt])
    calls = _recursive_calls(cfg, f)
    if not calls:
        raise AnalysisError('flatten_mapping no longer calls itself for the merged nodes')
    for n, c in calls:
        if cuts and cfg.guarded(n, nodes=cuts):
            rule.ok(f.loc(n.ast), 'the merge entry is removed before flatten_mapping(%s)' % A.anon_text(c.args[0], f.node))
        else:
            rule.fail('%s|recursion-before-removal' % f.qualname, f.module.rel, n.lineno, f.qualname, A.anon_text(n.ast, f.node, 70),
                      'flatten_mapping recurses into a merged node while the `<<` entry is still in %s: a mapping that merges itself '
                      '(&a {<<: *a}) or two mappings merging each other recurse until RecursionError instead of loading' % target)
    return rule


# ---------------------------------------------------------------------------------------- R-COMPOSE-VIA-DISPATCH
def r_compose_via_dispatch(ctx, repo):
    rule = ctx.rule('R-COMPOSE-VIA-DISPATCH', 'compose_scalar_node / compose_sequence_node / compose_mapping_node are called only by '
                                              'compose_node, which has checked the alias / duplicate-anchor rules for the event')
    names = ('compose_scalar_node', 'compose_sequence_node', 'compose_mapping_node')
    comp = repo.cls('composer.Composer')
    for nm in names:
        if nm not in comp.methods:
            raise AnalysisError('Composer.%s has vanished' % nm)
    n_sites = 0
    for f in _all_funcs(repo, list(repo.modules)):
        for c in A.func_calls(f.node):
            if isinstance(c.func, ast.Attribute) and c.func.attr in names:
                n_sites += 1
                if f.name == 'compose_node' and f.cls is not None and (f.cls.name == 'Composer' or 'Composer' in [
                        b.name for b in repo.mro(f.cls)]):
                    rule.ok(f.loc(c), '%s called from compose_node' % c.func.attr)
                else:
                    rule.fail('%s|%s' % (f.qualname, c.func.attr), f.module.rel, c.lineno, f.qualname, A.anon_text(c, f.node, 60),
                              '%s calls %s directly: the node is composed without compose_node\'s checks, so a second definition '
                              'of an anchor is accepted (later aliases silently bind to the new node) and an alias event is '
                              'misread' % (f.qualname, c.func.attr))
    if n_sites < 3:
        raise AnalysisError('R-COMPOSE-VIA-DISPATCH: only %d call sites of compose_*_node found' % n_sites)
    return rule


# ------------------------------------------------------------------------------------------- R-GENERATOR-DRAINED
REG_TABLES = ('yaml_constructors', 'yaml_multi_constructors')


def _is_reg_fetch(e):
    return isinstance(e, ast.Subscript) and isinstance(e.value, ast.Attribute) and e.value.attr in REG_TABLES or (
        isinstance(e, ast.Call) and isinstance(e.func, ast.Attribute) and e.func.attr == 'get'
        and isinstance(e.func.value, ast.Attribute) and e.func.value.attr in REG_TABLES)


def r_generator_drained(ctx, repo):
    rule = ctx.rule('R-GENERATOR-DRAINED', 'the result of calling a constructor fetched from yaml_constructors / '
                                           'yaml_multi_constructors passes the isinstance(..., GeneratorType) test on every path to a '
                                           'normal exit: a two-step constructor\'s generator is never cached or returned as data')
    n_calls = 0
    for f in _all_funcs(repo, ['constructor']):
        fetched = set()
        for n in walk_function(f.node):
            if isinstance(n, ast.Assign) and _is_reg_fetch(n.value):
                for t in n.targets:
                    if isinstance(t, ast.Name):
                        fetched.add(t.id)
        cands = [c for c in A.func_calls(f.node) if _is_reg_fetch(c.func) or (isinstance(c.func, ast.Name) and c.func.id in fetched)]
        if not cands:
            continue
        cfg = CFG(f.node)
        tests = [n for n in cfg.nodes if n.kind == 'test' and isinstance(n.ast, ast.Call) and (
            (norm(n.ast.func) == 'isinstance' and len(n.ast.args) == 2 and norm(n.ast.args[1]).endswith('GeneratorType'))
            or norm(n.ast.func).endswith('isgenerator'))]
        for c in cands:
            st = A.enclosing_stmt(c)
            sites = cfg.nodes_of(st) or [n for n in cfg.nodes if n.stmt is st]
            if not sites:
                raise AnalysisError('%s: call of a registered constructor is not a statement of the function' % f.qualname)
            n_calls += 1
            starts = [m for s in sites for (m, lab) in cfg.succ[s] if lab != 'exc']
            r = cfg.reach(starts, blocked=tests, follow_exc=False)
            if any(x in r for x in cfg.normal_exits()) or any(s.kind == 'return' for s in sites):
                rule.fail('%s|undrained' % f.qualname, f.module.rel, c.lineno, f.qualname, A.anon_text(st, f.node, 70),
                          '%s calls a constructor taken from the registry and can finish without testing the result for '
                          'GeneratorType: for the two-step constructors (!!seq, !!map, !!set, !!omap, !!pairs, python objects) the '
                          'generator object itself becomes the loaded value' % f.qualname)
            else:
                rule.ok(f.loc(c), 'result of the registered constructor reaches the generator test')
    if n_calls < 1:
        raise AnalysisError('R-GENERATOR-DRAINED: no call of a registered constructor found')
    return rule


# ------------------------------------------------------------------------------------------------- R-COW-MINIMAL
def r_cow_minimal(ctx, repo):
    from . import rules_registry as RR
    rm = RR.model(repo)
    rule = ctx.rule('R-COW-MINIMAL', 'an add_* classmethod rebinds (copies) only the class-level table it then writes: a class that '
                                     'registered one kind of entry keeps inheriting every other table from its base')
    regnames = set(rm.regs)
    seen = set()
    for reg in rm.regs.values():
        for w in reg.writers:
            f = w.func
            if f.qualname in seen:
                continue
            seen.add(f.qualname)
            cls = f.params[0]
            rebound, written = {}, set()
            for m in A.find_mutations(f.node):
                root = m.root if m.kind != 'rebind' else m.receiver
                if not (isinstance(root, ast.Attribute) and isinstance(root.value, ast.Name) and root.value.id == cls
                        and root.attr in regnames):
                    continue
                if m.kind == 'rebind':
                    rebound.setdefault(root.attr, m)
                else:
                    written.add(root.attr)
            # writes through a local alias of the table (x = cls.T; x[k] = v)
            for n in walk_function(f.node):
                if isinstance(n, ast.Assign) and isinstance(n.value, ast.Attribute) and isinstance(n.value.value, ast.Name) \
                        and n.value.value.id == cls and n.value.attr in regnames:
                    written.add(n.value.attr)
            for nm, m in sorted(rebound.items()):
                if nm in written:
                    rule.ok(f.loc(m.node), '%s copies %s, the table it writes' % (f.name, nm))
                else:
                    rule.fail('%s|%s' % (f.qualname, nm), f.module.rel, m.node.lineno, f.qualname, A.anon_text(m.stmt, f.node, 70),
                              '%s gives the class its own copy of %s although it registers nothing there: after a registration of '
                              'another kind the class no longer sees what its base class registers in %s later' % (f.qualname, nm, nm))
    rule.require_min(5, 'add_* writers')
    return rule


# ----------------------------------------------------------------------------------------------- R-BOM-FOR-UTF16
def r_bom_for_utf16(ctx, repo):
    rule = ctx.rule('R-BOM-FOR-UTF16', 'write_stream_start writes the byte-order mark for every UTF-16 spelling of the encoding option '
                                       '(utf-16, utf-16-le, utf-16-be, utf-16le, utf-16be) and for no other encoding: without it the '
                                       'library\'s own reader takes the bytes for UTF-8')
    f = _method(repo, 'emitter.Emitter', 'write_stream_start')
    cfg = CFG(f.node)
    boms = [n for n in cfg.nodes if n.ast is not None and n.kind == 'stmt' and any(
        isinstance(x, ast.Constant) and x.value == '\ufeff' for x in ast.walk(n.ast))]
    if not boms:
        raise AnalysisError('write_stream_start: no statement writing U+FEFF found')
    must = ['utf-16', 'utf-16-le', 'utf-16-be', 'utf-16le', 'utf-16be']
    mustnt = [None, 'utf-8', 'ascii', 'latin-1']
    for enc, want in [(e, True) for e in must] + [(e, False) for e in mustnt]:
        def atom(t, enc=enc):
            return A.const_truth(t, {'self.encoding': enc})
        r = A.cfg_reach_under(cfg, atom)
        reached = any(b in r for b in boms)
        avoiding = A.cfg_reach_under(cfg, atom, blocked=boms, follow_exc=False)
        certain = reached and not any(x in avoiding for x in cfg.normal_exits())
        if want and not certain:
            rule.fail('%s|no-bom|%s' % (f.qualname, enc), f.module.rel, boms[0].lineno, f.qualname, 'encoding=%r' % enc,
                      'with encoding=%r write_stream_start can finish without writing the byte-order mark: the bytes returned by '
                      'dump(..., encoding=%r) are read back as UTF-8 by the library\'s reader and rejected' % (enc, enc))
        elif not want and reached:
            rule.fail('%s|bom|%s' % (f.qualname, enc), f.module.rel, boms[0].lineno, f.qualname, 'encoding=%r' % enc,
                      'with encoding=%r a byte-order mark is written' % (enc,))
        else:
            rule.ok(f.loc(boms[0].ast), 'encoding=%r: BOM %s' % (enc, 'written' if want else 'not written'))
    return rule


# ---------------------------------------------------------------------------------- R-TAG-DIRECTIVE-EVERY-HANDLE
def r_tag_directive_every_handle(ctx, repo):
    rule = ctx.rule('R-TAG-DIRECTIVE-EVERY-HANDLE', 'in expect_document_start every iteration over the handles of event.tags writes '
                                                    'the %TAG directive and records the prefix: no handle of the requested table is '
                                                    'skipped')
    f = _method(repo, 'emitter.Emitter', 'expect_document_start')
    cfg = CFG(f.node)
    writes = [n for n in cfg.nodes if n.ast is not None and any(
        isinstance(x, ast.Call) and isinstance(x.func, ast.Attribute) and x.func.attr == 'write_tag_directive' for x in own_exprs(n))]
    if not writes:
        raise AnalysisError('expect_document_start: write_tag_directive is not called')
    records = [n for n in cfg.nodes if n.kind == 'stmt' and isinstance(n.ast, ast.Assign) and any(
        isinstance(t, ast.Subscript) and norm(t.value) == 'self.tag_prefixes' for t in n.ast.targets)]
    loops = []
    for w in writes:
        p = getattr(w.stmt, '_parent', None)
        while p is not None and not isinstance(p, (ast.For, ast.While, ast.FunctionDef)):
            p = getattr(p, '_parent', None)
        if not isinstance(p, ast.For):
            raise AnalysisError('expect_document_start: write_tag_directive is not inside a for loop over the handles')
        loops.append((p, w))
    for loop, w in loops:
        head = [n for n in cfg.nodes if n.kind == 'for' and n.stmt is loop]
        if not head:
            raise AnalysisError('expect_document_start: loop head not found')
        head = head[0]
        starts = [m for (m, lab) in cfg.succ[head] if lab is True]
        for what, sites in (('write its %TAG directive', [w]), ('record its prefix in self.tag_prefixes', records)):
            r = cfg.reach(starts, blocked=sites, follow_exc=False)
            if not sites or head in r or any(x in r for x in cfg.normal_exits()):
                rule.fail('%s|skip|%s' % (f.qualname, what.split()[0]), f.module.rel, loop.lineno, f.qualname,
                          A.anon_text(loop.iter, f.node, 50),
                          'an iteration over the handles of event.tags can go on to the next handle without having to %s: the '
                          'tags= table of the caller (e.g. one restating `!!`) is not reproduced as directives, and the re-parsed '
                          'DocumentStartEvent.tags differs' % what)
            else:
                rule.ok(f.loc(loop), 'each handle must %s' % what)
    return rule
