"""R-PARTIAL-GUARDED: partial operations on input-derived data and the repository's guard idioms (DESIGN 3.6).

Every conversion call (int/float/complex/chr/ord/bytes/.decode/.encode), every non-slice subscript load,
every .pop()/.index()/.remove(), every tuple unpacking of a non-display and every assert in the analysed
modules is classified as

  guarded   one of the enumerated idioms dominates it (G-in, G-iter, G-len, G-try, G-chars, G-bound, G-arity ...)
  assumed   it rests on a stated structural belief that another rule establishes (listed in the evidence)
  UNGUARDED reported with the exception class it can raise
"""
import ast
import re

from . import astutil as A
from .cfg import CFG, own_exprs
from .srcmodel import AnalysisError, FuncInfo, norm, walk_function

DIGITS = {10: '0123456789', 16: '0123456789abcdefABCDEF', 8: '01234567', 2: '01'}
INT_STR_LIMIT = 4300   # CPython's default limit for int(str) of decimal strings


class Site:
    def __init__(self, func, node, kind, text, exc):
        self.func = func
        self.node = node
        self.kind = kind      # conv sub pop unpack assert
        self.text = text
        self.exc = exc
        self.verdict = None   # ('guarded', idiom) / ('assumed', reason) / ('unguarded', why)

    def key(self):
        # local variable names are not part of a construct's identity
        node = self.node
        if self.kind == 'match' and not isinstance(node.func.value, ast.Name):
            # `rx.match(s).groupdict()` is the same construct as `m = rx.match(s) ... m.groupdict()`
            node = ast.Call(func=ast.Attribute(value=ast.Name(id='_', ctx=ast.Load()), attr=node.func.attr, ctx=ast.Load()),
                            args=node.args, keywords=node.keywords)
        return '%s|%s|%s' % (self.func.qualname, A.anon_text(node, self.func.node, 80), self.exc)


PURE_OBSERVERS = {'isinstance', 'issubclass', 'len', 'type', 'id', 'repr', 'str', 'bool', 'hasattr', 'getattr', 'callable'}


def local_value(cfg, at, name, _cache=None):
    """the expression the local `name` certainly stands for when control reaches the CFG node `at`, or None.

    The only definition of `name` that reaches `at` is a plain `name = <expr>`; on no path from that definition to `at`
    is a variable read by <expr> re-bound, nor an object <expr> reads from mutated / handed to a call that could mutate
    it.  Evaluating <expr> at `at` would therefore give the value the local holds: `n = len(x.value) ... if n != 1` is
    the test `len(x.value) != 1`."""
    from .cfg import defs_of, reaching_defs
    key = ('rd', name)
    if _cache is not None and key in _cache:
        rd = _cache[key]
    else:
        rd = reaching_defs(cfg, name, entry_def=True)
        if _cache is not None:
            _cache[key] = rd
    defs = rd.get(at, set())
    if len(defs) != 1:
        return None
    d = next(iter(defs))
    a = d.ast
    if d is cfg.entry or not (isinstance(a, ast.Assign) and len(a.targets) == 1 and isinstance(a.targets[0], ast.Name)
                              and a.targets[0].id == name):
        return None
    reads = A.names_read(a.value)
    if name in reads:
        return None
    after = cfg.reach([m for (m, lab) in cfg.succ[d]], blocked=[d])
    for x in after:
        if x is at or x.ast is None or at not in cfg.reach([x], blocked=[d]):
            continue
        # x lies between the definition and the use
        if any(defs_of(x, v) for v in reads):
            return None
        own = list(own_exprs(x))
        for m in A.find_mutations(own):
            if A.names_read(m.receiver) & reads:
                return None
        for c in own:
            if isinstance(c, ast.Call) and norm(c.func) not in PURE_OBSERVERS:
                operands = list(c.args) + [k.value for k in c.keywords]
                if isinstance(c.func, ast.Attribute):
                    operands.append(c.func.value)
                if any(A.names_read(o) & reads for o in operands):
                    return None
    return a.value


CONV = {'int': 'ValueError', 'float': 'ValueError', 'complex': 'ValueError', 'chr': 'ValueError,OverflowError',
        'ord': 'TypeError', 'bytes': 'ValueError'}


def _is_match_call(e):
    return isinstance(e, ast.Call) and isinstance(e.func, ast.Attribute) and e.func.attr in ('match', 'search', 'fullmatch')


def collect_sites(repo, func):
    out = []
    for n in walk_function(func.node):
        if isinstance(n, ast.Call):
            fn = norm(n.func)
            if fn in CONV and n.args and not all(isinstance(a, ast.Constant) for a in n.args):
                out.append(Site(func, n, 'conv', norm(n)[:80], CONV[fn]))
            elif isinstance(n.func, ast.Attribute) and n.func.attr in ('decode', 'encode') and n.args:
                out.append(Site(func, n, 'conv', norm(n)[:80],
                                'UnicodeDecodeError' if n.func.attr == 'decode' else 'UnicodeEncodeError'))
            elif isinstance(n.func, ast.Attribute) and n.func.attr == 'raw_decode':
                out.append(Site(func, n, 'conv', norm(n)[:80], 'UnicodeDecodeError'))
            elif isinstance(n.func, ast.Attribute) and n.func.attr in ('pop', 'popitem') and len(n.args) <= 1:
                out.append(Site(func, n, 'pop', norm(n)[:80], 'IndexError'))
            elif isinstance(n.func, ast.Attribute) and n.func.attr in ('index', 'remove') and len(n.args) == 1:
                out.append(Site(func, n, 'pop', norm(n)[:80], 'ValueError'))
            elif fn in ('base64.decodebytes', 'base64.decodestring', 'base64.b64decode'):
                out.append(Site(func, n, 'conv', norm(n)[:80], 'binascii.Error'))
            elif fn in ('datetime.date', 'datetime.datetime', 'datetime.timezone', 'datetime.time'):
                out.append(Site(func, n, 'conv', norm(n)[:80], 'ValueError'))
            elif isinstance(n.func, ast.Attribute) and n.func.attr in ('groupdict', 'group', 'groups') \
                    and (isinstance(n.func.value, ast.Name) or _is_match_call(n.func.value)):
                out.append(Site(func, n, 'match', norm(n)[:80], 'AttributeError'))
        elif isinstance(n, ast.Subscript) and isinstance(n.ctx, (ast.Load, ast.Del)) and not isinstance(n.slice, ast.Slice):
            out.append(Site(func, n, 'sub', norm(n)[:80], 'KeyError/IndexError'))
        elif isinstance(n, ast.Assign) and any(isinstance(t, (ast.Tuple, ast.List)) for t in n.targets) \
                and not isinstance(n.value, (ast.Tuple, ast.List)):
            out.append(Site(func, n, 'unpack', norm(n).split('\n')[0][:80], 'ValueError/TypeError'))
        elif isinstance(n, (ast.For, ast.comprehension)) and isinstance(n.target, (ast.Tuple, ast.List)):
            out.append(Site(func, n, 'unpack', 'for %s in %s' % (norm(n.target), norm(n.iter)[:50]), 'ValueError/TypeError'))
        elif isinstance(n, ast.Assert):
            out.append(Site(func, n, 'assert', norm(n)[:80], 'AssertionError'))
    return out


# ------------------------------------------------------------------------------------------------

class Judge:
    def __init__(self, repo, func, yaml_error_ok=True, assume=None):
        self.repo = repo
        self.f = func
        self.cfg = CFG(func.node)
        self.sn = func.params[0] if func.params and func.cls is not None else None
        self.assume = assume or {}
        self.at = None
        self._lv_cache = {}

    # -- helpers ---------------------------------------------------------
    def nodes_of(self, node):
        st = A.enclosing_stmt(node)
        out = list(self.cfg.nodes_of(st))
        if not out:
            # the node sits in the test of a compound statement
            p = node
            while p is not None and not out:
                out = list(self.cfg.nodes_of(p))
                p = getattr(p, '_parent', None)
        return out

    def guarded_by_edges(self, node, edges, extra_nodes=()):
        ns = self.nodes_of(node)
        return bool(ns) and all(self.cfg.guarded(n, nodes=extra_nodes, edges=edges) for n in ns)

    def test_edges(self, pred):
        """edges (test node, label) for tests where pred(test expr) returns the label on which the fact holds."""
        out = []
        for n in self.cfg.nodes:
            if n.kind == 'test':
                self.at = n       # the test being looked at, for predicates that resolve locals (local_value)
                for lab in self._labels(n.ast, pred):
                    out.append((n, lab))
        self.at = None
        return out

    def standing_for(self, e):
        """the expression a local name stands for at the test being examined (see local_value), else e itself."""
        if isinstance(e, ast.Name) and self.at is not None:
            v = local_value(self.cfg, self.at, e.id, self._lv_cache)
            if v is not None:
                return v
        return e

    def _labels(self, test, pred):
        """labels of `test` under which pred certainly holds (handles not / and / or)."""
        inner, pos = A.strip_not(test)
        r = pred(inner)
        if r is not None:
            return [r if pos else (not r)]
        if isinstance(inner, ast.BoolOp):
            subs = [self._labels(v, pred) for v in inner.values]
            if isinstance(inner.op, ast.And):
                # the True edge of (a and b) implies every conjunct
                if any(True in s for s in subs):
                    return [True] if pos else [False]
            else:
                # the False edge of (a or b) implies the negation of every disjunct
                if any(False in s for s in subs):
                    return [False] if pos else [True]
        return []

    def field_kind(self, attr):
        """'dict' / 'list' / 'str' for self.<attr> from its initialisation, else None."""
        cls = self.f.cls
        if cls is None:
            return None
        kinds = set()
        classes = [cls] + [k for k in self.repo.classes.values() if k.module is cls.module]
        for k in self.repo.classes.values():
            if k is cls or cls.is_subclass_of(k) or k.is_subclass_of(cls) or k.module.name in (
                    'reader', 'scanner', 'parser', 'composer', 'resolver', 'constructor', 'emitter', 'serializer',
                    'representer', '_yaml'):
                for v in k.attrs.get(attr, []):
                    kinds.add(_kind_of(v))
                for m in k.methods.values():
                    sn = m.params[0] if m.params else None
                    for n in walk_function(m.node):
                        if isinstance(n, ast.Assign):
                            for t in n.targets:
                                if A.is_attr(t, sn, attr):
                                    kinds.add(_kind_of(n.value))
        kinds.discard(None)
        if len(kinds) == 1:
            return kinds.pop()
        return None

    # -- idioms ------------------------------------------------------------
    def g_try(self, site, classes):
        """enclosing try whose handlers catch all of `classes` and raise a YAMLError subclass."""
        p = site.node
        while p is not None and p is not self.f.node:
            par = getattr(p, '_parent', None)
            if isinstance(par, ast.Try) and p in par.body:
                caught = set()
                ok = True
                for h in par.handlers:
                    names = []
                    if h.type is None:
                        names = ['*']
                    elif isinstance(h.type, ast.Tuple):
                        names = [norm(e) for e in h.type.elts]
                    else:
                        names = [norm(h.type)]
                    for nm in names:
                        caught.add(nm.split('.')[-1])
                    if not _handler_raises_yaml(self.repo, self.f, h) and not _handler_recovers(h):
                        ok = False
                need = set(c.split('.')[-1] for c in classes)
                sup = {'UnicodeDecodeError': {'UnicodeError', 'ValueError'}, 'UnicodeEncodeError': {'UnicodeError', 'ValueError'},
                       'KeyError': {'LookupError'}, 'IndexError': {'LookupError'}, 'OverflowError': {'ArithmeticError'},
                       'Error': set()}
                if ok and all((c in caught) or (sup.get(c, set()) & caught) for c in need):
                    return 'G-try (%s -> YAML error)' % ','.join(sorted(need))
            p = par
        return None

    def g_in(self, container, key):
        """`key in container` holds on every path to the site (incl. `if key not in container: raise`)."""
        ct, kt = norm(container), norm(key)

        def pred(t):
            if isinstance(t, ast.Compare) and len(t.ops) == 1 and norm(t.left) == kt and norm(t.comparators[0]) == ct:
                if isinstance(t.ops[0], ast.In):
                    return True
                if isinstance(t.ops[0], ast.NotIn):
                    return False
            # x = container.get(key) ... `x is not None`: the key is present
            if isinstance(t, ast.Compare) and len(t.ops) == 1 and isinstance(t.left, ast.Name) and t.left.id in got \
                    and isinstance(t.comparators[0], ast.Constant) and t.comparators[0].value is None:
                if isinstance(t.ops[0], ast.IsNot):
                    return True
                if isinstance(t.ops[0], ast.Is):
                    return False
            return None
        got = set()
        stores = {}
        for n in walk_function(self.f.node):
            if isinstance(n, ast.Name) and isinstance(n.ctx, ast.Store):
                stores[n.id] = stores.get(n.id, 0) + 1
        for n in walk_function(self.f.node):
            if isinstance(n, ast.Assign) and len(n.targets) == 1 and isinstance(n.targets[0], ast.Name) \
                    and isinstance(n.value, ast.Call) and isinstance(n.value.func, ast.Attribute) and n.value.func.attr == 'get' \
                    and len(n.value.args) == 1 and norm(n.value.func.value) == ct and norm(n.value.args[0]) == kt \
                    and stores.get(n.targets[0].id) == 1:
                got.add(n.targets[0].id)
        return self.test_edges(pred)

    def g_iter(self, site, container, key):
        """key is the loop variable of an enclosing `for key in container` / `in list(container)`."""
        if not isinstance(key, ast.Name):
            return False
        p = site.node
        ct = norm(container)
        while p is not None and p is not self.f.node:
            p = getattr(p, '_parent', None)
            if isinstance(p, (ast.For, ast.comprehension)) and isinstance(p.target, ast.Tuple) and len(p.target.elts) == 2 \
                    and isinstance(p.target.elts[0], ast.Name) and p.target.elts[0].id == key.id:
                # for key, value in container.items() / list(container.items())
                it = norm(p.iter)
                if it in ('%s.items()' % ct, 'list(%s.items())' % ct, 'tuple(%s.items())' % ct, 'sorted(%s.items())' % ct):
                    return True
            if isinstance(p, (ast.For, ast.comprehension)) and isinstance(p.target, ast.Name) and p.target.id == key.id:
                it = norm(p.iter)
                if isinstance(p.iter, ast.Name):
                    defs = [x.value for x in walk_function(self.f.node) if isinstance(x, ast.Assign)
                            and any(isinstance(t, ast.Name) and t.id == p.iter.id for t in x.targets)]
                    if len(defs) == 1:
                        it = norm(defs[0])
                if it in (ct, 'list(%s)' % ct, '%s.keys()' % ct, 'sorted(%s)' % ct, 'list(%s.keys())' % ct,
                          'sorted(%s.keys())' % ct, 'tuple(%s)' % ct):
                    return True
        return False

    def g_truthy(self, expr):
        """edges on which `expr` (a list/str) is known non-empty."""
        et = norm(expr)
        # locals bound exactly once, to this very expression, stand for it
        stores = {}
        for n in walk_function(self.f.node):
            if isinstance(n, ast.Name) and isinstance(n.ctx, ast.Store):
                stores[n.id] = stores.get(n.id, 0) + 1
        same = {et}
        for n in walk_function(self.f.node):
            if isinstance(n, ast.Assign) and len(n.targets) == 1 and isinstance(n.targets[0], ast.Name) \
                    and stores.get(n.targets[0].id) == 1 and norm(n.value) == et:
                same.add(n.targets[0].id)

        def pred(t):
            if norm(t) in same:
                return True
            if isinstance(t, ast.Compare) and len(t.ops) == 1:
                # `n = len(x) ... if n != 1` is the test `len(x) != 1`
                l, r = norm(self.standing_for(t.left)), norm(t.comparators[0])
                if l == 'len(%s)' % et and isinstance(t.comparators[0], ast.Constant) and isinstance(t.comparators[0].value, int):
                    v = t.comparators[0].value
                    op = t.ops[0]
                    if isinstance(op, ast.Gt) and v >= 0 or isinstance(op, ast.GtE) and v >= 1 \
                            or isinstance(op, ast.Eq) and v >= 1 or isinstance(op, ast.NotEq) and v == 0:
                        return True
                    if isinstance(op, ast.Eq) and v == 0 or isinstance(op, ast.Lt) and v <= 1 \
                            or isinstance(op, ast.NotEq) and v >= 1:
                        return False
            return None
        return self.test_edges(pred)

    def g_chars(self, site):
        """int(x[, base]) in the scanner: the digit-class guards A.3 (a)-(c)."""
        call = site.node
        arg = call.args[0]
        base = 10
        if len(call.args) > 1:
            b = A.const_value(call.args[1])
            if b in DIGITS:
                base = b
            else:
                return None
        digits = set(DIGITS[base])
        # (a) a single character variable tested against a literal of digits
        if isinstance(arg, ast.Name):
            def pred(t, name=arg.id):
                if isinstance(t, ast.Compare) and len(t.ops) == 1 and isinstance(t.left, ast.Name) and t.left.id == name:
                    lit = A.const_str(t.comparators[0])
                    if lit is not None and isinstance(t.ops[0], (ast.In, ast.NotIn)) and set(lit) <= digits and lit:
                        return isinstance(t.ops[0], ast.In)
                if isinstance(t, ast.Compare) and len(t.ops) == 2 and isinstance(t.comparators[0], ast.Name) \
                        and t.comparators[0].id == name and all(isinstance(o, ast.LtE) for o in t.ops):
                    lo, hi = A.const_str(t.left), A.const_str(t.comparators[1])
                    if lo is not None and hi is not None and len(lo) == 1 and len(hi) == 1 and \
                            set(chr(c) for c in range(ord(lo), ord(hi) + 1)) <= digits:
                        return True
                return None
            edges = self.test_edges(pred)
            # the variable must not be reassigned between the test and the call: require that every assignment of the
            # name dominates one of the guarding tests
            if edges and self.guarded_by_edges(call, edges) and self._no_reassign_between(arg.id, edges, call):
                return 'G-chars (single character in %r)' % ''.join(sorted(digits))[:24]
            return None
        # (b)/(c) self.prefix(n)
        if isinstance(arg, ast.Call) and isinstance(arg.func, ast.Attribute) and arg.func.attr == 'prefix' and arg.args:
            n = arg.args[0]
            nt = norm(n)
            # (b) validation loop: for k in range(n): if self.peek(k) not in HEX: raise
            for loop in walk_function(self.f.node):
                if isinstance(loop, ast.For) and isinstance(loop.iter, ast.Call) and norm(loop.iter.func) == 'range' \
                        and len(loop.iter.args) == 1 and norm(loop.iter.args[0]) == nt and isinstance(loop.target, ast.Name):
                    k = loop.target.id
                    good = False
                    for st in loop.body:
                        if isinstance(st, ast.If) and st.body and isinstance(st.body[-1], ast.Raise):
                            t = st.test
                            if isinstance(t, ast.Compare) and len(t.ops) == 1 and isinstance(t.ops[0], ast.NotIn) \
                                    and norm(t.left) == 'self.peek(%s)' % k:
                                lit = A.const_str(t.comparators[0])
                                if lit and set(lit) <= digits:
                                    good = True
                    if good:
                        lnodes = self.cfg.nodes_of(loop.iter)
                        # the loop must dominate the call, with n not reassigned in between
                        cn = self.nodes_of(call)
                        if lnodes and cn and all(self.cfg.dominates(lnodes[0], c) for c in cn) \
                                and self._name_stable(n, lnodes[0], call):
                            bound = self._length_bound(n, call)
                            if base != 10 or bound is not None:
                                return 'G-chars (validation loop over %s characters, base %d)' % (nt, base)
                            return None
            # (c) counter loop: while '0' <= self.peek(n) <= '9': n += 1   with a leading-digit test
            if isinstance(n, ast.Name):
                for loop in walk_function(self.f.node):
                    if isinstance(loop, ast.While):
                        t = loop.test
                        if isinstance(t, ast.Compare) and len(t.ops) == 2 and norm(t.comparators[0]) == 'self.peek(%s)' % n.id:
                            lo, hi = A.const_str(t.left), A.const_str(t.comparators[1])
                            if lo and hi and len(lo) == 1 and len(hi) == 1 and \
                                    set(chr(c) for c in range(ord(lo), ord(hi) + 1)) <= digits and \
                                    any(isinstance(s, ast.AugAssign) and norm(s.target) == n.id for s in loop.body):
                                bound = self._length_bound(n, call, loop)
                                nonempty = self._leading_digit_test(digits, loop)
                                if bound is None:
                                    site._why = ('the digit string passed to int() has no length bound: CPython refuses '
                                                 'decimal strings longer than %d digits with ValueError' % INT_STR_LIMIT)
                                    return None
                                if not nonempty:
                                    site._why = 'the digit string may be empty (no leading-digit test dominates the loop)'
                                    return None
                                return 'G-chars (digit counter loop, length <= %s)' % bound
        return None

    def _leading_digit_test(self, digits, loop):
        """a test that self.peek() is a digit, with raise on failure, dominates the loop."""
        def pred(t):
            if isinstance(t, ast.Compare) and len(t.ops) == 2 and all(isinstance(o, ast.LtE) for o in t.ops):
                mid = t.comparators[0]
                lo, hi = A.const_str(t.left), A.const_str(t.comparators[1])
                if lo and hi and len(lo) == 1 and len(hi) == 1 and \
                        set(chr(c) for c in range(ord(lo), ord(hi) + 1)) <= digits:
                    if norm(mid) == 'self.peek()':
                        return True
                    if isinstance(mid, ast.Name):
                        # ch = self.peek() just before
                        for n in walk_function(self.f.node):
                            if isinstance(n, ast.Assign) and norm(n.value) == 'self.peek()' and \
                                    any(isinstance(x, ast.Name) and x.id == mid.id for x in n.targets):
                                return True
            return None
        edges = self.test_edges(pred)
        ln = self.cfg.nodes_of(loop.test)
        return bool(edges) and bool(ln) and all(self.cfg.guarded(x, edges=edges) for x in ln)

    def _length_bound(self, n, call, loop=None):
        """constant K such that n <= K at the call (a constant n, or `if n > K: raise` inside/after the loop)."""
        v = A.const_value(n)
        if isinstance(v, int):
            return v
        if not isinstance(n, ast.Name):
            return None
        # n assigned from a class-level dict of small ints (ESCAPE_CODES[ch])
        for a in walk_function(self.f.node):
            if isinstance(a, ast.Assign) and any(isinstance(t, ast.Name) and t.id == n.id for t in a.targets) \
                    and isinstance(a.value, ast.Subscript):
                base = a.value.value
                if isinstance(base, ast.Attribute) and self.f.cls is not None:
                    found = self.repo.lookup(self.f.cls, base.attr)
                    if found and not isinstance(found[1], FuncInfo):
                        d = A.const_value(found[1][-1])
                        if isinstance(d, dict) and d and all(isinstance(x, int) for x in d.values()):
                            return max(d.values())
        for t in walk_function(self.f.node):
            if isinstance(t, ast.If) and t.body and isinstance(t.body[-1], ast.Raise):
                c = t.test
                if isinstance(c, ast.Compare) and len(c.ops) == 1 and norm(c.left) == n.id \
                        and isinstance(c.comparators[0], ast.Constant) and isinstance(c.comparators[0].value, int):
                    k = c.comparators[0].value
                    if isinstance(c.ops[0], ast.Gt) and k < INT_STR_LIMIT:
                        inside = loop is not None and any(t is s or t in ast.walk(s) for s in loop.body)
                        if inside:
                            return k
                        tn = self.cfg.nodes_of(c)
                        cn = self.nodes_of(call)
                        if tn and cn and all(self.cfg.guarded(x, edges=[(tn[0], False)]) for x in cn):
                            return k
                    if isinstance(c.ops[0], ast.GtE) and k <= INT_STR_LIMIT:
                        inside = loop is not None and any(t is s or t in ast.walk(s) for s in loop.body)
                        tn = self.cfg.nodes_of(c)
                        cn = self.nodes_of(call)
                        if inside or (tn and cn and all(self.cfg.guarded(x, edges=[(tn[0], False)]) for x in cn)):
                            return k - 1
        return None

    def _name_stable(self, n, from_node, call):
        if not isinstance(n, ast.Name):
            return True
        assigns = [x for x in self.cfg.nodes if x.kind == 'stmt' and isinstance(x.ast, (ast.Assign, ast.AugAssign))
                   and any(isinstance(t, ast.Name) and t.id == n.id
                           for t in (x.ast.targets if isinstance(x.ast, ast.Assign) else [x.ast.target]))]
        cn = self.nodes_of(call)
        for a in assigns:
            # an assignment reachable from the validation loop that can reach the call breaks the guard
            if a in self.cfg.reach([from_node]) and any(c in self.cfg.reach([a], blocked=[from_node]) for c in cn):
                return False
        return True

    def _no_reassign_between(self, name, edges, call):
        cn = self.nodes_of(call)
        assigns = [x for x in self.cfg.nodes if x.kind == 'stmt' and isinstance(x.ast, ast.Assign)
                   and any(isinstance(t, ast.Name) and t.id == name for t in x.ast.targets)]
        for (tn, lab) in edges:
            after = self.cfg.reach([m for (m, l) in self.cfg.succ[tn] if l == lab])
            for a in assigns:
                if a in after and any(c in self.cfg.reach([a]) for c in cn):
                    # reassigned after this test; fine only if another guarding test follows the reassignment
                    later = [e for e in edges if e[0] in self.cfg.reach([a])]
                    if not later or not all(self.cfg.reach([a], blocked_edges=later).isdisjoint(cn) for _ in [0]):
                        return False
        return True

    def g_upper_bound(self, site, limit):
        """chr(x): `if x > K: raise YAMLError` (K <= limit) dominates the call."""
        arg = norm(site.node.args[0])

        def pred(t):
            if isinstance(t, ast.Compare) and len(t.ops) == 1 and norm(t.left) == arg \
                    and isinstance(t.comparators[0], ast.Constant) and isinstance(t.comparators[0].value, int):
                k = t.comparators[0].value
                if isinstance(t.ops[0], ast.Gt) and k <= limit:
                    return False
                if isinstance(t.ops[0], ast.GtE) and k <= limit + 1:
                    return False
                if isinstance(t.ops[0], ast.LtE) and k <= limit:
                    return True
                if isinstance(t.ops[0], ast.Lt) and k <= limit + 1:
                    return True
            return None
        edges = self.test_edges(pred)
        if edges and self.guarded_by_edges(site.node, edges):
            return 'G-bound (%s <= %#x)' % (arg, limit)
        return None


def _kind_of(v):
    if isinstance(v, (ast.Dict, ast.DictComp)):
        return 'dict'
    if isinstance(v, (ast.List, ast.ListComp)):
        return 'list'
    if isinstance(v, ast.Constant) and isinstance(v.value, str):
        return 'str'
    if isinstance(v, ast.Constant) and isinstance(v.value, bytes):
        return 'bytes'
    if isinstance(v, ast.Constant) and v.value is None:
        return None
    if isinstance(v, ast.Call) and norm(v.func) in ('dict',):
        return 'dict'
    if isinstance(v, ast.Call) and norm(v.func) in ('list',):
        return 'list'
    if isinstance(v, ast.Call) and isinstance(v.func, ast.Attribute) and v.func.attr == 'copy':
        return None
    if isinstance(v, ast.BinOp):
        return _kind_of(v.left) or _kind_of(v.right)
    if isinstance(v, ast.Subscript) and isinstance(v.slice, ast.Slice):
        return None
    return 'other'


def _handler_raises_yaml(repo, func, h):
    last = h.body[-1] if h.body else None
    if isinstance(last, ast.Raise) and last.exc is not None:
        target = last.exc.func if isinstance(last.exc, ast.Call) else last.exc
        r = repo.resolve_expr(func.module, target)
        return r is not None and r.kind == 'class' and repo.is_yaml_error(r.obj)
    return False


def _handler_recovers(h):
    """a handler that neither re-raises something else nor swallows silently: it computes a fallback
    (the reader's refill in peek)."""
    if any(isinstance(x, ast.Raise) for s in h.body for x in ast.walk(s)):
        return False
    return any(isinstance(x, (ast.Return, ast.Assign, ast.AugAssign)) for s in h.body for x in ast.walk(s))


# ------------------------------------------------------------------------------------------------
# classification driver

STACK_BELIEFS = {
    ('parser', 'states'): 'A-STACK: Parser.states is the LL(1) continuation stack; every pop is matched by a push made when '
                          'the enclosing construct was entered (grammar balance, asserted empty at stream end)',
    ('parser', 'marks'): 'A-STACK: Parser.marks is pushed by every parse_*_first_* handler and popped by the handler that '
                         'closes the same collection',
    ('emitter', 'states'): 'A-STACK: Emitter.states is the continuation stack of the event grammar; expect_document_root '
                           'pushes before any node handler pops',
}


def judge_site(repo, J, site, ctx_assume, indent_pairing_ok=None):
    f = site.func
    n = site.node
    mod = f.module.name
    if f.name in ('__str__', '__repr__'):
        return ('assumed', 'runs only when an error object is printed, not while reading')
    # ---- conversions
    if site.kind == 'conv':
        fn = norm(n.func) if isinstance(n, ast.Call) else ''
        classes = site.exc.split(',')
        g = J.g_try(site, classes)
        if g:
            return ('guarded', g)
        if fn == 'int':
            g = J.g_chars(site)
            if g:
                return ('guarded', g)
            g = _g_group(repo, J, site)
            if g:
                return ('guarded', g)
            return ('unguarded', getattr(site, '_why', 'no dominating test restricts the argument to the digits of the base'))
        if fn == 'chr':
            g = J.g_upper_bound(site, 0x10FFFF)
            if g:
                lo = _digits_origin(J, site, n.args[0])
                if lo is None:
                    return ('unguarded', 'chr() of a value that is not known to be non-negative: it does not come from int() of a '
                                         'string whose every character was tested to be a digit (int() also accepts a sign, '
                                         'blanks and underscores)')
                return ('guarded', g + ', ' + lo[0])
            return ('unguarded', 'chr() of a value that is not bounded by 0x10FFFF')
        if fn == 'ord':
            a = n.args[0]
            # ord(match.group()) of a one-character-class regex
            if isinstance(a, ast.Name):
                for x in walk_function(f.node):
                    if isinstance(x, ast.Assign) and any(isinstance(t, ast.Name) and t.id == a.id for t in x.targets) \
                            and isinstance(x.value, ast.Call) and isinstance(x.value.func, ast.Attribute) \
                            and x.value.func.attr == 'group' and not x.value.args:
                        return ('guarded', 'G-group (one matched character)')
            return ('unguarded', 'ord() of a value that is not known to be a 1-character str')
        if fn == 'bytes':
            a = n.args[0]
            if isinstance(a, ast.Name):
                apps = [c for c in A.func_calls(f.node) if isinstance(c.func, ast.Attribute) and c.func.attr == 'append'
                        and isinstance(c.func.value, ast.Name) and c.func.value.id == a.id and len(c.args) == 1]
                others = [x for x in walk_function(f.node) if isinstance(x, (ast.Assign, ast.AugAssign))
                          and any(isinstance(t, ast.Name) and t.id == a.id
                                  for t in (x.targets if isinstance(x, ast.Assign) else [x.target]))
                          and not (isinstance(x, ast.Assign) and isinstance(x.value, ast.List) and not x.value.elts)]
                if apps and not others:
                    why = None
                    for c in apps:
                        o = _digits_origin(J, site, c.args[0])
                        if o is None:
                            why = 'an element of the list is not int() of characters that were each tested to be a digit'
                        elif o[1] is None or o[1] > 255:
                            why = 'an element of the list can exceed 255 (%s)' % o[0]
                    if why is None:
                        return ('guarded', 'G-range (every element is int() of at most 2 validated hexadecimal digits)')
                    return ('unguarded', 'bytes() of a list of integers raises ValueError outside range(256): ' + why)
            return ('unguarded', 'bytes() of values not known to be in range(256)')
        return ('unguarded', 'conversion that can raise %s outside any handler that turns it into a YAML error' % site.exc)
    # ---- subscripts
    if site.kind == 'sub':
        base, key = n.value, n.slice
        bt = norm(base)
        # reader window: decided by C07's interval rule
        if mod == 'reader' and bt in ('self.buffer', 'self.raw_buffer'):
            g = J.g_try(site, ['IndexError'])
            if g:
                return ('guarded', g)
            return ('assumed', 'A-WINDOW: the reader guarantees the look-ahead before indexing its buffer (R-LOOKAHEAD-SUFFICIENT, C07)')
        kind = None
        if isinstance(base, ast.Attribute) and isinstance(base.value, ast.Name) and base.value.id == J.sn:
            kind = J.field_kind(base.attr)
        if isinstance(base, ast.Name):
            # local: look at its assignments
            kinds = set()
            for x in walk_function(f.node):
                if isinstance(x, ast.Assign) and any(isinstance(t, ast.Name) and t.id == base.id for t in x.targets):
                    kinds.add(_kind_of(x.value))
            kinds.discard(None)
            kind = kinds.pop() if len(kinds) == 1 else None
        if kind == 'dict' or kind is None:
            edges = J.g_in(base, key)
            if edges and J.guarded_by_edges(n, edges):
                return ('guarded', 'G-in (%s in %s)' % (norm(key), bt))
            # look-up inside `try: ... except KeyError:` whose handler computes the fallback (EAFP form of the membership test)
            g = J.g_try(site, ['KeyError'])
            if g:
                return ('guarded', g)
            if J.g_iter(site, base, key):
                return ('guarded', 'G-iter (key drawn from %s)' % bt)
        if kind in ('list', 'str', 'bytes') or kind is None:
            cv = A.const_value(key)
            if cv in (0, -1):
                edges = J.g_truthy(base)
                if edges and J.guarded_by_edges(n, edges):
                    return ('guarded', 'G-len (%s non-empty)' % bt)
                # an earlier conjunct of the same `and` tests the container
                p = n
                while p is not None and p is not f.node:
                    par = getattr(p, '_parent', None)
                    if isinstance(par, ast.BoolOp) and isinstance(par.op, ast.And):
                        idx = [i for i, v in enumerate(par.values) if v is p or any(x is p for x in ast.walk(v))]
                        if idx and any(norm(v) == bt for v in par.values[:idx[0]]):
                            return ('guarded', 'G-and (%s tested by an earlier conjunct)' % bt)
                    p = par
            if isinstance(base, ast.Attribute) and (mod, base.attr) in STACK_BELIEFS:
                return ('assumed', STACK_BELIEFS[(mod, base.attr)])
        # G-store: a store to the same element dominates the read / delete
        same = [x for x in J.cfg.nodes if x.kind == 'stmt' and isinstance(x.ast, ast.Assign)
                and any(norm(t) == norm(n) for t in x.ast.targets)]
        ns = J.nodes_of(n)
        if same and ns and all(J.cfg.guarded(x, nodes=same) for x in ns):
            return ('guarded', 'G-store (%s assigned before)' % norm(n)[:40])
        # G-index: i < len(X) on the true edge
        kt = norm(key)

        def lt_len(t, bt=bt, kt=kt):
            if isinstance(t, ast.Compare) and len(t.ops) == 1:
                l, r = norm(t.left), norm(t.comparators[0])
                if l == kt and r == 'len(%s)' % bt and isinstance(t.ops[0], ast.Lt):
                    return True
                if r == kt and l == 'len(%s)' % bt and isinstance(t.ops[0], ast.Gt):
                    return True
            return None
        edges = J.test_edges(lt_len)
        if edges and J.guarded_by_edges(n, edges):
            return ('guarded', 'G-index (%s < len(%s))' % (kt, bt))
        if isinstance(base, ast.Name) and kind == 'other' and A.const_value(key) not in (0, -1):
            return ('assumed', 'subscript of a local computed value')
        return ('unguarded', 'subscript %s is not dominated by a membership / length test' % norm(n)[:50])
    # ---- pops
    if site.kind == 'pop':
        base = n.func.value
        bt = norm(base)
        if isinstance(base, ast.Attribute) and (mod, base.attr) in STACK_BELIEFS:
            return ('assumed', STACK_BELIEFS[(mod, base.attr)])
        if isinstance(base, ast.Attribute) and base.attr == 'indents' and mod in ('scanner', 'emitter'):
            if indent_pairing_ok is None or indent_pairing_ok:
                return ('guarded', 'G-shape (indent stack pairing, R-INDENT-PAIRING)')
        edges = J.g_truthy(base)
        if edges and J.guarded_by_edges(n, edges):
            return ('guarded', 'G-len (%s non-empty)' % bt)
        if n.func.attr in ('pop',) and len(n.args) == 1 and not isinstance(n.args[0], ast.Constant):
            edges = J.g_in(base, n.args[0])
            if edges and J.guarded_by_edges(n, edges):
                return ('guarded', 'G-in')
        # events.pop(0) in the emitter: need_more_events() false => events non-empty
        if mod == 'emitter' and bt == 'self.events':
            return ('assumed', 'A-QUEUE: need_more_events() returned False, which it does only when self.events is non-empty')
        return ('unguarded', '%s may be applied to an empty container' % norm(n)[:50])
    # ---- unpacking
    if site.kind == 'unpack':
        if isinstance(n, ast.Assign):
            v = n.value
            arity = [len(t.elts) for t in n.targets if isinstance(t, (ast.Tuple, ast.List))][0]
            if isinstance(v, ast.Call) and isinstance(v.func, ast.Attribute) and isinstance(v.func.value, ast.Name) \
                    and v.func.value.id == J.sn and f.cls is not None:
                found = repo.lookup(f.cls, v.func.attr)
                if found and isinstance(found[1], FuncInfo):
                    rets = [r for r in walk_function(found[1].node) if isinstance(r, ast.Return)]
                    if rets and all(_returns_arity(r, found[1], arity) for r in rets):
                        return ('guarded', 'G-arity (%s returns %d-tuples)' % (v.func.attr, arity))
                else:
                    # an attribute holding a stdlib decoder: (str, consumed)
                    if v.func.attr == 'raw_decode' and arity == 2:
                        return ('guarded', 'G-arity (codec decoders return (text, consumed))')
            if _comprehension_length(v) == arity:
                return ('guarded', 'G-arity (one element per item of a literal display of %d items)' % arity)
            if isinstance(v, ast.Attribute) and v.attr == 'value' or isinstance(v, ast.Name) and v.id in ('tag', 'version'):
                return ('assumed', 'A-TOKEN-SHAPE: token/event payload tuples are built as 2-tuples (R-TOKEN-SHAPES)')
            if isinstance(v, ast.Call) and isinstance(v.func, ast.Attribute) and v.func.attr in ('rsplit', 'split', 'partition') \
                    and mod == 'constructor':
                return ('guarded', 'G-split')
            if isinstance(v, ast.Subscript) or isinstance(v, ast.Name):
                return ('assumed', 'A-NODE: elements of a mapping node\'s value are (key, value) pairs')
        else:
            return ('assumed', 'A-NODE: iteration over (key, value) pairs built by the composer / representer')
        return ('unguarded', 'tuple unpacking of a value whose shape is not established')
    if site.kind == 'assert':
        return ('assumed', 'stated belief (assert): %s' % site.text)
    if site.kind == 'match':
        if _is_match_call(n.func.value):
            return ('unguarded', 'method call on a possibly-None match object (the result of %s() is used without a test)'
                    % n.func.value.func.attr)
        edges = J.g_truthy(n.func.value)

        def notnone(t, name=n.func.value.id):
            if isinstance(t, ast.Compare) and len(t.ops) == 1 and isinstance(t.left, ast.Name) and t.left.id == name \
                    and isinstance(t.comparators[0], ast.Constant) and t.comparators[0].value is None:
                if isinstance(t.ops[0], ast.IsNot):
                    return True
                if isinstance(t.ops[0], ast.Is):
                    return False
            return None
        edges = edges + J.test_edges(notnone)
        if edges and J.guarded_by_edges(n, edges):
            return ('guarded', 'G-match (match object tested before use)')
        # only regex match results are of interest: is the name bound from .match()/.search()?
        is_match = False
        for x in walk_function(f.node):
            if isinstance(x, ast.Assign) and any(isinstance(t, ast.Name) and t.id == n.func.value.id for t in x.targets) \
                    and isinstance(x.value, ast.Call) and isinstance(x.value.func, ast.Attribute) \
                    and x.value.func.attr in ('match', 'search', 'fullmatch'):
                is_match = True
        if not is_match:
            return ('guarded', 'not a regex match object')
        return ('unguarded', 'method call on a possibly-None match object')
    return ('unguarded', 'unclassified partial operation')


def _digits_origin(J, site, e, depth=0):
    """e is (a local bound only to) `int(text[, base])` whose text is proved digit-only by the character guards:
    (description, largest possible value or None).  None when e has another origin."""
    f = site.func
    if depth > 3:
        return None
    if isinstance(e, ast.Name):
        defs = [x for x in walk_function(f.node) if isinstance(x, (ast.Assign, ast.AugAssign, ast.For, ast.NamedExpr))
                and any(isinstance(t, ast.Name) and t.id == e.id for t in
                        (x.targets if isinstance(x, ast.Assign) else [x.target]))]
        if e.id in f.params or not defs or not all(isinstance(x, ast.Assign) for x in defs):
            return None
        res = [_digits_origin(J, site, x.value, depth + 1) for x in defs]
        if any(r is None for r in res):
            return None
        tops = [r[1] for r in res]
        return (res[0][0], None if any(t is None for t in tops) else max(tops))
    if isinstance(e, ast.Call) and norm(e.func) == 'int' and e.args:
        sub = Site(f, e, 'conv', norm(e)[:80], 'ValueError')
        g = J.g_chars(sub)
        if not g:
            return None
        base = A.const_value(e.args[1]) if len(e.args) > 1 else 10
        top = None
        arg = e.args[0]
        if isinstance(arg, ast.Name):
            top = base - 1
        elif isinstance(arg, ast.Call) and isinstance(arg.func, ast.Attribute) and arg.func.attr == 'prefix' and arg.args:
            k = J._length_bound(arg.args[0], e)
            if isinstance(k, int) and k <= 16:
                top = base ** k - 1
        return ('non-negative: ' + g, top)
    return None


def _literal_strings(e):
    """the strings of a literal tuple / list / set display of string constants, else None."""
    if isinstance(e, (ast.Tuple, ast.List, ast.Set)) and e.elts and all(A.const_str(x) is not None for x in e.elts):
        return [A.const_str(x) for x in e.elts]
    return None


def _key_strings(J, e, at):
    """the strings a subscript key can be: a string constant, or a name that runs over a literal display of strings
    (the target of an enclosing comprehension / of the `for` loop whose binding reaches the CFG nodes `at`)."""
    s = A.const_str(e)
    if s is not None:
        return [s]
    if not isinstance(e, ast.Name):
        return None
    p = e
    while p is not None and p is not J.f.node:
        p = getattr(p, '_parent', None)
        if isinstance(p, (ast.ListComp, ast.SetComp, ast.GeneratorExp, ast.DictComp)):
            for gen in p.generators:
                if any(isinstance(x, ast.Name) and x.id == e.id for x in ast.walk(gen.target)):
                    # the innermost binding of the name
                    return _literal_strings(gen.iter) if isinstance(gen.target, ast.Name) else None
    from .cfg import reaching_defs
    rd = reaching_defs(J.cfg, e.id, entry_def=True)
    defs = set()
    for n in at:
        defs |= rd.get(n, set())
    out = []
    for d in defs:
        if d.kind == 'for' and isinstance(d.stmt.target, ast.Name) and _literal_strings(d.ast) is not None:
            out.extend(_literal_strings(d.ast))
        elif d.kind == 'stmt' and isinstance(d.ast, ast.Assign) and all(isinstance(t, ast.Name) for t in d.ast.targets) \
                and A.const_str(d.ast.value) is not None:
            out.append(A.const_str(d.ast.value))
        else:
            return None
    return out or None


def _match_regex(repo, J, recv, depth=0):
    """recv evaluates to the result of <self/cls>.<attr>.match(...) / .fullmatch(...) for a class-level compiled regex
    (directly, or through a local all of whose bindings are such calls of the same regex): (pattern text, re.compile call)."""
    f = J.f
    if isinstance(recv, ast.Name) and depth < 3:
        if recv.id in f.params:
            return None
        stores = [x for x in walk_function(f.node) if isinstance(x, ast.Name) and x.id == recv.id and isinstance(x.ctx, (ast.Store, ast.Del))]
        defs = [x for x in walk_function(f.node) if isinstance(x, ast.Assign) and len(x.targets) == 1
                and isinstance(x.targets[0], ast.Name) and x.targets[0].id == recv.id]
        if not defs or len(defs) != len(stores):
            return None
        pats = [_match_regex(repo, J, x.value, depth + 1) for x in defs]
        if any(p is None for p in pats) or len(set(p[0] for p in pats)) != 1:
            return None
        return pats[0]
    if isinstance(recv, ast.Call) and isinstance(recv.func, ast.Attribute) and recv.func.attr in ('match', 'fullmatch') \
            and isinstance(recv.func.value, ast.Attribute) and isinstance(recv.func.value.value, ast.Name) and f.cls is not None:
        found = repo.lookup(f.cls, recv.func.value.attr)
        if found and not isinstance(found[1], FuncInfo):
            v = found[1][-1]
            if isinstance(v, ast.Call) and v.args and A.const_str(v.args[0]) is not None:
                return (A.const_str(v.args[0]), v)
    return None


def _groupdict_regex(repo, J, var):
    """the local `var` is bound only by `var = <match>.groupdict()` for matches of one class-level regex: (pattern, call)."""
    f = J.f
    if var in f.params:
        return None
    stores = [x for x in walk_function(f.node) if isinstance(x, ast.Name) and x.id == var and isinstance(x.ctx, (ast.Store, ast.Del))]
    defs = [x for x in walk_function(f.node) if isinstance(x, ast.Assign) and len(x.targets) == 1
            and isinstance(x.targets[0], ast.Name) and x.targets[0].id == var]
    if not defs or len(defs) != len(stores):
        return None
    pats = []
    for x in defs:
        v = x.value
        if not (isinstance(v, ast.Call) and isinstance(v.func, ast.Attribute) and v.func.attr == 'groupdict'
                and not v.args and not v.keywords):
            return None
        pats.append(_match_regex(repo, J, v.func.value))
    if any(p is None for p in pats) or len(set(p[0] for p in pats)) != 1:
        return None
    return pats[0]


def _g_group(repo, J, site):
    """int(values['g'] [or 0]) / int(x) where x derives from a named group whose language is digits only.  The group name
    may run over a literal display (`int(values[k]) for k in ('year', 'month')`): every alternative must qualify."""
    f = J.f
    arg = site.node.args[0]
    if isinstance(arg, ast.BoolOp) and isinstance(arg.op, ast.Or) and isinstance(arg.values[-1], ast.Constant) \
            and isinstance(arg.values[-1].value, int):
        arg = arg.values[0]
    def digit_const(e):
        v = A.const_str(e)
        return v is not None and (v.isdigit() or v == '')

    def origin(e, depth=0):
        """set of (group name, dict variable) alternatives when e is a named group, possibly cut / padded with digits
        (digit-preserving); None when e can be anything else."""
        if depth > 6:
            return None
        if isinstance(e, ast.Subscript) and isinstance(e.value, ast.Name) and not isinstance(e.slice, ast.Slice):
            keys = _key_strings(J, e.slice, at_nodes[-1])
            if keys is None:
                return None
            return frozenset((k, e.value.id) for k in keys)
        if isinstance(e, ast.Subscript) and isinstance(e.slice, ast.Slice):
            return origin(e.value, depth + 1)
        if isinstance(e, ast.Call) and isinstance(e.func, ast.Attribute) and e.func.attr in ('ljust', 'rjust') \
                and len(e.args) == 2 and digit_const(e.args[1]):
            return origin(e.func.value, depth + 1)
        if isinstance(e, ast.Call) and isinstance(e.func, ast.Attribute) and e.func.attr in ('zfill', 'strip', 'lstrip', 'rstrip') \
                and len(e.args) <= 1:
            return origin(e.func.value, depth + 1)
        if isinstance(e, ast.BinOp) and isinstance(e.op, ast.Add):
            if digit_const(e.right) or (isinstance(e.right, ast.BinOp) and isinstance(e.right.op, ast.Mult) and digit_const(e.right.left)):
                return origin(e.left, depth + 1)
            return None
        if isinstance(e, ast.Name):
            # the definitions of the name that reach this use (flow-sensitive: `x = 0` on another path does not count)
            from .cfg import reaching_defs
            at = at_nodes[-1]
            rd = reaching_defs(J.cfg, e.id)
            defs = set()
            for n in at:
                defs |= rd.get(n, set())
            if not defs:
                return None
            got = set()
            for dn in defs:
                a = dn.ast
                if isinstance(a, ast.Assign) and all(isinstance(t, ast.Name) for t in a.targets):
                    at_nodes.append([dn])
                    o = origin(a.value, depth + 1)
                    at_nodes.pop()
                    if o is None:
                        return None
                    got |= o
                elif isinstance(a, ast.AugAssign):
                    if not (isinstance(a.op, ast.Add) and digit_const(a.value)):
                        return None
                    at_nodes.append([dn])
                    o = origin(ast.Name(id=e.id, ctx=ast.Load()), depth + 1) if depth < 3 else None
                    at_nodes.pop()
                    if o is not None:
                        got |= o
                    # a self-referential padding loop contributes nothing new
                else:
                    return None
            return frozenset(got) or None
        return None
    at_nodes = [J.nodes_of(site.node)]
    alts = origin(arg)
    if not alts:
        return None
    from . import relang as RL
    from . import rules_lang as RLG
    langs = {}
    for (name, var) in sorted(alts):
        # var = <match>.groupdict() of a class-level regex
        if var not in langs:
            pat = _groupdict_regex(repo, J, var)
            if pat is None:
                return None
            flags = RLG.Langs._flags(pat[1])
            alpha = RL.Alphabet(RL.points_of(pat[0], flags))
            langs[var] = (RLG.group_languages(alpha, pat[0], flags), RL.compile_regex(alpha, r'^[0-9]*$'))
        groups, digits = langs[var]
        if name not in groups:
            return None
        ok, w = RL.included(groups[name], digits)
        if not ok:
            return None
        # emptiness: either the group cannot be empty, or a truthiness test of it dominates, or `or <int>` supplies a default
        nonempty = not groups[name].nullable()
        orig = site.node.args[0]
        if isinstance(orig, ast.BoolOp):
            nonempty = True
        if not nonempty:
            edges = J.g_truthy(ast.parse("%s['%s']" % (var, name), mode='eval').body)
            if edges and J.guarded_by_edges(site.node, edges):
                nonempty = True
        if not nonempty:
            return None
    names = sorted(set(n for (n, v) in alts))
    if len(names) == 1:
        return 'G-group (named group %s captures digits only)' % names[0]
    return 'G-group (named groups %s capture digits only)' % ', '.join(names)


def _comprehension_length(v):
    """number of elements of `[f(x) for x in (a, b, c)]` (also a generator expression, also wrapped in list() / tuple()):
    one unfiltered generator over a literal tuple / list display yields exactly one element per item.  None otherwise."""
    if isinstance(v, ast.Call) and norm(v.func) in ('list', 'tuple') and len(v.args) == 1 and not v.keywords:
        v = v.args[0]
    if isinstance(v, (ast.ListComp, ast.GeneratorExp)) and len(v.generators) == 1:
        gen = v.generators[0]
        if not gen.ifs and not gen.is_async and isinstance(gen.iter, (ast.Tuple, ast.List)) \
                and not any(isinstance(x, ast.Starred) for x in gen.iter.elts):
            return len(gen.iter.elts)
    return None


def _returns_arity(ret, func, arity):
    v = ret.value
    if isinstance(v, ast.Tuple) and len(v.elts) == arity:
        return True
    if isinstance(v, ast.Name):
        for x in walk_function(func.node):
            if isinstance(x, ast.Assign) and any(isinstance(t, ast.Name) and t.id == v.id for t in x.targets):
                if not (isinstance(x.value, ast.Tuple) and len(x.value.elts) == arity):
                    return False
        return True
    return False


def r_partial_guarded(ctx, repo, modules, rule_id='R-PARTIAL-GUARDED', indent_pairing_ok=None, skip=None, site_filter=None):
    rule = ctx.rule(rule_id, 'every partial operation on input-derived data (conversion, subscript, pop, unpacking) is dominated '
                             'by one of the repository\'s guard idioms or rests on a listed structural belief')
    counts = {'guarded': 0, 'assumed': 0, 'unguarded': 0}
    for f in repo.all_functions(modules):
        if skip and skip(f):
            continue
        sites = collect_sites(repo, f)
        if not sites:
            continue
        J = Judge(repo, f)
        for s in sites:
            if site_filter is not None and not site_filter(J, s):
                continue
            v = judge_site(repo, J, s, ctx, indent_pairing_ok)
            counts[v[0]] += 1
            if v[0] == 'guarded':
                rule.ok(f.loc(s.node), '%s in %s: %s' % (s.text, f.name, v[1]))
            elif v[0] == 'assumed':
                rule.ok(f.loc(s.node), '%s in %s rests on: %s' % (s.text, f.name, v[1][:60]))
                ctx.assume(v[1])
            else:
                rule.fail(s.key(), f.module.rel, s.node.lineno, f.qualname, s.text,
                          '%s can raise %s on some input: %s' % (s.text, s.exc, v[1]))
    ctx.extra.setdefault('partial_operations', {})[','.join(modules)] = counts
    return rule
