"""Emitter-side rules (C05, C02, C15): R-STATE-EXHAUSTIVE, R-BYTES-ITER, R-SIBLING-ESCAPE-LOOPS, R-ESCAPE-INVERSE,
R-TAGCHAR-INCLUSION, R-PLAIN-IMPLIES-IMPLICIT, R-BREAKSET-AGREEMENT, R-EVENT-BRACKETS, R-RESOLVER-SHARED, R-ALIAS-KEY ..."""
import ast
import itertools
import re

from . import astutil as A
from . import charworld as CW
from . import rules_registry as RR
from .cfg import CFG, own_exprs
from .srcmodel import AnalysisError, ClassInfo, FuncInfo, norm, walk_function

BREAKS = set('\n\x85\u2028\u2029')


def state_handlers(repo, cls_q='emitter.Emitter'):
    """methods that can become self.state (assigned to it or pushed on self.states)."""
    K = repo.cls(cls_q)
    names = set()
    for f in K.methods.values():
        for n in walk_function(f.node):
            if isinstance(n, ast.Assign) and any(norm(t) == 'self.state' for t in n.targets) \
                    and isinstance(n.value, ast.Attribute) and norm(n.value.value) == 'self':
                names.add(n.value.attr)
            if isinstance(n, ast.Call) and norm(n.func) == 'self.states.append' and n.args \
                    and isinstance(n.args[0], ast.Attribute) and norm(n.args[0].value) == 'self':
                names.add(n.args[0].attr)
    return K, sorted(names)


def r_state_exhaustive(ctx, repo):
    rule = ctx.rule('R-STATE-EXHAUSTIVE', 'every emitter state handler, on every path, has positively identified the event class '
                                          '(true edge of isinstance(self.event, K)), or delegates to a handler that does, or raises '
                                          'EmitterError')
    K, names = state_handlers(repo)
    eerr = repo.cls('emitter.EmitterError')
    memo = {}

    def exhaustive(f, stack=()):
        if f in memo:
            return memo[f]
        if f in stack:
            return True
        cfg = CFG(f.node)
        blockers = []
        edges = []
        for n in cfg.nodes:
            if n.ast is None:
                continue
            if n.kind == 'test':
                inner, pos = A.strip_not(n.ast)
                # conjunctions: `not first and isinstance(...)` - the true edge still implies the isinstance
                parts = inner.values if isinstance(inner, ast.BoolOp) and isinstance(inner.op, ast.And) and pos else [inner]
                for part in parts:
                    i2, p2 = A.strip_not(part)
                    if isinstance(i2, ast.Call) and norm(i2.func) == 'isinstance' and norm(i2.args[0]) == 'self.event':
                        if isinstance(inner, ast.BoolOp):
                            if p2:
                                edges.append((n, True))
                        else:
                            edges.append((n, pos == p2))
            for sub in own_exprs(n):
                if isinstance(sub, ast.Call) and isinstance(sub.func, ast.Attribute) and norm(sub.func.value) == 'self' \
                        and sub.func.attr.startswith('expect_') and sub.func.attr in K.methods:
                    g = K.methods[sub.func.attr]
                    if exhaustive(g, stack + (f,)):
                        blockers.append(n)
        r = cfg.reach([cfg.entry], blocked=blockers, blocked_edges=edges, follow_exc=False)
        ok = not any(x in r for x in cfg.normal_exits())
        # explicit raises must be EmitterError
        memo[f] = ok
        return ok
    for name in names:
        f = K.methods.get(name)
        if f is None:
            raise AnalysisError('emitter state handler %s is assigned but not defined' % name)
        if exhaustive(f):
            rule.ok(f.loc(), '%s identifies the event or raises on every path' % name)
        else:
            rule.fail('%s|exhaustive' % f.qualname, f.module.rel, f.node.lineno, f.qualname, 'def %s' % name,
                      'a path through the state handler %s completes without having identified the event class: an event that '
                      'is not allowed in this state is silently accepted instead of raising EmitterError' % name)
    rule.require_min(17, 'emitter state handlers')
    return rule


def r_bytes_iter(ctx, repo, modules=('emitter',)):
    rule = ctx.rule('R-BYTES-ITER', 'iterating a bytes value binds ints: ord() is never applied to such a loop variable, and the two '
                                    'percent-escaping loops format the same expression (sibling agreement)')
    loops = []
    for f in repo.all_functions(list(modules)):
        btypes = set()
        for n in walk_function(f.node):
            if isinstance(n, ast.Assign) and isinstance(n.value, ast.Call) and isinstance(n.value.func, ast.Attribute) \
                    and n.value.func.attr == 'encode':
                for t in n.targets:
                    if isinstance(t, ast.Name):
                        btypes.add(t.id)
        for n in walk_function(f.node):
            if isinstance(n, ast.For) and isinstance(n.target, ast.Name) and \
                    (isinstance(n.iter, ast.Name) and n.iter.id in btypes or
                     isinstance(n.iter, ast.Call) and isinstance(n.iter.func, ast.Attribute) and n.iter.func.attr == 'encode'):
                var = n.target.id
                bad = [c for c in A.calls_in(n.body) if norm(c.func) in ('ord',) and c.args and norm(c.args[0]) == var]
                fmts = [b for b in ast.walk(ast.Module(body=n.body, type_ignores=[]))
                        if isinstance(b, ast.BinOp) and isinstance(b.op, ast.Mod) and A.const_str(b.left) is not None]
                loops.append((f, n, var, fmts))
                if bad:
                    rule.fail('%s|ord(%s)|TypeError' % (f.qualname, var), f.module.rel, bad[0].lineno, f.qualname, norm(bad[0]),
                              'the loop variable %s iterates over a bytes object and is therefore an int; ord(%s) raises '
                              'TypeError for every character that needs percent-escaping' % (var, var))
                else:
                    rule.ok(f.loc(n), 'for %s in <bytes> in %s: no ord() on the int' % (var, f.name))
    sigs = {}
    for f, n, var, fmts in loops:
        for b in fmts:
            sigs.setdefault(A.const_str(b.left), set()).add(norm(b.right).replace(var, '<v>'))
    for fmt, rights in sigs.items():
        if len(rights) > 1:
            f, n = loops[0][0], loops[0][1]
            rule.fail('sibling-escape|%r' % fmt, f.module.rel, n.lineno, 'emitter.Emitter.prepare_tag*', fmt,
                      'the percent-escaping loops of prepare_tag and prepare_tag_prefix format different expressions (%s) with '
                      'the same template: one of them is wrong' % sorted(rights))
        else:
            rule.ok('emitter', 'escape template %r formatted identically in %d loop(s)' % (fmt, len(loops)))
    rule.require_min(2, 'bytes loops')
    return rule


def class_dict(repo, qual, name):
    K = repo.cls(qual)
    vals = K.attrs.get(name)
    if not vals:
        raise AnalysisError('%s.%s has vanished' % (qual, name))
    d = A.const_value(vals[-1])
    if not isinstance(d, dict):
        raise AnalysisError('%s.%s is not a literal dict' % (qual, name))
    return d, vals[-1]


def r_escape_inverse(ctx, repo):
    rule = ctx.rule('R-ESCAPE-INVERSE', 'the emitter\'s escape table is inverted by the scanner\'s; numeric escape formats agree with '
                                        'ESCAPE_CODES; every character written unescaped in double quotes is printable for the reader')
    em, emn = class_dict(repo, 'emitter.Emitter', 'ESCAPE_REPLACEMENTS')
    sc, scn = class_dict(repo, 'scanner.Scanner', 'ESCAPE_REPLACEMENTS')
    codes, cn = class_dict(repo, 'scanner.Scanner', 'ESCAPE_CODES')
    E = repo.cls('emitter.Emitter')
    for ch, letter in sorted(em.items()):
        if sc.get(letter) == ch:
            rule.ok('lib/yaml/emitter.py:%d' % emn.lineno, 'escape %r -> \\%s -> %r' % (ch, letter, sc.get(letter)))
        else:
            rule.fail('escape|%r|%s' % (ch, letter), 'lib/yaml/emitter.py', emn.lineno, 'emitter.Emitter.ESCAPE_REPLACEMENTS',
                      '%r: %r' % (ch, letter),
                      'the emitter writes %r as \\%s, which the scanner reads back as %r' % (ch, letter, sc.get(letter)))
    f = E.methods.get('write_double_quoted')
    if f is None:
        raise AnalysisError('Emitter.write_double_quoted has vanished')
    fmts = []
    for n in walk_function(f.node):
        if isinstance(n, ast.BinOp) and isinstance(n.op, ast.Mod):
            s = A.const_str(n.left)
            m = re.fullmatch(r'\\([A-Za-z])%0(\d+)([Xx])', s or '')
            if m:
                fmts.append((m.group(1), int(m.group(2)), n))
    if len(fmts) < 3:
        raise AnalysisError('write_double_quoted: numeric escape formats not found')
    for letter, width, n in fmts:
        if codes.get(letter) == width:
            rule.ok(f.loc(n), 'numeric escape \\%s with %d hex digits matches ESCAPE_CODES' % (letter, width))
        else:
            rule.fail('numeric|%s|%d' % (letter, width), f.module.rel, n.lineno, f.qualname, norm(n)[:60],
                      'the emitter writes \\%s followed by %d hex digits; the scanner expects %s'
                      % (letter, width, codes.get(letter)))
        # the guard of this branch bounds the code point by 16**width
        p = getattr(A.enclosing_stmt(n), '_parent', None)
        if isinstance(p, ast.If) and isinstance(p.test, ast.Compare) and len(p.test.ops) == 1 \
                and isinstance(p.test.ops[0], (ast.LtE, ast.Lt)):
            b = A.const_str(p.test.comparators[0])
            if b is not None and len(b) == 1 and A.enclosing_stmt(n) in p.body:
                bound = ord(b) if isinstance(p.test.ops[0], ast.LtE) else ord(b) - 1
                if bound < 16 ** width:
                    rule.ok(f.loc(p), 'code points <= %#x fit in %d hex digits' % (bound, width))
                else:
                    rule.fail('numeric-bound|%s' % letter, f.module.rel, p.lineno, f.qualname, norm(p.test),
                              'code points up to %#x are written with only %d hex digits' % (bound, width))
    # characters written raw under allow_unicode must be printable
    R = repo.cls('reader.Reader')
    npv = R.attrs.get('NON_PRINTABLE')
    if not npv or not isinstance(npv[-1], ast.Call) or not npv[-1].args:
        raise AnalysisError('Reader.NON_PRINTABLE has vanished')
    pat = A.const_str(npv[-1].args[0])
    if pat is None:
        raise AnalysisError('Reader.NON_PRINTABLE is not a literal')
    rx = re.compile(pat)
    cond = None
    for n in walk_function(f.node):
        if isinstance(n, ast.If) and 'allow_unicode' in norm(n.test) and 'ch is None' in norm(n.test):
            cond = n.test
    if cond is None:
        raise AnalysisError('write_double_quoted: the needs-escape condition was not found')
    probes = set()
    for lit in re.findall(r'\\x([0-9A-Fa-f]{2})|\\u([0-9A-Fa-f]{4})|\\U([0-9A-Fa-f]{8})', pat):
        for h in lit:
            if h:
                v = int(h, 16)
                for d in (-1, 0, 1):
                    if 0 <= v + d < 0x110000 and not 0xD800 <= v + d <= 0xDFFF:
                        probes.add(chr(v + d))
    probes.update('\x00\x07\x1f\x20\x7e\x7f\x80\x84\x85\x86\x9f\xa0\xa1\ufeff\ufffd\ufffe\uffff\U00010000\U0010ffff é一')
    n_raw = 0
    for c in sorted(probes):
        for au in (True, False):
            v = CW.eval_cond(repo, cond, {'ch': c}, None) if False else None
            it = CW.Interp(repo, None, '\uffff', '<none>', None)
            st = CW.State({'ch': CW.C(c)})
            # self.allow_unicode is an attribute: substitute by rewriting the expression
            src = norm(cond).replace('self.allow_unicode', 'True' if au else 'False')
            e2 = ast.parse(src, mode='eval').body
            res = {CW.truth(v) for v, s in it.ev(e2, st, 0)}
            if res == {False}:
                n_raw += 1
                if rx.search(c):
                    rule.fail('raw-nonprintable|%r|%s' % (c, au), f.module.rel, cond.lineno, f.qualname, norm(cond)[:80],
                              'with allow_unicode=%s the character %r is written unescaped inside double quotes, but the '
                              'reader rejects it as non-printable: the output cannot be loaded' % (au, c))
            elif res != {True}:
                raise AnalysisError('write_double_quoted: escape condition not decidable for %r' % c)
    rule.ok(f.loc(cond), '%d probe characters written raw, all printable' % n_raw)
    rule.instances += n_raw
    return rule


TAG_PAIRS = [
    ('prepare_tag', 'scan_tag_uri', 'tag suffix'),
    ('prepare_tag_prefix', 'scan_tag_uri', 'tag prefix'),
    ('prepare_tag_handle', 'scan_tag_handle', 'tag handle'),
    ('prepare_anchor', 'scan_anchor', 'anchor'),
]


def _char_variables(f):
    """locals that hold one character of the text being processed: assigned from an index subscript, from a peek() call, or
    bound by a `for` loop (the name is whatever the code calls it)."""
    out = set()
    for n in walk_function(f.node):
        if isinstance(n, ast.Assign) and len(n.targets) == 1 and isinstance(n.targets[0], ast.Name):
            v = n.value
            if isinstance(v, ast.Subscript) and not isinstance(v.slice, ast.Slice):
                out.add(n.targets[0].id)
            elif isinstance(v, ast.Call) and isinstance(v.func, ast.Attribute) and v.func.attr == 'peek':
                out.add(n.targets[0].id)
        elif isinstance(n, ast.For) and isinstance(n.target, ast.Name):
            out.add(n.target.id)
    return out


def _is_char_test(test, var):
    reads = any(isinstance(x, ast.Name) and x.id == var for x in ast.walk(test))
    if not reads:
        return False
    for x in ast.walk(test):
        if isinstance(x, ast.Compare):
            operands = [x.left] + list(x.comparators)
            has_var = any(isinstance(y, ast.Name) and y.id == var for y in operands)
            consts = [y for y in operands if isinstance(y, ast.Constant) and isinstance(y.value, str)]
            # a range test ('0' <= ch <= '9') or membership in a multi-character literal (ch in '-_')
            if has_var and consts and (len(x.ops) == 2 or (isinstance(x.ops[0], (ast.In, ast.NotIn)) and len(consts[0].value) > 1)
                                       or isinstance(x.ops[0], (ast.Lt, ast.LtE, ast.Gt, ast.GtE))):
                return True
        if isinstance(x, ast.Call) and isinstance(x.func, ast.Attribute) and x.func.attr.startswith('is') \
                and isinstance(x.func.value, ast.Name) and x.func.value.id == var:
            return True
    return False


def _rejects(stmts):
    """does this branch reject / escape the character (raise, %-escape, encode) rather than pass it through?"""
    for s in stmts:
        for x in ast.walk(s):
            if isinstance(x, ast.Raise):
                return True
            if isinstance(x, ast.BinOp) and isinstance(x.op, ast.Mod) and isinstance(x.left, ast.Constant) \
                    and isinstance(x.left.value, str) and '%%' in x.left.value:
                return True
            if isinstance(x, ast.Call) and isinstance(x.func, ast.Attribute) and x.func.attr == 'encode':
                return True
    return False


class CharClass:
    """the set of characters a prepare_* / scan_* function lets through, as a predicate evaluated on the function's own
    condition (whatever its spelling or the name of its character variable)."""

    def __init__(self, repo, f):
        self.repo, self.f = repo, f
        vars_ = _char_variables(f)
        nodes = sorted((n for n in walk_function(f.node) if isinstance(n, (ast.If, ast.While))),
                       key=lambda n: (n.lineno, n.col_offset))
        self.node = None
        for n in nodes:
            for v in sorted(vars_):
                if _is_char_test(n.test, v):
                    self.node, self.var = n, v
                    break
            if self.node is not None:
                break
        if self.node is None:
            raise AnalysisError('%s: no condition on the current character found' % f.qualname)
        n = self.node
        if isinstance(n, ast.While):
            self.pass_when = True
        elif _rejects(n.body) and not _rejects(n.orelse):
            self.pass_when = False
        elif _rejects(n.orelse) and not _rejects(n.body):
            self.pass_when = True
        else:
            raise AnalysisError('%s: cannot tell which branch of the character test passes the character through' % f.qualname)
        self.text = norm(n.test)

    def passes(self, c):
        """True / False / None (depends on something else than the character)."""
        v = CW.eval_cond(self.repo, self.node.test, {self.var: c})
        if v is None:
            return None
        return v if self.pass_when else (not v)


def r_tagchar_inclusion(ctx, repo):
    rule = ctx.rule('R-TAGCHAR-INCLUSION', 'every character the emitter writes unescaped in a tag suffix / tag prefix / tag handle / '
                                           'anchor is a character the scanner accepts there')
    E = repo.cls('emitter.Emitter')
    S = repo.cls('scanner.Scanner')
    probes = sorted(set(CW.representative_chars(repo, 'scanner')) | set(CW.representative_chars(repo, 'emitter'))
                    | set('é一Ａ５²ǅ\xaa\xb5\U0001F600'))
    for en, sn, what in TAG_PAIRS:
        ef, sf = E.methods.get(en), S.methods.get(sn)
        if ef is None or sf is None:
            raise AnalysisError('%s / %s have vanished' % (en, sn))
        ec, sc = CharClass(repo, ef), CharClass(repo, sf)
        bad = []
        for c in probes:
            raw = ec.passes(c)
            if raw is False:
                continue
            acc = sc.passes(c)
            if acc is not True:
                bad.append(c)
        if bad:
            rule.fail('%s|%s|%s' % (en, sn, ''.join(bad[:8])), ef.module.rel, ec.node.lineno, ef.qualname, ec.text[:90],
                      '%s writes %s unescaped in a %s, but %s does not accept %s there: the emitted text does not parse back'
                      % (en, ', '.join(repr(c) for c in bad[:6]), what, sn, 'them' if len(bad) > 1 else 'it'))
        else:
            rule.ok(ef.loc(ec.node), '%s raw characters are all accepted by %s (%d probes)' % (en, sn, len(probes)))
    return rule


def prop_models(test, atoms_of):
    """enumerate truth assignments of the propositional atoms of `test`; yield (assignment, value)."""
    atoms = []

    def collect(e):
        if isinstance(e, ast.BoolOp):
            for v in e.values:
                collect(v)
        elif isinstance(e, ast.UnaryOp) and isinstance(e.op, ast.Not):
            collect(e.operand)
        else:
            k = atoms_of(e)
            if k not in atoms:
                atoms.append(k)
    collect(test)

    def ev(e, asg):
        if isinstance(e, ast.BoolOp):
            vals = [ev(v, asg) for v in e.values]
            return all(vals) if isinstance(e.op, ast.And) else any(vals)
        if isinstance(e, ast.UnaryOp) and isinstance(e.op, ast.Not):
            return not ev(e.operand, asg)
        k = atoms_of(e)
        neg = False
        if isinstance(k, tuple) and k[0] == 'not':
            k, neg = k[1], True
        v = asg[k if not neg else ('not', k)] if False else asg[atoms_of(e)]
        return v
    names = atoms
    base = sorted({(a[1] if isinstance(a, tuple) and a[0] == 'not' else a) for a in names})
    for bits in itertools.product([False, True], repeat=len(base)):
        b = dict(zip(base, bits))
        asg = {}
        for a in names:
            if isinstance(a, tuple) and a[0] == 'not':
                asg[a] = not b[a[1]]
            else:
                asg[a] = b[a]
        yield b, ev(test, asg)


def r_plain_implies_implicit(ctx, repo):
    rule = ctx.rule('R-PLAIN-IMPLIES-IMPLICIT', 'the plain style is chosen only when the event says the tag is implied for plain scalars, '
                                                'and a scalar\'s tag is elided only under implicit[0] (plain) / implicit[1] (non-plain)')
    E = repo.cls('emitter.Emitter')
    f = E.methods.get('choose_scalar_style')
    if f is None:
        raise AnalysisError('Emitter.choose_scalar_style has vanished')
    cfg = CFG(f.node)
    plain_rets = [n for n in cfg.nodes if n.kind == 'return' and A.const_str(n.ast.value) == '']
    if not plain_rets:
        raise AnalysisError('choose_scalar_style: no `return \'\'`')

    def has_implicit0(t):
        parts = t.values if isinstance(t, ast.BoolOp) and isinstance(t.op, ast.And) else [t]
        return True if any(norm(p) == 'self.event.implicit[0]' for p in parts) else None
    edges = []
    for n in cfg.nodes:
        if n.kind == 'test':
            r = has_implicit0(n.ast)
            if r:
                edges.append((n, True))
    for pr in plain_rets:
        if edges and cfg.guarded(pr, edges=edges):
            rule.ok(f.loc(pr.ast), 'return \'\' only under self.event.implicit[0]')
        else:
            rule.fail('%s|plain' % f.qualname, f.module.rel, pr.lineno, f.qualname, "return ''",
                      'the plain style can be chosen for a scalar whose tag is not implied for plain scalars: the text is '
                      're-resolved on load and comes back with another type')
    g = E.methods.get('process_tag')
    if g is None:
        raise AnalysisError('Emitter.process_tag has vanished')
    # the early return inside the ScalarEvent branch
    target = None
    for n in walk_function(g.node):
        if isinstance(n, ast.If) and 'implicit[0]' in norm(n.test) and 'implicit[1]' in norm(n.test) \
                and any(isinstance(s, ast.Return) for s in n.body):
            target = n
    if target is None:
        raise AnalysisError('process_tag: the tag-elision condition was not found')

    def atom(e):
        t = norm(e)
        if t == "self.style != ''":
            return ('not', "self.style == ''")
        if t == 'tag is not None':
            return ('not', 'tag is None')
        return t
    bad = None
    for b, val in prop_models(target.test, atom):
        if val:
            plain = b.get("self.style == ''")
            i0, i1 = b.get('self.event.implicit[0]'), b.get('self.event.implicit[1]')
            if plain is None or i0 is None or i1 is None:
                raise AnalysisError('process_tag: elision condition lost one of its atoms')
            if not ((plain and i0) or ((not plain) and i1)):
                bad = b
    if bad is None:
        rule.ok(g.loc(target), 'tag elided only when (plain and implicit[0]) or (non-plain and implicit[1])')
    else:
        rule.fail('%s|elide' % g.qualname, g.module.rel, target.lineno, g.qualname, norm(target.test)[:100],
                  'the tag of a scalar can be elided although the event does not declare it implicit for the chosen style '
                  '(e.g. %s): the loader resolves a different tag' % {k: v for k, v in bad.items()})
    return rule


def r_breakset_agreement(ctx, repo, modules, rule_id='R-BREAKSET-AGREEMENT', exceptions=()):
    """every membership literal that contains '\\n' contains the whole line-break set (or is a listed split)."""
    rule = ctx.rule(rule_id, 'every membership-test literal in %s that contains a line break contains the whole break set '
                             '{LF, NEL, LS, PS}' % ','.join(modules))
    n = 0
    for f in repo.all_functions(list(modules)):
        for c in walk_function(f.node):
            if isinstance(c, ast.Compare) and len(c.ops) == 1 and isinstance(c.ops[0], (ast.In, ast.NotIn)):
                lit = A.const_str(c.comparators[0])
                if lit is None or not (set(lit) & BREAKS):
                    continue
                if len(lit) > 40:
                    continue
                n += 1
                missing = BREAKS - set(lit)
                if not missing:
                    rule.ok(f.loc(c), '%r in %s' % (lit, f.name))
                elif (f.name, ''.join(sorted(set(lit) & (BREAKS | {'\r'})))) in exceptions:
                    rule.ok(f.loc(c), '%r in %s (listed split of the break set)' % (lit, f.name))
                else:
                    rule.fail('%s|%r' % (f.qualname, lit), f.module.rel, c.lineno, f.qualname, norm(c)[:80],
                              'the literal %r tests for line breaks but lacks %s: text containing that break character is '
                              'classified differently here than everywhere else' % (lit, ', '.join(repr(x) for x in sorted(missing))))
    rule.require_min(10, 'break-set literals')
    return rule


def _path_condition(node, stop):
    """conjunction (list of (test expr, polarity)) of the enclosing if-tests between `node` and `stop`."""
    conds = []
    p = node
    while p is not None and p is not stop:
        par = getattr(p, '_parent', None)
        if isinstance(par, ast.If):
            if p in par.body:
                conds.append((par.test, True))
            elif p in par.orelse:
                conds.append((par.test, False))
        p = par
    return conds


def _eval_prop(e, asg, atom):
    if isinstance(e, ast.BoolOp):
        vals = [_eval_prop(v, asg, atom) for v in e.values]
        return all(vals) if isinstance(e.op, ast.And) else any(vals)
    if isinstance(e, ast.UnaryOp) and isinstance(e.op, ast.Not):
        return not _eval_prop(e.operand, asg, atom)
    return asg[atom(e)]


def _atoms(e, atom, out):
    if isinstance(e, ast.BoolOp):
        for v in e.values:
            _atoms(v, atom, out)
    elif isinstance(e, ast.UnaryOp) and isinstance(e.op, ast.Not):
        _atoms(e.operand, atom, out)
    else:
        k = atom(e)
        if k not in out:
            out.append(k)


def r_directive_after_open_ended(ctx, repo):
    """C05/C15: a %YAML / %TAG directive line is only written after an open-ended document has been closed with '...'."""
    rule = ctx.rule('R-DIRECTIVE-AFTER-OPEN-ENDED', 'in expect_document_start, whenever a %YAML or %TAG directive is written while the '
                                                    'previous document is open-ended, the "..." terminator has been written first '
                                                    '(implication between the two conditions, checked over all truth assignments)')
    E = repo.cls('emitter.Emitter')
    f = E.methods.get('expect_document_start')
    if f is None:
        raise AnalysisError('Emitter.expect_document_start has vanished')
    cfg = CFG(f.node)
    dots = [c for c in A.func_calls(f.node) if norm(c.func) == 'self.write_indicator' and c.args and A.const_str(c.args[0]) == '...']
    writes = [c for c in A.func_calls(f.node) if norm(c.func) in ('self.write_version_directive', 'self.write_tag_directive')]
    if not dots or len(writes) < 2:
        raise AnalysisError('expect_document_start: "..." indicator / directive writes not found')
    atom = norm
    n = 0
    for w in writes:
        wc = _path_condition(w, f.node)
        # candidates: "..." writes that precede the directive write on every path where they are executed
        ok_any = False
        witness = None
        for d in dots:
            dc = _path_condition(d, f.node)
            dn, wn = cfg.nodes_of(A.enclosing_stmt(d)), cfg.nodes_of(A.enclosing_stmt(w))
            if not dn or not wn or not all(x in cfg.reach([dn[0]]) for x in wn):
                continue
            atoms = []
            for t, pol in wc + dc:
                _atoms(t, atom, atoms)
            if 'self.open_ended' not in atoms:
                atoms.append('self.open_ended')
            good = True
            import itertools as _it
            for bits in _it.product([False, True], repeat=len(atoms)):
                asg = dict(zip(atoms, bits))
                pw = all(_eval_prop(t, asg, atom) == pol for t, pol in wc)
                pd = all(_eval_prop(t, asg, atom) == pol for t, pol in dc)
                if pw and asg['self.open_ended'] and not pd:
                    good = False
                    witness = {k: v for k, v in asg.items()}
                    break
            if good:
                ok_any = True
                break
        n += 1
        if ok_any:
            rule.ok(f.loc(w), '%s implies the "..." terminator when open-ended' % norm(w.func))
        else:
            rule.fail('%s|%s' % (f.qualname, norm(w.func)), f.module.rel, w.lineno, f.qualname, norm(w)[:70],
                      'a directive line can be written after an open-ended document without the "..." terminator (e.g. when %s): '
                      'the directive is read back as a continuation of the previous document\'s scalar'
                      % (', '.join('%s=%s' % (k, v) for k, v in (witness or {}).items())))
    return rule


def r_tag_suffix_nonempty(ctx, repo):
    rule = ctx.rule('R-TAG-SUFFIX-NONEMPTY', 'prepare_tag replaces a prefix by its handle only when a non-empty suffix remains (or the '
                                             'handle is the primary "!"): the scanner rejects a handle with an empty URI')
    E = repo.cls('emitter.Emitter')
    f = E.methods.get('prepare_tag')
    if f is None:
        raise AnalysisError('Emitter.prepare_tag has vanished')
    cfg = CFG(f.node)
    n = 0
    for st in walk_function(f.node):
        if isinstance(st, ast.Assign) and isinstance(st.value, ast.Subscript) and isinstance(st.value.slice, ast.Slice) \
                and norm(st.value.value) == f.params[1] and st.value.slice.lower is not None and st.value.slice.upper is None \
                and isinstance(st.value.slice.lower, ast.Call) and norm(st.value.slice.lower.func) == 'len':
            p = norm(st.value.slice.lower.args[0])
            n += 1

            tagp = f.params[1]
            edges = []
            has_len = False
            for nd in cfg.nodes:
                if nd.kind != 'test':
                    continue
                t = norm(nd.ast)
                if t in ('len(%s) < len(%s)' % (p, tagp), 'len(%s) > len(%s)' % (tagp, p)):
                    edges.append((nd, True))
                    has_len = True
                elif t in ('len(%s) >= len(%s)' % (p, tagp), 'len(%s) <= len(%s)' % (tagp, p)):
                    edges.append((nd, False))
                    has_len = True
                elif t in ("%s == '!'" % p, "'!' == %s" % p):
                    edges.append((nd, True))
                elif t in ("%s != '!'" % p, "'!' != %s" % p):
                    edges.append((nd, False))
            if not has_len:
                edges = []
            nodes = cfg.nodes_of(st)
            if edges and nodes and all(cfg.guarded(x, edges=edges) for x in nodes):
                rule.ok(f.loc(st), 'suffix = tag[len(%s):] only when len(%s) < len(tag) or %s == \'!\'' % (p, p, p))
            else:
                rule.fail('%s|suffix' % f.qualname, f.module.rel, st.lineno, f.qualname, norm(st),
                          'a tag that equals one of the registered prefixes is shortened to the bare handle with an empty suffix: '
                          'both parsers reject the emitted text ("expected URI")')
    rule.require_min(1, 'prefix-stripping slices')
    return rule
