"""Emitter-side rules (C05, C02, C15): R-STATE-EXHAUSTIVE, R-BYTES-ITER, R-ESCAPE-INVERSE, R-TAGCHAR-INCLUSION,
R-PLAIN-IMPLIES-IMPLICIT, R-BREAKSET-AGREEMENT, R-DIRECTIVE-AFTER-OPEN-ENDED, R-TAG-SUFFIX-NONEMPTY.

The rules are stated on semantic facts of the normalised program, not on its spelling:

  * variables are found by their role (the parameter at position i, the variable whose code point is formatted, the
    variable bound to one character of the text), never by their name;
  * conditions are never compared as text: they are *evaluated* (sa.charworld) under a scenario - an environment that fixes
    a character variable / a parameter, plus a table that fixes attribute reads such as self.allow_unicode - and the
    control-flow graph is explored along the edges that are feasible in that scenario (`reach`);
  * "x was computed from y" questions are answered by reaching definitions on the CFG (`Flow`), optionally restricted to
    the edges that are feasible when some tests are decided.
"""
import ast
import itertools
import re

from . import astutil as A
from . import charworld as CW
from . import rules_registry as RR
from .cfg import CFG, own_exprs
from .srcmodel import AnalysisError, ClassInfo, FuncInfo, norm, walk_function

BREAKS = set('\n\x85\u2028\u2029')


# ---------------------------------------------------------------------------------------------------------------
# shared machinery: scenario evaluation, feasible reachability, reaching definitions, string-format templates
# ---------------------------------------------------------------------------------------------------------------

def preorder_stmts(fnode):
    """statements of a function in *syntactic* order (pre-order), nested defs excluded.  Line numbers are not used:
    inlined helper bodies keep the line numbers of the helper."""
    def rec(stmts):
        for s in stmts:
            if isinstance(s, (ast.FunctionDef, ast.AsyncFunctionDef, ast.ClassDef)):
                continue
            yield s
            for fld in ('body', 'orelse', 'finalbody'):
                b = getattr(s, fld, None)
                if isinstance(b, list) and b and isinstance(b[0], ast.stmt):
                    yield from rec(b)
            for h in getattr(s, 'handlers', None) or []:
                yield from rec(h.body)
    return list(rec(fnode.body))


def rebuild(node, fn=None):
    """copy of an expression tree made from its fields only (the parent links the source model hangs on every node are not
    followed, so the copy is cheap); fn(sub-node) may return a replacement for a sub-expression (outermost first)."""
    if fn is not None:
        r = fn(node)
        if r is not None:
            return r
    new = node.__class__()
    for field in node._fields:
        v = getattr(node, field, None)
        if isinstance(v, list):
            setattr(new, field, [rebuild(x, fn) if isinstance(x, ast.AST) else x for x in v])
        elif isinstance(v, ast.AST):
            setattr(new, field, rebuild(v, fn))
        else:
            setattr(new, field, v)
    for a in ('lineno', 'col_offset', 'end_lineno', 'end_col_offset'):
        if hasattr(node, a):
            setattr(new, a, getattr(node, a))
    return new


def subst(expr, table):
    """copy of `expr` in which every sub-expression whose source text is a key of `table` is replaced by the constant
    table[key] (outermost match first).  Used to fix attribute reads (self.allow_unicode, self.event.implicit[0] ...)
    in a scenario; the keys are attribute paths of the object model, never local names."""
    if not table:
        return expr

    def fn(node):
        if isinstance(node, (ast.Attribute, ast.Subscript, ast.Call, ast.Name)):
            k = norm(node)
            if k in table:
                return ast.copy_location(ast.Constant(value=table[k]), node)
        return None
    return rebuild(expr, fn)


def is_pure_in(expr, names):
    """does the (already substituted) condition read nothing but the given local names and constants?  Such a condition
    must be decidable in a scenario that fixes those names; if it is not, the analysis is lost (AnalysisError)."""
    for x in ast.walk(expr):
        if isinstance(x, ast.Name) and x.id not in names and x.id not in ('ord', 'len', 'None', 'True', 'False'):
            return False
        if isinstance(x, ast.Attribute):
            # a str method applied to a pure operand is fine (ch.isalnum()); any other attribute read is state
            par_ok = x.attr in CW.CONST_STR_METHODS
            if not par_ok:
                return False
        if isinstance(x, (ast.Subscript, ast.Starred, ast.Lambda, ast.Await, ast.Yield, ast.YieldFrom)):
            return False
        if isinstance(x, ast.Call) and not (isinstance(x.func, ast.Attribute) and x.func.attr in CW.CONST_STR_METHODS
                                            or isinstance(x.func, ast.Name) and x.func.id in ('ord', 'len')):
            return False
    return True


class Flow:
    """reaching definitions of the locals of one function on its CFG.

    IN[node][name] is the set of definitions of `name` that can reach the entry of `node`; a definition is the CFG node
    that binds the name, or Flow.ENTRY for the value a parameter has on entry.  When `decide(node, flow)` is given, it is
    asked for the value (True / False / None) of every atomic test with the definitions known so far, and only feasible
    edges are followed: the result then describes one *scenario* (e.g. "the parameter stream is None").  The iteration is
    monotone: more definitions can only make a test less decided, which only adds edges."""
    ENTRY = 'entry'

    def __init__(self, cfg, params=(), decide=None):
        self.cfg = cfg
        self.IN = {cfg.entry: {p: frozenset([Flow.ENTRY]) for p in params}}
        work = [cfg.entry]
        while work:
            n = work.pop()
            env = self.IN[n]
            out = env
            bound = self.bound_names(n)
            if bound:
                out = dict(env)
                for nm in bound:
                    out[nm] = frozenset([n])
            v = None
            if n.kind == 'test' and decide is not None:
                self._at = n
                v = decide(n, self)
            for (m, lab) in cfg.succ[n]:
                if v is not None and lab in (True, False) and lab != v:
                    continue
                cur = self.IN.get(m)
                if cur is None:
                    self.IN[m] = dict(out)
                    work.append(m)
                    continue
                changed = False
                for k, s in out.items():
                    old = cur.get(k)
                    new = s if old is None else (old | s)
                    if new != old:
                        cur[k] = new
                        changed = True
                if changed:
                    work.append(m)

    @staticmethod
    def bound_names(n):
        a = n.ast
        if a is None:
            return ()
        out = []
        if n.kind == 'for':
            out = [x.id for x in ast.walk(n.stmt.target) if isinstance(x, ast.Name)]
        elif n.kind == 'handler':
            out = [a.name] if getattr(a, 'name', None) else []
        elif isinstance(a, ast.Assign):
            out = [x.id for t in a.targets for x in ast.walk(t) if isinstance(x, ast.Name) and isinstance(x.ctx, ast.Store)]
        elif isinstance(a, (ast.AugAssign, ast.AnnAssign)):
            out = [a.target.id] if isinstance(a.target, ast.Name) else []
        elif isinstance(a, (ast.With, ast.AsyncWith)):
            out = [x.id for it in a.items if it.optional_vars is not None for x in ast.walk(it.optional_vars)
                   if isinstance(x, ast.Name)]
        elif isinstance(a, (ast.Import, ast.ImportFrom)):
            out = [(al.asname or al.name).split('.')[0] for al in a.names]
        for x in own_exprs(n):
            if isinstance(x, ast.NamedExpr) and isinstance(x.target, ast.Name):
                out.append(x.target.id)
        return out

    def reached(self, node):
        return node in self.IN

    def defs(self, node, name):
        return self.IN.get(node, {}).get(name, frozenset())

    @staticmethod
    def value_of(d):
        """the expression a definition binds to its (single) name, or None when the binding is not a plain `x = expr`."""
        if d == Flow.ENTRY or d.kind == 'for':
            return None
        a = d.ast
        if isinstance(a, ast.Assign) and all(isinstance(t, ast.Name) for t in a.targets):
            return a.value
        if isinstance(a, ast.AnnAssign) and isinstance(a.target, ast.Name):
            return a.value
        return None

    def deref(self, node, expr, depth=4):
        """`expr` with every local that has exactly one reaching definition `x = <attribute path>` (or a call-free boolean
        combination of such paths) replaced by that expression, so `implicit = self.event.implicit; ... implicit[0]` reads
        as `self.event.implicit[0]` and `need = a and self.b; if need:` reads as `if a and self.b:`."""
        flow = self

        def path_like(e):
            while isinstance(e, (ast.Attribute, ast.Subscript)):
                if isinstance(e, ast.Subscript) and not isinstance(e.slice, ast.Constant):
                    return False
                e = e.value
            return isinstance(e, ast.Name)

        def pure(e):
            """a call-free boolean / arithmetic combination of attribute paths, constants and ord() / len() of those"""
            if isinstance(e, ast.BoolOp):
                return all(pure(v) for v in e.values)
            if isinstance(e, ast.UnaryOp):
                return pure(e.operand)
            if isinstance(e, ast.BinOp):
                return pure(e.left) and pure(e.right)
            if isinstance(e, ast.Compare):
                return all(pure(v) for v in [e.left] + list(e.comparators))
            if isinstance(e, ast.Call):
                return isinstance(e.func, ast.Name) and e.func.id in ('ord', 'len') and not e.keywords and all(pure(a) for a in e.args)
            return isinstance(e, ast.Constant) or path_like(e)

        def fn(x):
            if not isinstance(x, ast.Name) or not isinstance(x.ctx, ast.Load) or depth <= 0:
                return None
            ds = flow.defs(node, x.id)
            if len(ds) != 1:
                return None
            d = next(iter(ds))
            v = Flow.value_of(d)
            if v is None or isinstance(v, (ast.Name, ast.Constant)) or not pure(v):
                return None
            # the locals the value is computed from still have the definitions they had when it was computed
            for y in ast.walk(v):
                if isinstance(y, ast.Name) and flow.defs(d, y.id) != flow.defs(node, y.id):
                    return None
            return flow.deref(d, v, depth - 1) if any(isinstance(y, ast.Name) and flow.defs(d, y.id) for y in ast.walk(v)) \
                else rebuild(v)
        if not any(isinstance(x, ast.Name) and self.defs(node, x.id) for x in ast.walk(expr)):
            return expr
        return rebuild(expr, fn)

    def values(self, node, name, evaltest=None):
        """[(definition, value expression or None)] for the definitions of `name` reaching `node`; a conditional
        expression is replaced by the branch(es) evaltest(definition, test) -> True / False / None selects."""
        out = []
        for d in self.defs(node, name):
            v = None if d == Flow.ENTRY else Flow.value_of(d)
            if v is None:
                out.append((d, None))
            else:
                out.extend((d, leaf) for leaf in expand_ifexp(v, (lambda t, d=d: evaltest(d, t)) if evaltest else None))
        return out


def expand_ifexp(expr, evaltest=None):
    """the alternatives of a (nested) conditional expression; evaltest(test) may decide which branch is taken."""
    if isinstance(expr, ast.IfExp):
        v = evaltest(expr.test) if evaltest is not None else None
        out = []
        if v is not False:
            out.extend(expand_ifexp(expr.body, evaltest))
        if v is not True:
            out.extend(expand_ifexp(expr.orelse, evaltest))
        return out
    return [expr]


def reach(cfg, decide=None, starts=None, blocked=(), follow_exc=True):
    """CFG nodes reachable from `starts` (default: the entry) without entering a node of `blocked`, following from every
    atomic test only the edge its value allows; decide(node) -> True / False / None (None: both edges)."""
    blocked = set(blocked)
    seen = set()
    stack = [s for s in (starts or [cfg.entry]) if s not in blocked]
    while stack:
        n = stack.pop()
        if n in seen:
            continue
        seen.add(n)
        v = decide(n) if (decide is not None and n.kind == 'test' and n.ast is not None) else None
        for (m, lab) in cfg.succ[n]:
            if v is not None and lab in (True, False) and lab != v:
                continue
            if lab == 'exc' and not follow_exc:
                continue
            if m not in blocked and m not in seen:
                stack.append(m)
    return seen


class Scenario:
    """evaluation of the atomic tests of one function under an environment of constants for some locals (`env`) and a
    table of constants for some attribute paths (`table`).  `must_decide`: the names whose tests have to be decidable."""

    def __init__(self, repo, f, cfg=None):
        self.repo, self.f = repo, f
        self.cfg = cfg or CFG(f.node)
        self.flow = Flow(self.cfg, f.params)
        self._cache = {}

    def resolved(self, node):
        """the test of a CFG node with hoisted attribute paths substituted back."""
        r = self._cache.get(node)
        if r is None:
            r = self._cache[node] = self.flow.deref(node, node.ast)
        return r

    def decider(self, env=None, table=None, must_decide=(), hook=None, what=''):
        env = dict(env or {})
        table = dict(table or {})
        must = set(must_decide)

        def decide(node, penv=None):
            e = self.resolved(node)
            if penv:
                # locals that hold a constant on this path (selector / flag variables) are written as that constant
                def fn(x):
                    if isinstance(x, ast.Name) and isinstance(x.ctx, ast.Load) and x.id in penv and x.id not in env:
                        return ast.copy_location(ast.Constant(value=penv[x.id]), x)
                    return None
                e = rebuild(e, fn)
            if hook is not None:
                v = hook(e)
                if v is not None:
                    return v
            e2 = subst(e, table)
            v = CW.eval_cond(self.repo, e2, env)
            if v is None:
                # the condition is the call of a predicate method of the same class (`self._tag_is_implicit()`): its value
                # in this scenario is the value its own code returns under the same environment and table
                v = self._predicate_value(e, env, table, hook, 0)
            if v is None and must and is_pure_in(e2, must) and any(isinstance(x, ast.Name) and x.id in must for x in ast.walk(e2)):
                raise AnalysisError('%s: the condition `%s` is not decidable%s' % (self.f.qualname, norm(node.ast)[:80], what))
            return v
        return decide

    # ---- predicate methods: a condition that is computed by a side-effect-free method of the same class ---------------

    def _predicate(self, name, _depth=0):
        """the method `name` of the analysed function's class when it is a *predicate*: branches and returns only, reading
        state and binding plain locals, calling nothing but str predicates / len / ord / isinstance and other predicates of
        the class.  Evaluating such a method changes nothing, so its result can stand for the call.  None otherwise."""
        cache = self.__dict__.setdefault('_preds', {})
        if name in cache:
            return cache[name]
        cache[name] = None              # a predicate that calls itself is not one
        cls = getattr(self.f, 'cls', None)
        found = self.repo.lookup(cls, name) if cls is not None else None
        g = found[1] if found is not None and isinstance(found[1], FuncInfo) else None
        if g is None or _depth > 3 or g.is_generator or g.decorators or not g.params \
                or g.node.args.vararg or g.node.args.kwarg or g.node.args.kwonlyargs or isinstance(g.node, ast.AsyncFunctionDef):
            return None
        for x in walk_function(g.node):
            if isinstance(x, ast.stmt):
                if isinstance(x, (ast.If, ast.Return, ast.Pass)):
                    continue
                if isinstance(x, ast.Expr) and isinstance(x.value, ast.Constant):
                    continue
                if isinstance(x, ast.Assign) and all(isinstance(t, ast.Name) for t in x.targets):
                    continue
                return None
            if isinstance(x, (ast.NamedExpr, ast.Yield, ast.YieldFrom, ast.Await, ast.Starred)):
                return None
            if isinstance(x, ast.Call):
                fn = x.func
                if isinstance(fn, ast.Name) and fn.id in ('len', 'ord', 'isinstance'):
                    continue
                if isinstance(fn, ast.Attribute) and fn.attr in CW.CONST_STR_METHODS:
                    continue
                if isinstance(fn, ast.Attribute) and isinstance(fn.value, ast.Name) and fn.value.id == g.params[0] \
                        and self._predicate(fn.attr, _depth + 1) is not None:
                    continue
                return None
        cache[name] = g
        return g

    def _predicate_value(self, e, env, table, hook, depth):
        """three-valued truth of `self.<predicate>(args)` (possibly negated) under the scenario: the predicate's own CFG is
        explored with the same environment / table / hook, its parameters standing for the argument expressions; the call is
        decided when every return it can reach has the same decided truth value."""
        inner, pos = A.strip_not(e)
        if depth > 3 or not self.f.params:
            return None
        if not (isinstance(inner, ast.Call) and isinstance(inner.func, ast.Attribute) and isinstance(inner.func.value, ast.Name)
                and inner.func.value.id == self.f.params[0] and not inner.keywords):
            return None
        if any(isinstance(y, (ast.Call, ast.NamedExpr, ast.Starred, ast.Await)) for a in inner.args for y in ast.walk(a)):
            return None
        g = self._predicate(inner.func.attr)
        if g is None or len(inner.args) > len(g.params) - 1:
            return None
        bind = {g.params[0]: inner.func.value}
        bind.update(zip(g.params[1:], inner.args))
        defaults = g.defaults()
        for p in g.params[1:]:
            if p not in bind:
                if p not in defaults:
                    return None
                bind[p] = defaults[p]
        subs = self.__dict__.setdefault('_pred_scen', {})
        sub = subs.get(g.qualname)
        if sub is None:
            sub = subs[g.qualname] = Scenario(self.repo, g)
            sub._locals = {nm for n in sub.cfg.nodes for nm in Flow.bound_names(n)}

        def inst(node, expr):
            """an expression of the predicate at `node`, in terms of the caller: locals put back, parameters replaced"""
            x = sub.flow.deref(node, expr)
            for y in ast.walk(x):
                if isinstance(y, ast.Name) and (y.id in sub._locals or (y.id not in bind and y.id in (env or {}))):
                    return None

            def fn(y):
                if isinstance(y, ast.Name) and isinstance(y.ctx, ast.Load) and y.id in bind:
                    return rebuild(bind[y.id])
                return None
            return rebuild(x, fn)

        def atom(a):
            if hook is not None:
                v = hook(a)
                if v is not None:
                    return v
            v = CW.eval_cond(self.repo, subst(a, table), env or {})
            if v is None:
                v = self._predicate_value(a, env, table, hook, depth + 1)
            return v

        def value(node, expr):
            x = inst(node, expr)
            return None if x is None else A.eval3(x, atom)
        r = reach(sub.cfg, lambda n: value(n, n.ast))
        vals = set()
        for n in r:
            if n.kind == 'return':
                vals.add(False if n.ast.value is None else value(n, n.ast.value))
        if sub.cfg.exit_fall in r:
            vals.add(False)
        if len(vals) != 1:
            return None
        v = vals.pop()
        if v is None:
            return None
        return v if pos else (not v)

    def _tracked(self):
        """locals that are assigned a literal somewhere and are never bound by a loop / with / handler: followed per path."""
        if not hasattr(self, '_trk'):
            lit, other = set(), set()
            for n in self.cfg.nodes:
                a = n.ast
                if a is None:
                    continue
                if n.kind == 'stmt' and isinstance(a, ast.Assign) and len(a.targets) == 1 and isinstance(a.targets[0], ast.Name) \
                        and isinstance(a.value, ast.Constant) and isinstance(a.value.value, (int, str, bool, type(None))):
                    lit.add(a.targets[0].id)
                elif isinstance(a, ast.AugAssign) and isinstance(a.op, ast.Add) and isinstance(a.value, ast.Constant) \
                        and isinstance(a.value.value, (int, str)) and not isinstance(a.value.value, bool):
                    pass        # x += literal keeps a known value known
                elif n.kind in ('for', 'handler') or isinstance(a, (ast.With, ast.AugAssign, ast.AnnAssign)):
                    other |= set(Flow.bound_names(n))
            self._trk = lit - other - set(self.f.params)
        return self._trk

    def reach(self, env=None, table=None, blocked=(), starts=None, must_decide=(), hook=None, what=''):
        decide = self.decider(env, table, must_decide, hook, what)
        tracked = self._tracked() - set(env or {})
        if not tracked:
            return reach(self.cfg, decide, starts=starts, blocked=blocked)
        # path-sensitive in the tracked locals: states are (node, constants known on this path)
        cfg = self.cfg
        blocked = set(blocked)
        seen = set()
        out = set()
        stack = [(s, frozenset()) for s in (starts or [cfg.entry]) if s not in blocked]
        budget = 60000
        while stack:
            n, pe = stack.pop()
            if (n, pe) in seen:
                continue
            seen.add((n, pe))
            out.add(n)
            budget -= 1
            if budget <= 0:
                return reach(cfg, decide, starts=starts, blocked=blocked)
            penv = dict(pe)
            v = decide(n, penv) if (n.kind == 'test' and n.ast is not None) else None
            bound = [b for b in Flow.bound_names(n) if b in tracked] if n.ast is not None else []
            if bound:
                a = n.ast
                for b in bound:
                    penv.pop(b, None)
                if isinstance(a, ast.Assign) and len(a.targets) == 1 and isinstance(a.targets[0], ast.Name) \
                        and isinstance(a.value, ast.Constant) and isinstance(a.value.value, (int, str, bool, type(None))):
                    penv[a.targets[0].id] = a.value.value
                elif isinstance(a, ast.Assign) and len(a.targets) == 1 and isinstance(a.targets[0], ast.Name) \
                        and isinstance(a.value, ast.Name) and a.value.id in dict(pe):
                    penv[a.targets[0].id] = dict(pe)[a.value.id]
                elif isinstance(a, ast.AugAssign) and isinstance(a.target, ast.Name) and isinstance(a.op, ast.Add) \
                        and isinstance(a.value, ast.Constant) and a.target.id in dict(pe):
                    try:
                        penv[a.target.id] = dict(pe)[a.target.id] + a.value.value
                    except TypeError:
                        pass
            npe = frozenset(penv.items())
            for (m, lab) in cfg.succ[n]:
                if v is not None and lab in (True, False) and lab != v:
                    continue
                if m not in blocked:
                    stack.append((m, npe))
        return out

    def nodes_of_stmt(self, sub):
        """the CFG nodes at which the statement containing `sub` is executed."""
        st = A.enclosing_stmt(sub)
        out = list(self.cfg.nodes_of(st))
        if not out:
            # the expression sits in the test of a compound statement
            for n in self.cfg.nodes:
                if n.ast is not None and n.kind in ('test', 'for') and any(x is sub for x in ast.walk(n.ast)):
                    out.append(n)
        return out


_PCT = re.compile(r'%(?:(%)|([-#0 +]*\d*(?:\.\d+)?)([a-zA-Z]))')


def format_segments(node):
    """the template of a string formatting expression as [('lit', text) | ('fmt', spec, operand expr)], whatever its
    spelling: 'x%02X' % v, f'x{v:02X}', 'x{:02X}'.format(v).  spec is printf-like without the percent sign ('02X', 's',
    'r', 'd').  None when `node` is not a formatting expression or uses features not modelled."""
    segs = []

    def lit(s):
        if s:
            if segs and segs[-1][0] == 'lit':
                segs[-1] = ('lit', segs[-1][1] + s)
            else:
                segs.append(('lit', s))
    if isinstance(node, ast.BinOp) and isinstance(node.op, ast.Mod) and A.const_str(node.left) is not None:
        tmpl = A.const_str(node.left)
        ops = list(node.right.elts) if isinstance(node.right, ast.Tuple) else [node.right]
        i = pos = 0
        for m in _PCT.finditer(tmpl):
            lit(tmpl[pos:m.start()])
            pos = m.end()
            if m.group(1):
                lit('%')
                continue
            if i >= len(ops):
                return None
            segs.append(('fmt', m.group(2) + m.group(3), ops[i]))
            i += 1
        lit(tmpl[pos:])
        if '%' in tmpl[:0] or i != len(ops):
            return None
        return segs
    if isinstance(node, ast.JoinedStr):
        for v in node.values:
            if isinstance(v, ast.Constant) and isinstance(v.value, str):
                lit(v.value)
            elif isinstance(v, ast.FormattedValue):
                spec = ''
                fs = v.format_spec
                if isinstance(fs, ast.JoinedStr) and all(isinstance(x, ast.Constant) for x in fs.values):
                    spec = ''.join(str(x.value) for x in fs.values)
                elif isinstance(fs, ast.Constant):
                    spec = str(fs.value)
                elif fs is not None:
                    return None
                if not spec:
                    spec = 'r' if v.conversion == ord('r') else 's'
                elif v.conversion != -1:
                    return None
                segs.append(('fmt', spec, v.value))
            else:
                return None
        return segs
    if isinstance(node, ast.Call) and isinstance(node.func, ast.Attribute) and node.func.attr == 'format' \
            and A.const_str(node.func.value) is not None and not node.keywords:
        tmpl = A.const_str(node.func.value)
        i = pos = 0
        for m in re.finditer(r'\{\{|\}\}|\{(\d*)(?:!([rs]))?(?::([^{}]*))?\}', tmpl):
            lit(tmpl[pos:m.start()])
            pos = m.end()
            if m.group(0) in ('{{', '}}'):
                lit(m.group(0)[0])
                continue
            k = int(m.group(1)) if m.group(1) else i
            i += 1
            if k >= len(node.args):
                return None
            spec = m.group(3) or ('r' if m.group(2) == 'r' else 's')
            segs.append(('fmt', spec, node.args[k]))
        lit(tmpl[pos:])
        return segs
    return None


def formattings(root):
    """(node, segments) for every string formatting expression under root (a function def or a list of nodes)."""
    nodes = walk_function(root) if isinstance(root, (ast.FunctionDef, ast.AsyncFunctionDef)) else \
        (x for r in (root if isinstance(root, list) else [root]) for x in ast.walk(r))
    out = []
    for n in nodes:
        if isinstance(n, (ast.BinOp, ast.JoinedStr, ast.Call)):
            s = format_segments(n)
            if s is not None and any(k[0] == 'fmt' for k in s):
                out.append((n, s))
    return out


def anonymised(expr, var):
    """structural text of expr with the variable `var` replaced by a placeholder (for sibling comparisons)."""
    def fn(x):
        if isinstance(x, ast.Name) and x.id == var:
            return ast.copy_location(ast.Name(id='_', ctx=ast.Load()), x)
        return None
    return norm(rebuild(expr, fn))


def self_attr_aliases(f, path):
    """names that denote the attribute path `path` (e.g. 'self.event') in f: the path itself and every local whose
    assignments all are `x = <path>`."""
    vals = {}
    for n in walk_function(f.node):
        if isinstance(n, ast.Assign):
            for t in n.targets:
                for x in ast.walk(t):
                    if isinstance(x, ast.Name) and isinstance(x.ctx, ast.Store):
                        vals.setdefault(x.id, []).append(n.value if isinstance(t, ast.Name) else None)
        elif isinstance(n, (ast.For, ast.AugAssign, ast.With)):
            tgt = n.target if not isinstance(n, ast.With) else None
            if tgt is not None:
                for x in ast.walk(tgt):
                    if isinstance(x, ast.Name):
                        vals.setdefault(x.id, []).append(None)
    out = {path}
    for k, vs in vals.items():
        if vs and all(v is not None and norm(v) == path for v in vs) and k not in f.params:
            out.add(k)
    return out


# ---------------------------------------------------------------------------------------------------------------

def state_handlers(repo, cls_q='emitter.Emitter'):
    """methods that can become self.state (assigned to it or pushed on self.states)."""
    K = repo.cls(cls_q)
    names = set()
    for f in K.methods.values():
        for n in walk_function(f.node):
            if isinstance(n, ast.Assign) and any(norm(t) == 'self.state' for t in n.targets) \
                    and isinstance(n.value, ast.Attribute) and norm(n.value.value) == 'self':
                names.add(n.value.attr)
            if isinstance(n, ast.Call) and norm(n.func) == 'self.states.append' and n.args \
                    and isinstance(n.args[0], ast.Attribute) and norm(n.args[0].value) == 'self':
                names.add(n.args[0].attr)
    return K, sorted(names)


def r_state_exhaustive(ctx, repo):
    rule = ctx.rule('R-STATE-EXHAUSTIVE', 'every emitter state handler, on every path, has positively identified the event class '
                                          '(true edge of isinstance(self.event, K)), or delegates to a handler that does, or raises '
                                          'EmitterError')
    K, names = state_handlers(repo)
    memo = {}

    def exhaustive(f, stack=()):
        if f in memo:
            return memo[f]
        if f in stack:
            return True
        cfg = CFG(f.node)
        events = self_attr_aliases(f, 'self.event')
        blockers = []
        edges = []
        for n in cfg.nodes:
            if n.ast is None:
                continue
            if n.kind == 'test':
                # every test node is an atomic condition: the true edge of isinstance(<the event>, K) identifies the event
                inner, pos = A.strip_not(n.ast)
                if isinstance(inner, ast.Call) and norm(inner.func) == 'isinstance' and len(inner.args) == 2 \
                        and norm(inner.args[0]) in events:
                    edges.append((n, pos))
            for sub in own_exprs(n):
                if isinstance(sub, ast.Call) and isinstance(sub.func, ast.Attribute) and norm(sub.func.value) == 'self' \
                        and sub.func.attr in K.methods and K.methods[sub.func.attr] is not f \
                        and (sub.func.attr.startswith('expect_') or sub.func.attr in names):
                    g = K.methods[sub.func.attr]
                    if exhaustive(g, stack + (f,)):
                        blockers.append(n)
        r = cfg.reach([cfg.entry], blocked=blockers, blocked_edges=edges, follow_exc=False)
        ok = not any(x in r for x in cfg.normal_exits())
        memo[f] = ok
        return ok
    for name in names:
        f = K.methods.get(name)
        if f is None:
            raise AnalysisError('emitter state handler %s is assigned but not defined' % name)
        if exhaustive(f):
            rule.ok(f.loc(), '%s identifies the event or raises on every path' % name)
        else:
            rule.fail('%s|exhaustive' % f.qualname, f.module.rel, f.node.lineno, f.qualname, 'def %s' % name,
                      'a path through the state handler %s completes without having identified the event class: an event that '
                      'is not allowed in this state is silently accepted instead of raising EmitterError' % name)
    rule.require_min(9, 'emitter state handlers')
    return rule


def _iterations(fnode):
    """(variable, iterable, body nodes, anchor) of every for statement and every comprehension / generator clause."""
    for n in walk_function(fnode):
        if isinstance(n, ast.For) and isinstance(n.target, ast.Name):
            yield n.target.id, n.iter, list(n.body), n
        elif isinstance(n, (ast.ListComp, ast.SetComp, ast.GeneratorExp, ast.DictComp)):
            elts = [n.key, n.value] if isinstance(n, ast.DictComp) else [n.elt]
            for i, g in enumerate(n.generators):
                if isinstance(g.target, ast.Name):
                    yield g.target.id, g.iter, elts + list(g.ifs) + [x.iter for x in n.generators[i + 1:]], n


def _is_encode_call(e):
    return isinstance(e, ast.Call) and isinstance(e.func, ast.Attribute) and e.func.attr == 'encode'


def r_bytes_iter(ctx, repo, modules=('emitter',)):
    rule = ctx.rule('R-BYTES-ITER', 'iterating a bytes value binds ints: ord() is never applied to such a loop variable, and the '
                                    'percent-escaping loops format the same expression with the same template (sibling agreement)')
    loops = []
    for f in repo.all_functions(list(modules)):
        btypes = set()
        for n in walk_function(f.node):
            if isinstance(n, ast.Assign) and _is_encode_call(n.value):
                for t in n.targets:
                    if isinstance(t, ast.Name):
                        btypes.add(t.id)
        for var, it, body, anchor in _iterations(f.node):
            if not (isinstance(it, ast.Name) and it.id in btypes or _is_encode_call(it)):
                continue
            bad = [c for c in A.calls_in(body) if norm(c.func) == 'ord' and c.args
                   and isinstance(c.args[0], ast.Name) and c.args[0].id == var]
            fmts = formattings(body)
            loops.append((f, anchor, var, fmts))
            if bad:
                rule.fail('%s|ord(_)|TypeError' % f.qualname, f.module.rel, bad[0].lineno, f.qualname, norm(bad[0]),
                          'the loop variable %s iterates over a bytes object and is therefore an int; ord(%s) raises '
                          'TypeError for every character that needs percent-escaping' % (var, var))
            else:
                rule.ok(f.loc(anchor), 'iteration over <bytes> in %s: no ord() on the int' % f.name)
    sigs = {}
    for f, n, var, fmts in loops:
        for node, segs in fmts:
            tmpl = tuple(('lit', s[1]) if s[0] == 'lit' else ('fmt', s[1]) for s in segs)
            ops = tuple(anonymised(s[2], var) for s in segs if s[0] == 'fmt')
            sigs.setdefault(tmpl, {}).setdefault(ops, []).append((f, node))
    for tmpl, by_ops in sigs.items():
        shown = ''.join(s[1] if s[0] == 'lit' else '%' + s[1] for s in tmpl)
        if len(by_ops) > 1:
            f, node = sorted(by_ops.items(), key=lambda kv: len(kv[1]))[0][1][0]
            rule.fail('sibling-escape|%r' % shown, f.module.rel, node.lineno, 'emitter.Emitter.prepare_tag*', shown,
                      'the percent-escaping loops of prepare_tag and prepare_tag_prefix format different expressions (%s) with '
                      'the same template: one of them is wrong' % sorted(' / '.join(o) for o in by_ops))
        else:
            rule.ok('emitter', 'escape template %r formatted identically in %d loop(s)' % (shown, sum(len(v) for v in by_ops.values())))
    rule.require_min(1, 'bytes loops')
    return rule


def class_dict(repo, qual, name):
    K = repo.cls(qual)
    vals = K.attrs.get(name)
    if not vals:
        raise AnalysisError('%s.%s has vanished' % (qual, name))
    d = A.fold_value(vals[-1], K.module, K.node)
    if not isinstance(d, dict):
        raise AnalysisError('%s.%s is not a literal dict' % (qual, name))
    return d, vals[-1]


def r_escape_inverse(ctx, repo):
    rule = ctx.rule('R-ESCAPE-INVERSE', 'the emitter\'s escape table is inverted by the scanner\'s; numeric escape formats agree with '
                                        'ESCAPE_CODES; every character written unescaped in double quotes is printable for the reader')
    em, emn = class_dict(repo, 'emitter.Emitter', 'ESCAPE_REPLACEMENTS')
    sc, scn = class_dict(repo, 'scanner.Scanner', 'ESCAPE_REPLACEMENTS')
    codes, cn = class_dict(repo, 'scanner.Scanner', 'ESCAPE_CODES')
    E = repo.cls('emitter.Emitter')
    for ch, letter in sorted(em.items()):
        if sc.get(letter) == ch:
            rule.ok('lib/yaml/emitter.py:%d' % emn.lineno, 'escape %r -> \\%s -> %r' % (ch, letter, sc.get(letter)))
        else:
            rule.fail('escape|%r|%s' % (ch, letter), 'lib/yaml/emitter.py', emn.lineno, 'emitter.Emitter.ESCAPE_REPLACEMENTS',
                      '%r: %r' % (ch, letter),
                      'the emitter writes %r as \\%s, which the scanner reads back as %r' % (ch, letter, sc.get(letter)))
    f = E.methods.get('write_double_quoted')
    if f is None:
        raise AnalysisError('Emitter.write_double_quoted has vanished')
    # numeric escapes: a backslash, a letter and a zero-padded hexadecimal field (any formatting idiom)
    fmts = []
    for node, segs in formattings(f.node):
        if len(segs) == 2 and segs[0][0] == 'lit' and segs[1][0] == 'fmt':
            m1 = re.fullmatch(r'\\([A-Za-z])', segs[0][1])
            m2 = re.fullmatch(r'0(\d+)[Xx]', segs[1][1])
            if m1 and m2:
                fmts.append((m1.group(1), int(m2.group(1)), node, segs[1][2]))
    if not fmts:
        raise AnalysisError('write_double_quoted: numeric escape formats not found')
    # the character variable is the one whose code point is formatted
    S = Scenario(repo, f)
    cvars = set()
    for letter, width, node, operand in fmts:
        at = S.nodes_of_stmt(node)
        for x in ast.walk(operand):
            if isinstance(x, ast.Name) and x.id not in ('ord', 'int', 'hex', 'format'):
                # the formatted value is ord(<character>), possibly through a local (code = ord(ch))
                vals = [v for n in at for d, v in S.flow.values(n, x.id)]
                if vals and all(isinstance(v, ast.Call) and norm(v.func) == 'ord' and len(v.args) == 1
                                and isinstance(v.args[0], ast.Name) for v in vals):
                    cvars |= {v.args[0].id for v in vals}
                else:
                    cvars.add(x.id)
    if len(cvars) != 1:
        raise AnalysisError('write_double_quoted: the numeric escapes do not format one character variable (%s)' % sorted(cvars))
    cvar = next(iter(cvars))
    boundary = set('\x00\x1f A~\x7f\xff\u0100\u0fff\u1000\uffff\U00010000\U000fffff\U00100000\U0010ffff')
    reach_by_char = {c: S.reach(env={cvar: c}, must_decide=[cvar], what=' for %r' % c) for c in sorted(boundary)}
    for letter, width, n, operand in fmts:
        if codes.get(letter) == width:
            rule.ok(f.loc(n), 'numeric escape \\%s with %d hex digits matches ESCAPE_CODES' % (letter, width))
        else:
            rule.fail('numeric|%s|%d' % (letter, width), f.module.rel, n.lineno, f.qualname, norm(n)[:60],
                      'the emitter writes \\%s followed by %d hex digits; the scanner expects %s'
                      % (letter, width, codes.get(letter)))
        # the largest code point that can reach this formatting fits into its field
        site = S.nodes_of_stmt(n)
        if not site:
            raise AnalysisError('write_double_quoted: numeric escape \\%s is not a statement of the function' % letter)
        reaching = [c for c in sorted(boundary) if any(x in reach_by_char[c] for x in site)]
        if not reaching:
            raise AnalysisError('write_double_quoted: no character reaches the numeric escape \\%s' % letter)
        bound = max(ord(c) for c in reaching)
        if bound < 16 ** width:
            rule.ok(f.loc(n), 'code points <= %#x fit in %d hex digits' % (bound, width))
        else:
            rule.fail('numeric-bound|%s' % letter, f.module.rel, n.lineno, f.qualname, norm(n)[:60],
                      'code points up to %#x are written with only %d hex digits' % (bound, width))
    # characters written raw must be printable for the reader
    R = repo.cls('reader.Reader')
    npv = R.attrs.get('NON_PRINTABLE')
    if not npv or not isinstance(npv[-1], ast.Call) or not npv[-1].args:
        raise AnalysisError('Reader.NON_PRINTABLE has vanished')
    pat = A.const_str(npv[-1].args[0])
    if pat is None:
        raise AnalysisError('Reader.NON_PRINTABLE is not a literal')
    rx = re.compile(pat)
    # where a character is escaped: the numeric escapes and the look-up in the replacement table
    escape_sites = set()
    for letter, width, n, operand in fmts:
        escape_sites.update(S.nodes_of_stmt(n))
    for n in walk_function(f.node):
        if isinstance(n, ast.Subscript) and isinstance(n.value, ast.Attribute) and n.value.attr == 'ESCAPE_REPLACEMENTS':
            escape_sites.update(S.nodes_of_stmt(n))
    shown = f.node
    for n in preorder_stmts(f.node):
        if isinstance(n, (ast.If, ast.While)) and any(isinstance(x, ast.Attribute) and x.attr == 'allow_unicode' for x in ast.walk(n.test)):
            shown = n
            break
    probes = set()
    for lit in re.findall(r'\\x([0-9A-Fa-f]{2})|\\u([0-9A-Fa-f]{4})|\\U([0-9A-Fa-f]{8})', pat):
        for h in lit:
            if h:
                v = int(h, 16)
                for d in (-1, 0, 1):
                    if 0 <= v + d < 0x110000 and not 0xD800 <= v + d <= 0xDFFF:
                        probes.add(chr(v + d))
    probes.update('\x00\x07\x1f\x20\x7e\x7f\x80\x84\x85\x86\x9f\xa0\xa1\ufeff\ufffd\ufffe\uffff\U00010000\U0010ffff \xe9\u4e00')
    # characters at which the scanner sees a line break inside a quoted scalar (it folds them)
    slb = repo.cls('scanner.Scanner').methods.get('scan_line_break')
    if slb is None:
        raise AnalysisError('Scanner.scan_line_break has vanished')
    breaks = set()
    for n in walk_function(slb.node):
        if isinstance(n, ast.Compare) and len(n.ops) == 1 and isinstance(n.ops[0], (ast.In, ast.Eq)):
            lit = A.const_str(n.comparators[0])
            if lit:
                breaks |= set(lit)
    if not breaks >= set('\r\n'):
        raise AnalysisError('scan_line_break: the set of line-break characters was not found')
    probes |= breaks
    n_raw = 0
    for c in sorted(probes):
        for au in (True, False):
            r = S.reach(env={cvar: c}, table={'self.allow_unicode': au}, must_decide=[cvar], what=' for %r' % c)
            if any(x in r for x in escape_sites):
                continue
            n_raw += 1
            if c in breaks:
                rule.fail('raw-break|%r|%s' % (c, au), f.module.rel, shown.lineno, f.qualname,
                          norm(shown.test)[:80] if shown is not f.node else f.name,
                          'with allow_unicode=%s the line-break character %r is written unescaped inside double quotes: the '
                          'scanner folds it (it becomes a space, or is dropped next to one), so the scalar does not read back '
                          'character for character' % (au, c))
            if not au and ord(c) > 0x7e:
                rule.fail('raw-nonascii|%r' % c, f.module.rel, shown.lineno, f.qualname,
                          norm(shown.test)[:80] if shown is not f.node else f.name,
                          'without allow_unicode the character %r is written unescaped inside double quotes: the output is '
                          'not ASCII although the caller did not allow Unicode' % c)
            if rx.search(c):
                rule.fail('raw-nonprintable|%r|%s' % (c, au), f.module.rel, shown.lineno, f.qualname,
                          norm(shown.test)[:80] if shown is not f.node else f.name,
                          'with allow_unicode=%s the character %r is written unescaped inside double quotes, but the '
                          'reader rejects it as non-printable: the output cannot be loaded' % (au, c))
    if not n_raw:
        raise AnalysisError('write_double_quoted: no probe character is written unescaped (the escape decision is not understood)')
    rule.ok(f.loc(shown), '%d probe characters written raw, all printable' % n_raw)
    rule.instances += n_raw
    return rule


TAG_PAIRS = [
    ('prepare_tag', 'scan_tag_uri', 'tag suffix'),
    ('prepare_tag_prefix', 'scan_tag_uri', 'tag prefix'),
    ('prepare_tag_handle', 'scan_tag_handle', 'tag handle'),
    ('prepare_anchor', 'scan_anchor', 'anchor'),
]


def _char_variables(f):
    """locals that hold one character of the text being processed: assigned from an index subscript, from a peek() call, or
    bound by a `for` loop (the name is whatever the code calls it)."""
    out = set()
    for n in walk_function(f.node):
        if isinstance(n, ast.Assign) and len(n.targets) == 1 and isinstance(n.targets[0], ast.Name):
            v = n.value
            if isinstance(v, ast.Subscript) and not isinstance(v.slice, ast.Slice):
                out.add(n.targets[0].id)
            elif isinstance(v, ast.Call) and isinstance(v.func, ast.Attribute) and v.func.attr == 'peek':
                out.add(n.targets[0].id)
        elif isinstance(n, ast.For):
            # for ch in text / for index, ch in enumerate(text)
            out |= {x.id for x in ast.walk(n.target) if isinstance(x, ast.Name)}
    return out


def _is_char_test(test, var):
    reads = any(isinstance(x, ast.Name) and x.id == var for x in ast.walk(test))
    if not reads:
        return False
    for x in ast.walk(test):
        if isinstance(x, ast.Compare):
            operands = [x.left] + list(x.comparators)
            has_var = any(isinstance(y, ast.Name) and y.id == var for y in operands)
            consts = [y for y in operands if isinstance(y, ast.Constant) and isinstance(y.value, str)]
            # a range test ('0' <= ch <= '9') or membership in a multi-character literal (ch in '-_')
            if has_var and consts and (len(x.ops) == 2 or (isinstance(x.ops[0], (ast.In, ast.NotIn)) and len(consts[0].value) > 1)
                                       or isinstance(x.ops[0], (ast.Lt, ast.LtE, ast.Gt, ast.GtE))):
                return True
        if isinstance(x, ast.Call) and isinstance(x.func, ast.Attribute) and x.func.attr.startswith('is') \
                and isinstance(x.func.value, ast.Name) and x.func.value.id == var:
            return True
    return False


def _rejects(stmts):
    """does this branch reject / escape the character (raise, %-escape, encode) or stop consuming (break) rather than pass
    it through?"""
    for s in stmts:
        for x in ast.walk(s):
            if isinstance(x, (ast.Raise, ast.Break)):
                return True
            segs = format_segments(x) if isinstance(x, (ast.BinOp, ast.JoinedStr, ast.Call)) else None
            if segs and any(k[0] == 'lit' and k[1].endswith('%') for k in segs) and any(k[0] == 'fmt' for k in segs):
                return True
            if isinstance(x, ast.Call) and isinstance(x.func, ast.Attribute) and x.func.attr == 'encode':
                return True
    return False


def _string_values(flow, at, name, depth=0):
    """the set of string constants the local `name` can hold on entry to CFG node `at`, when every definition that reaches
    it is a literal, a literal appended to the previous value (`x += 'c'`, `x = x + 'c'`) or a choice between literals;
    None otherwise."""
    if depth > 6:
        return None
    defs = flow.IN.get(at, {}).get(name)
    if not defs or Flow.ENTRY in defs:
        return None
    out = set()
    for d in defs:
        a = d.ast
        if isinstance(a, ast.Assign) and len(a.targets) == 1 and isinstance(a.targets[0], ast.Name):
            v = a.value
            if isinstance(v, ast.Constant) and isinstance(v.value, str):
                out.add(v.value)
                continue
            if isinstance(v, ast.IfExp) and all(isinstance(b, ast.Constant) and isinstance(b.value, str) for b in (v.body, v.orelse)):
                out |= {v.body.value, v.orelse.value}
                continue
            if isinstance(v, ast.BinOp) and isinstance(v.op, ast.Add) and isinstance(v.left, ast.Name) and v.left.id == name \
                    and isinstance(v.right, ast.Constant) and isinstance(v.right.value, str):
                prev = _string_values(flow, d, name, depth + 1)
                if prev is None:
                    return None
                out |= {p + v.right.value for p in prev}
                continue
            return None
        if isinstance(a, ast.AugAssign) and isinstance(a.op, ast.Add) and isinstance(a.value, ast.Constant) \
                and isinstance(a.value.value, str):
            prev = _string_values(flow, d, name, depth + 1)
            if prev is None:
                return None
            out |= {p + a.value.value for p in prev}
            continue
        return None
    return out or None


def _block_exits(stmts):
    return bool(stmts) and isinstance(stmts[-1], (ast.Continue, ast.Break, ast.Return, ast.Raise))


def _following(stmt):
    """the statements after `stmt` in its block."""
    par = getattr(stmt, '_parent', None)
    for fld in ('body', 'orelse', 'finalbody'):
        blk = getattr(par, fld, None)
        if isinstance(blk, list) and any(x is stmt for x in blk):
            i = [k for k, x in enumerate(blk) if x is stmt][0]
            return blk[i + 1:]
    return []


class CharClass:
    """the set of characters a prepare_* / scan_* function lets through, as a predicate evaluated on the function's own
    condition (whatever its spelling or the name of its character variable).  The condition is the first test *in program
    order* that classifies the current character by a range / set / str predicate: the scanning loop of a scanner, the
    pass-or-escape decision of a preparer.  (A later test of the character that *follows* the token - scan_anchor checks its
    terminator - is not the class of the token's characters.)"""

    def __init__(self, repo, f):
        self.repo, self.f = repo, f
        vars_ = _char_variables(f)
        nodes = [n for n in preorder_stmts(f.node) if isinstance(n, (ast.If, ast.While))]
        cfg = CFG(f.node)
        flow = Flow(cfg, f.params)
        self.node = None
        for n in nodes:
            # the test as written, with a hoisted condition (`valid = '0' <= ch <= '9' or ...; if not valid:`) put back
            at = cfg.entry_of(n)
            test = flow.deref(at, n.test) if at is not None else n.test
            for v in sorted(vars_):
                if _is_char_test(test, v):
                    self.node, self.var, self.test = n, v, test
                    break
            if self.node is not None:
                break
        if self.node is None:
            raise AnalysisError('%s: no condition on the current character found' % f.qualname)
        n = self.node
        body, orelse = n.body, n.orelse
        if isinstance(n, ast.If) and not orelse and _block_exits(body):
            # `if c: ...; continue` followed by the other case: what follows in the block is the else branch
            orelse = _following(n)
        if isinstance(n, ast.While):
            self.pass_when = True
        elif _rejects(body) and not _rejects(orelse):
            self.pass_when = False
        elif _rejects(orelse) and not _rejects(body):
            self.pass_when = True
        else:
            raise AnalysisError('%s: cannot tell which branch of the character test passes the character through' % f.qualname)
        self.text = norm(self.test)
        # locals in the test (other than the character) whose every reaching definition is a string literal: the test is
        # evaluated for each of their values
        self.alts = {}
        at = cfg.entry_of(n)
        if at is not None:
            for x in ast.walk(self.test):
                if isinstance(x, ast.Name) and x.id != self.var and x.id not in self.alts:
                    vals = _string_values(flow, at, x.id)
                    if vals:
                        self.alts[x.id] = sorted(vals)

    def passes(self, c):
        """True / False / None (depends on something else than the character)."""
        import itertools
        names = sorted(self.alts)
        seen = set()
        for combo in itertools.product(*[self.alts[k] for k in names]):
            env = {self.var: c}
            env.update(dict(zip(names, combo)))
            seen.add(CW.eval_cond(self.repo, self.test, env))
        if len(seen) != 1:
            return None
        v = seen.pop()
        if v is None:
            return None
        return v if self.pass_when else (not v)


def r_tagchar_inclusion(ctx, repo):
    rule = ctx.rule('R-TAGCHAR-INCLUSION', 'every character the emitter writes unescaped in a tag suffix / tag prefix / tag handle / '
                                           'anchor is a character the scanner accepts there')
    E = repo.cls('emitter.Emitter')
    S = repo.cls('scanner.Scanner')
    probes = sorted(set(CW.representative_chars(repo, 'scanner')) | set(CW.representative_chars(repo, 'emitter'))
                    | set('é一Ａ５²ǅ\xaa\xb5\U0001F600'))
    for en, sn, what in TAG_PAIRS:
        ef, sf = E.methods.get(en), S.methods.get(sn)
        if ef is None or sf is None:
            raise AnalysisError('%s / %s have vanished' % (en, sn))
        ec, sc = CharClass(repo, ef), CharClass(repo, sf)
        bad = []
        n_raw = 0
        for c in probes:
            raw = ec.passes(c)
            if raw is False:
                continue
            n_raw += 1
            acc = sc.passes(c)
            if acc is not True:
                bad.append(c)
        if not n_raw:
            raise AnalysisError('%s: no probe character is written unescaped (the character test is not understood)' % en)
        if bad:
            rule.fail('%s|%s|%s' % (en, sn, ''.join(bad[:8])), ef.module.rel, ec.node.lineno, ef.qualname, ec.text[:90],
                      '%s writes %s unescaped in a %s, but %s does not accept %s there: the emitted text does not parse back'
                      % (en, ', '.join(repr(c) for c in bad[:6]), what, sn, 'them' if len(bad) > 1 else 'it'))
        else:
            rule.ok(ef.loc(ec.node), '%s raw characters are all accepted by %s (%d probes)' % (en, sn, len(probes)))
    return rule


def _is_write_call(c):
    """a call that puts text on the output: self.write_*(...) or self.stream.write(...)."""
    return isinstance(c, ast.Call) and isinstance(c.func, ast.Attribute) and (
        (norm(c.func.value) == 'self' and c.func.attr.startswith('write')) or norm(c.func) == 'self.stream.write')


def r_plain_implies_implicit(ctx, repo):
    rule = ctx.rule('R-PLAIN-IMPLIES-IMPLICIT', 'the plain style is chosen only when the event says the tag is implied for plain scalars, '
                                                'and a scalar\'s tag is elided only under implicit[0] (plain) / implicit[1] (non-plain)')
    E = repo.cls('emitter.Emitter')
    f = E.methods.get('choose_scalar_style')
    if f is None:
        raise AnalysisError('Emitter.choose_scalar_style has vanished')
    S = Scenario(repo, f)
    plain_rets = [n for n in S.cfg.nodes if n.kind == 'return' and A.const_str(n.ast.value) == '']
    if not plain_rets:
        raise AnalysisError('choose_scalar_style: no `return \'\'`')
    # scenario: the event does not declare the tag implicit for plain scalars; the plain style must then be unreachable
    r_no = S.reach(table={'self.event.implicit[0]': False})
    r_yes = S.reach(table={'self.event.implicit[0]': True})
    if not any(pr in r_yes for pr in plain_rets):
        raise AnalysisError('choose_scalar_style: the plain style is not reachable even with implicit[0] set')
    for pr in plain_rets:
        if pr not in r_no:
            rule.ok(f.loc(pr.ast), 'return \'\' only under self.event.implicit[0]')
        else:
            rule.fail('%s|plain' % f.qualname, f.module.rel, pr.lineno, f.qualname, "return ''",
                      'the plain style can be chosen for a scalar whose tag is not implied for plain scalars: the text is '
                      're-resolved on load and comes back with another type')
    g = E.methods.get('process_tag')
    if g is None:
        raise AnalysisError('Emitter.process_tag has vanished')
    # the tag is elided when process_tag completes normally without having written anything.  For a scalar event this is
    # allowed only when (plain and implicit[0]) or (non-plain and implicit[1]): explored over all eight scenarios.
    G = Scenario(repo, g)
    writes = [n for n in G.cfg.nodes if n.ast is not None and any(_is_write_call(x) for x in own_exprs(n))]
    if not writes:
        raise AnalysisError('process_tag: the tag is never written')
    scalar = repo.cls('events.ScalarEvent')
    scalar_names = {k.name for k in scalar.mro_classes()}

    def hook(e):
        inner, pos = A.strip_not(e)
        if isinstance(inner, ast.Call) and norm(inner.func) == 'isinstance' and len(inner.args) == 2 \
                and norm(inner.args[0]) == 'self.event':
            classes = {x.id for x in ast.walk(inner.args[1]) if isinstance(x, ast.Name)} | \
                      {x.attr for x in ast.walk(inner.args[1]) if isinstance(x, ast.Attribute)}
            v = bool(classes & scalar_names)
            return v if pos else (not v)
        return None
    bad = None
    elided = 0
    for plain, i0, i1 in itertools.product([True, False], repeat=3):
        table = {'self.style': '' if plain else '"', 'self.event.implicit[0]': i0, 'self.event.implicit[1]': i1,
                 'self.event.implicit': (i0, i1), 'self.prepared_tag': '!prepared'}
        r = G.reach(table=table, blocked=writes, hook=hook)
        if any(x in r for x in G.cfg.normal_exits()):
            elided += 1
            if not ((plain and i0) or ((not plain) and i1)):
                bad = {"self.style == ''": plain, 'self.event.implicit[0]': i0, 'self.event.implicit[1]': i1}
    if not elided:
        raise AnalysisError('process_tag: the tag-elision condition was not found')
    first = g.node
    for n in preorder_stmts(g.node):
        if isinstance(n, ast.If) and any(isinstance(x, ast.Attribute) and x.attr == 'implicit' for x in ast.walk(n.test)):
            first = n
            break
    if bad is None:
        rule.ok(g.loc(first), 'tag elided only when (plain and implicit[0]) or (non-plain and implicit[1])')
    else:
        rule.fail('%s|elide' % g.qualname, g.module.rel, first.lineno, g.qualname,
                  norm(first.test)[:100] if first is not g.node else g.name,
                  'the tag of a scalar can be elided although the event does not declare it implicit for the chosen style '
                  '(e.g. %s): the loader resolves a different tag' % bad)
    return rule


def membership_literal(node):
    """the characters of the right-hand side of `x in <literal>`: a string, or a display of one-character strings."""
    s = A.const_str(node)
    if s is not None:
        return s
    if isinstance(node, (ast.Tuple, ast.List, ast.Set)) and node.elts:
        parts = [A.const_str(e) for e in node.elts]
        if all(p is not None and len(p) == 1 for p in parts):
            return ''.join(parts)
    return None


def r_breakset_agreement(ctx, repo, modules, rule_id='R-BREAKSET-AGREEMENT', exceptions=()):
    """every membership literal that contains '\\n' contains the whole line-break set (or is a listed split)."""
    rule = ctx.rule(rule_id, 'every membership-test literal in %s that contains a line break contains the whole break set '
                             '{LF, NEL, LS, PS}' % ','.join(modules))
    n = 0
    for f in repo.all_functions(list(modules)):
        for c in walk_function(f.node):
            if isinstance(c, ast.Compare) and len(c.ops) == 1 and isinstance(c.ops[0], (ast.In, ast.NotIn)):
                lit = membership_literal(c.comparators[0])
                if lit is None or not (set(lit) & BREAKS):
                    continue
                if len(lit) > 40:
                    continue
                n += 1
                missing = BREAKS - set(lit)
                if not missing:
                    rule.ok(f.loc(c), '%r in %s' % (lit, f.name))
                elif (f.name, ''.join(sorted(set(lit) & (BREAKS | {'\r'})))) in exceptions:
                    rule.ok(f.loc(c), '%r in %s (listed split of the break set)' % (lit, f.name))
                else:
                    rule.fail('%s|%r' % (f.qualname, lit), f.module.rel, c.lineno, f.qualname, norm(c)[:80],
                              'the literal %r tests for line breaks but lacks %s: text containing that break character is '
                              'classified differently here than everywhere else' % (lit, ', '.join(repr(x) for x in sorted(missing))))
    rule.require_min(10, 'break-set literals')
    return rule


def _path_condition(node, stop):
    """conjunction (list of (test expr, polarity)) of the enclosing if-tests between `node` and `stop`."""
    conds = []
    p = node
    while p is not None and p is not stop:
        par = getattr(p, '_parent', None)
        if isinstance(par, ast.If):
            if p in par.body:
                conds.append((par.test, True))
            elif p in par.orelse:
                conds.append((par.test, False))
        p = par
    return conds


def _directive_kind(s):
    """'YAML' / 'TAG' when the string constant is the template of a directive line."""
    if not isinstance(s, str):
        return None
    t = s.replace('%%', '%')
    for k in ('YAML', 'TAG'):
        if t.startswith('%' + k):
            return k
    return None


def _method_directive_kinds(K, name, depth=2, _seen=None):
    """the directive kinds a method of the emitter writes (itself or through methods it calls)."""
    _seen = _seen if _seen is not None else set()
    g = K.methods.get(name)
    if g is None or name in _seen:
        return set()
    _seen.add(name)
    out = set()
    for x in walk_function(g.node):
        if isinstance(x, ast.Constant) and _directive_kind(x.value):
            out.add(_directive_kind(x.value))
        elif depth > 0 and isinstance(x, ast.Call) and isinstance(x.func, ast.Attribute) and norm(x.func.value) == 'self':
            out |= _method_directive_kinds(K, x.func.attr, depth - 1, _seen)
    return out


def r_directive_after_open_ended(ctx, repo):
    """C05/C15: a %YAML / %TAG directive line is only written after an open-ended document has been closed with '...'."""
    rule = ctx.rule('R-DIRECTIVE-AFTER-OPEN-ENDED', 'in expect_document_start, whenever a %YAML or %TAG directive is written while the '
                                                    'previous document is open-ended, the "..." terminator has been written first '
                                                    '(explored on the control-flow graph over all truth assignments of the conditions '
                                                    'that are tested more than once)')
    E = repo.cls('emitter.Emitter')
    f = E.methods.get('expect_document_start')
    if f is None:
        raise AnalysisError('Emitter.expect_document_start has vanished')
    S = Scenario(repo, f)
    cfg = S.cfg
    # where "..." is written, where a directive line is written (directly, or by a method that does)
    dots, sites = [], {}
    memo = {}
    for n in cfg.nodes:
        if n.ast is None:
            continue
        for x in own_exprs(n):
            if isinstance(x, ast.Constant) and x.value == '...':
                dots.append(n)
            if isinstance(x, ast.Constant) and _directive_kind(x.value):
                sites.setdefault(_directive_kind(x.value), []).append(n)
            if isinstance(x, ast.Call) and isinstance(x.func, ast.Attribute) and norm(x.func.value) == 'self':
                if x.func.attr not in memo:
                    memo[x.func.attr] = _method_directive_kinds(E, x.func.attr)
                if len(memo[x.func.attr]) == 1:
                    sites.setdefault(next(iter(memo[x.func.attr])), []).append(n)
    if not dots or set(sites) != {'YAML', 'TAG'}:
        raise AnalysisError('expect_document_start: "..." indicator / directive writes not found')
    # conditions over the emitter / event state (no calls, no locals that the function assigns) keep their value for
    # the duration of the handler; those tested more than once correlate the branches and are enumerated
    assigned = {nm for n in cfg.nodes for nm in Flow.bound_names(n)}
    count = {}

    def atoms_of(e, out):
        if isinstance(e, ast.BoolOp):
            for v in e.values:
                atoms_of(v, out)
        elif isinstance(e, ast.UnaryOp) and isinstance(e.op, ast.Not):
            atoms_of(e.operand, out)
        else:
            out.append(e)
        return out
    for n in cfg.nodes:
        if n.kind != 'test' or n.ast is None:
            continue
        for e in atoms_of(S.resolved(n), []):
            if any(isinstance(x, ast.Call) for x in ast.walk(e)):
                continue
            if any(isinstance(x, ast.Name) and x.id in assigned for x in ast.walk(e)):
                continue
            count[norm(e)] = count.get(norm(e), 0) + 1
    open_atoms = [k for k in count if k == 'self.open_ended']
    if not open_atoms:
        raise AnalysisError('expect_document_start: self.open_ended is never tested')
    atoms = sorted(k for k, c in count.items() if c > 1 or k == 'self.open_ended')
    if len(atoms) > 12:
        raise AnalysisError('expect_document_start: too many correlated conditions (%d)' % len(atoms))
    for kind in ('YAML', 'TAG'):
        witness = None
        for bits in itertools.product([True, False], repeat=len(atoms)):
            asg = dict(zip(atoms, bits))
            if not asg['self.open_ended']:
                continue

            def hook(e, asg=asg):
                return A.eval3(e, lambda a: asg.get(norm(a)))
            r = S.reach(blocked=dots, hook=hook)
            if any(w in r for w in sites[kind]):
                witness = asg
                break
        w = sites[kind][0]
        if witness is None:
            rule.ok(f.loc(w.stmt), 'the %%%s directive implies the "..." terminator when open-ended' % kind)
        else:
            rule.fail('%s|%s' % (f.qualname, kind), f.module.rel, w.lineno, f.qualname, norm(w.ast)[:70],
                      'a directive line can be written after an open-ended document without the "..." terminator (e.g. when %s): '
                      'the directive is read back as a continuation of the previous document\'s scalar'
                      % (', '.join('%s=%s' % (k, v) for k, v in sorted(witness.items()))))
    return rule


def r_tag_suffix_nonempty(ctx, repo):
    rule = ctx.rule('R-TAG-SUFFIX-NONEMPTY', 'prepare_tag replaces a prefix by its handle only when a non-empty suffix remains (or the '
                                             'handle is the primary "!"): the scanner rejects a handle with an empty URI')
    E = repo.cls('emitter.Emitter')
    f = E.methods.get('prepare_tag')
    if f is None:
        raise AnalysisError('Emitter.prepare_tag has vanished')
    if len(f.params) < 2:
        raise AnalysisError('prepare_tag: expected (self, tag)')
    tagp = f.params[1]
    S = Scenario(repo, f)
    n = 0
    for st in walk_function(f.node):
        # suffix = tag[len(prefix):]  (or tag.removeprefix(prefix)) - the statement that strips a registered prefix
        if not isinstance(st, ast.Assign):
            continue
        at = S.cfg.nodes_of(st)
        val = S.flow.deref(at[0], st.value) if at else st.value        # `n = len(prefix); ... tag[n:]` reads as tag[len(prefix):]
        p = None
        if isinstance(val, ast.Subscript) and isinstance(val.slice, ast.Slice) \
                and isinstance(val.value, ast.Name) and val.value.id == tagp \
                and val.slice.lower is not None and val.slice.upper is None \
                and isinstance(val.slice.lower, ast.Call) and norm(val.slice.lower.func) == 'len' \
                and len(val.slice.lower.args) == 1 and isinstance(val.slice.lower.args[0], ast.Name):
            p = val.slice.lower.args[0].id
        elif isinstance(val, ast.Call) and isinstance(val.func, ast.Attribute) and val.func.attr == 'removeprefix' \
                and isinstance(val.func.value, ast.Name) and val.func.value.id == tagp and len(val.args) == 1 \
                and isinstance(val.args[0], ast.Name):
            p = val.args[0].id
        if p is not None:
            n += 1
            nodes = S.cfg.nodes_of(st)
            # scenario: the tag *equals* a registered prefix other than '!': stripping it would leave nothing
            bad = None
            for probe in ('tag:yaml.org,2002:', '!e!', 'x'):
                r = S.reach(env={p: probe, tagp: probe}, must_decide=[p, tagp], what=' for tag == prefix == %r' % probe)
                if any(x in r for x in nodes):
                    bad = probe
                    break
            ctl = S.reach(env={p: '!e!', tagp: '!e!suffix'})
            if not any(x in ctl for x in nodes):
                raise AnalysisError('prepare_tag: the prefix is not stripped even when a suffix remains')
            if bad is None:
                rule.ok(f.loc(st), 'the prefix is stripped only when a suffix remains or the prefix is \'!\'')
            else:
                rule.fail('%s|suffix' % f.qualname, f.module.rel, st.lineno, f.qualname, norm(st),
                          'a tag that equals one of the registered prefixes is shortened to the bare handle with an empty suffix: '
                          'both parsers reject the emitted text ("expected URI")')
    rule.require_min(1, 'prefix-stripping slices')
    return rule
