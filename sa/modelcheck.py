"""Thorough tier only: cross-validate the analyser's *model of Python* against introspection (DESIGN 6).

This never decides a property.  It imports the working tree's `yaml` package in a subprocess and compares three model facts
with what the static analyser derived from the source text:

  * the C3 linearisation of every class in loader.py / dumper.py / cyaml.py,
  * the key sets of the six class-level registries as seen from each of those classes (static folding of the module-level
    registrations through the derived copy-on-write summaries vs. the real import),
  * the pattern text of every implicit-resolver regex and the `first` index it is filed under.

A disagreement means the analyser's model is wrong for this tree -> AnalysisError (exit 2).  It can never produce a
VIOLATION and never turns a VIOLATION into a pass.  If the package cannot be imported (e.g. no interpreter, broken tree) the
cross-validation is recorded as skipped in the evidence.
"""
import json
import os
import subprocess
import sys

from .srcmodel import AnalysisError, ClassInfo

PROBE = r'''
import json, sys
import yaml
from yaml import loader, dumper, resolver
mods = [loader, dumper]
try:
    from yaml import cyaml
    mods.append(cyaml)
except ImportError:
    cyaml = None
REGS = ['yaml_constructors', 'yaml_multi_constructors', 'yaml_representers', 'yaml_multi_representers',
        'yaml_implicit_resolvers', 'yaml_path_resolvers']
def tname(k):
    if k is None: return None
    if isinstance(k, type): return 'type:' + k.__name__
    return k
out = {'classes': {}}
for m in mods:
    for name in getattr(m, '__all__', []):
        c = getattr(m, name)
        if not isinstance(c, type):
            continue
        rec = {'mro': [k.__module__.split('.')[-1] + '.' + k.__name__ for k in c.__mro__ if k is not object], 'regs': {}}
        for r in REGS:
            t = getattr(c, r, None)
            if t is None:
                continue
            if r == 'yaml_implicit_resolvers':
                rec['regs'][r] = sorted(((repr(k), [(tag, rx.pattern) for tag, rx in v]) for k, v in t.items()))
            else:
                rec['regs'][r] = sorted(repr(tname(k)) for k in t)
        out['classes'][m.__name__.split('.')[-1] + '.' + name] = rec
json.dump(out, sys.stdout)
'''


def _static_type_name(k):
    """keys of the representer tables are resolved references to classes/builtins in the static model."""
    if k is None:
        return None
    if isinstance(k, str):
        return k
    return k


def cross_validate(ctx, repo):
    env = dict(os.environ, PYTHONPATH=os.path.join(repo.root, 'lib'))
    try:
        p = subprocess.run([sys.executable, '-c', PROBE], capture_output=True, text=True, timeout=120, env=env,
                           cwd=os.path.join(repo.root, 'lib'))
    except (OSError, subprocess.SubprocessError) as e:
        ctx.extra['model_cross_validation'] = 'skipped: %s' % e
        return
    if p.returncode != 0:
        ctx.extra['model_cross_validation'] = 'skipped: the working tree does not import (%s)' % p.stderr.strip().split('\n')[-1][:200]
        return
    real = json.loads(p.stdout)
    from . import rules_registry as RR
    rm = RR.model(repo)
    compared = {'mro': 0, 'registry_tables': 0, 'regex_entries': 0}
    problems = []
    for qn, rec in sorted(real['classes'].items()):
        try:
            c = repo.cls(qn)
        except AnalysisError:
            problems.append('class %s exists at run time but not in the static class table' % qn)
            continue
        static_mro = [k.qualname if isinstance(k, ClassInfo) else str(k) for k in c.mro]
        static_mro = [x for x in static_mro if x not in ('object', 'builtins.object')]
        real_mro = rec['mro']
        if [x.split('.')[-1] for x in static_mro] != [x.split('.')[-1] for x in real_mro]:
            problems.append('MRO of %s: static %s, real %s' % (qn, static_mro, real_mro))
        compared['mro'] += 1
        for reg, keys in rec['regs'].items():
            if reg not in rm.regs:
                continue
            tbl = rm.heap.table(c, reg)
            if reg == 'yaml_implicit_resolvers':
                skeys = sorted(repr(k) for k in tbl)
                rkeys = sorted(k for k, v in keys)
                if skeys != rkeys:
                    problems.append('%s.%s: static first-index %s, real %s' % (qn, reg, skeys, rkeys))
                compared['regex_entries'] += sum(len(v) for k, v in keys)
                # pattern text per key
                sidx = {}
                for k, lst in tbl.items():
                    for v in lst:
                        sidx.setdefault(repr(k), []).append(v)
                for k, lst in keys:
                    if len(sidx.get(k, [])) != len(lst):
                        problems.append('%s.%s[%s]: static %d entries, real %d' % (qn, reg, k, len(sidx.get(k, [])), len(lst)))
            else:
                if reg in ('yaml_representers', 'yaml_multi_representers'):
                    # static keys are source expressions; compare counts and the None key
                    if len(tbl) != len(keys) or ((None in tbl or 'None' in tbl) != ('None' in keys)):
                        problems.append('%s.%s: static %d keys, real %d' % (qn, reg, len(tbl), len(keys)))
                else:
                    skeys = sorted(repr(k) for k in tbl)
                    if skeys != keys:
                        problems.append('%s.%s: static-only %s, real-only %s' % (
                            qn, reg, sorted(set(skeys) - set(keys)), sorted(set(keys) - set(skeys))))
            compared['registry_tables'] += 1
    ctx.extra['model_cross_validation'] = compared
    ctx.trust('thorough tier: static MRO / registry folding cross-validated against introspection of the imported working '
              'tree (%d MROs, %d tables); guards the analyser, decides nothing' % (compared['mro'], compared['registry_tables']))
    if problems:
        raise AnalysisError('model-mismatch: the analyser\'s model of this tree disagrees with introspection: ' + '; '.join(problems[:5]))
