"""Scratch-copy self-test of the checkers (DESIGN 6, Appendix B).

For every variant: copy the analysed sources of /repo to a scratch directory outside /repo and
/verif, apply one edit, run the named checks with SA_REPO pointing at the copy, and compare
the exit code with the expectation (breaking variant -> 1 and the report names the
instance; neutral variant -> 0).  Not part of quick/thorough commands.

    python -m sa.selftest [-k substring] [-j N] [--list]
"""
import concurrent.futures
import json
import os
import shutil
import subprocess
import sys
import tempfile

VERIF = os.path.dirname(os.path.dirname(os.path.abspath(__file__)))
REPO = os.environ.get('SA_REPO', '/repo')
PY = sys.executable

FILES = ['lib/yaml', 'yaml/_yaml.pyx', 'yaml/_yaml.pxd']


def make_copy(dst):
    for rel in FILES:
        src = os.path.join(REPO, rel)
        out = os.path.join(dst, rel)
        os.makedirs(os.path.dirname(out), exist_ok=True)
        if os.path.isdir(src):
            shutil.copytree(src, out, ignore=shutil.ignore_patterns('*.so', '__pycache__'))
        else:
            shutil.copy(src, out)


def apply_edits(root, edits):
    for rel, old, new in edits:
        p = os.path.join(root, rel)
        with open(p, encoding='utf-8') as f:
            s = f.read()
        if old is None:
            s = s + new
        else:
            n = s.count(old)
            if n != 1:
                raise RuntimeError('edit anchor occurs %d times in %s: %r' % (n, rel, old[:60]))
            s = s.replace(old, new)
        with open(p, 'w', encoding='utf-8') as f:
            f.write(s)


def run_variant(v):
    tmp = tempfile.mkdtemp(prefix='sa-selftest-')
    try:
        make_copy(tmp)
        try:
            apply_edits(tmp, v['edits'])
        except RuntimeError as e:
            return v, [('setup', 99, str(e))]
        results = []
        env = dict(os.environ, SA_REPO=tmp, SA_NO_EVIDENCE='1')
        for prop in v['checks']:
            p = subprocess.run([PY, '-m', 'checks.' + prop.lower()], cwd=VERIF, env=env,
                               capture_output=True, text=True, timeout=600)
            results.append((prop, p.returncode, p.stdout + p.stderr[-2000:]))
        return v, results
    finally:
        shutil.rmtree(tmp, ignore_errors=True)


def load_variants():
    from . import selftest_variants
    return selftest_variants.VARIANTS


def main(argv):
    pat = None
    jobs = 16
    verbose = False
    it = iter(argv)
    for a in it:
        if a == '-k':
            pat = next(it)
        elif a == '-j':
            jobs = int(next(it))
        elif a == '-v':
            verbose = True
        elif a == '--list':
            for v in load_variants():
                print(v['name'], v['expect'], v['checks'])
            return 0
    variants = [v for v in load_variants() if pat is None or pat in v['name']]
    bad = 0
    with concurrent.futures.ThreadPoolExecutor(max_workers=jobs) as ex:
        for v, results in ex.map(run_variant, variants):
            for prop, code, out in results:
                want = 1 if v['expect'] == 'fire' else 0
                ok = (code == want)
                if want == 1 and ('VIOLATION property=%s' % prop) not in out:
                    ok = False
                if ok and want == 1 and v.get('mention'):
                    ok = v['mention'] in out
                print('%-4s %-7s %-5s %s%s' % ('ok' if ok else 'FAIL', v['expect'], prop, v['name'],
                                              '' if ok else '   (exit %s)' % code))
                if not ok or verbose:
                    if not ok:
                        bad += 1
                    print('      ' + out.strip().replace('\n', '\n      ')[-1500:])
    print('%d variants, %d failures' % (len(variants), bad))
    return 1 if bad else 0


if __name__ == '__main__':
    sys.exit(main(sys.argv[1:]))
