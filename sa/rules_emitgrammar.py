"""R-EMITTER-GRAMMAR: the emitter's state machine (including its look-ahead queue) accepts exactly the well-formed event streams.

The control part of `Emitter` - `emit`, `need_more_events`, `need_events`, the `expect_*` states and the `check_empty_*`
predicates, i.e. every method that mentions `self.state`, `self.states` or `self.events` - is abstractly interpreted over
*event kinds*: an event is represented by its class, the queue by a tuple of classes, integers and booleans are concrete,
everything that depends on event payloads or on the output position is undetermined (both branches), every other method
(writers, process_*, prepare_*) is opaque.  For every sequence of event kinds up to a bounded length that ends with
StreamEndEvent the model says whether some `emit` call raises EmitterError.  That set is compared in both directions with the
event grammar documented at the top of emitter.py:

    stream ::= STREAM-START document* STREAM-END        document ::= DOCUMENT-START node DOCUMENT-END
    node ::= SCALAR | ALIAS | sequence | mapping          sequence ::= SEQUENCE-START node* SEQUENCE-END
    mapping ::= MAPPING-START (node node)* MAPPING-END

  accepted but not derivable -> an ill-formed stream is written out (or silently left unprocessed) instead of EmitterError
  derivable but rejected     -> a well-formed stream cannot be emitted
"""
import ast

from .srcmodel import AnalysisError, FuncInfo, norm

KINDS = ['StreamStartEvent', 'StreamEndEvent', 'DocumentStartEvent', 'DocumentEndEvent', 'AliasEvent', 'ScalarEvent',
         'SequenceStartEvent', 'SequenceEndEvent', 'MappingStartEvent', 'MappingEndEvent']
SHORT = {'StreamStartEvent': 'STREAM-START', 'StreamEndEvent': 'STREAM-END', 'DocumentStartEvent': 'DOCUMENT-START',
         'DocumentEndEvent': 'DOCUMENT-END', 'AliasEvent': 'ALIAS', 'ScalarEvent': 'SCALAR', 'SequenceStartEvent': 'SEQUENCE-START',
         'SequenceEndEvent': 'SEQUENCE-END', 'MappingStartEvent': 'MAPPING-START', 'MappingEndEvent': 'MAPPING-END'}
GRAMMAR = {
    'stream': [[('StreamStartEvent', '1'), ('document', '*'), ('StreamEndEvent', '1')]],
    'document': [[('DocumentStartEvent', '1'), ('node', '1'), ('DocumentEndEvent', '1')]],
    'node': [[('ScalarEvent', '1')], [('AliasEvent', '1')], [('sequence', '1')], [('mapping', '1')]],
    'sequence': [[('SequenceStartEvent', '1'), ('node', '*'), ('SequenceEndEvent', '1')]],
    'mapping': [[('MappingStartEvent', '1'), ('pair', '*'), ('MappingEndEvent', '1')]],
    'pair': [[('node', '1'), ('node', '1')]],
}


class U:
    def __repr__(self):
        return 'UNKNOWN'


UNKNOWN = U()


class Ev:
    """an event object, known only by its class."""
    __slots__ = ('kind',)

    def __init__(self, kind):
        self.kind = kind

    def __eq__(self, o):
        return isinstance(o, Ev) and o.kind == self.kind

    def __hash__(self):
        return hash(('ev', self.kind))

    def __repr__(self):
        return self.kind


class Raised(Exception):
    pass


class Budget(Exception):
    pass


class Cfg:
    __slots__ = ('queue', 'cur', 'state', 'stack', 'last')

    def __init__(self, queue, cur, state, stack, last=None):
        self.queue, self.cur, self.state, self.stack, self.last = queue, cur, state, stack, last

    def key(self):
        return (self.queue, self.cur, self.state, self.stack, self.last)

    def with_(self, **kw):
        d = {'queue': self.queue, 'cur': self.cur, 'state': self.state, 'stack': self.stack, 'last': self.last}
        d.update(kw)
        return Cfg(**d)


# what the writers put on the output, as far as the structure of the text is concerned: the last structural indicator
# written (or 'x' for node content, 'dir' for a directive line) is part of the configuration, and these successions must
# never occur
CONTENT_WRITERS = {'process_scalar': 'x', 'write_version_directive': 'dir', 'write_tag_directive': 'dir'}
FORBIDDEN_SUCCESSION = {
    ('[', ','): 'a "," directly after "[" (an empty flow sequence written as "[,]")',
    ('{', ','): 'a "," directly after "{" (an empty flow mapping written as "{,}")',
    (',', ','): 'two "," in a row',
}
NODE_STARTS = ('x', '[', '{', '-', '?', '&', '*', '!')


class EmitterModel:
    def __init__(self, repo, cls, budget=80000000):
        self.repo = repo
        self.cls = cls
        self.budget = budget
        self.methods = {}
        for k in cls.mro_classes():
            for name, f in k.methods.items():
                self.methods.setdefault(name, f)
        self.control = set()
        for name, f in self.methods.items():
            for n in ast.walk(f.node):
                if isinstance(n, ast.Attribute) and n.attr in ('state', 'states', 'events') and isinstance(n.value, ast.Name) \
                        and f.params and n.value.id == f.params[0]:
                    self.control.add(name)
                    break
        # closure: a method that calls a control method is part of the control too (expect_node, check_simple_key)
        changed = True
        while changed:
            changed = False
            for name, f in self.methods.items():
                if name in self.control:
                    continue
                for n in ast.walk(f.node):
                    if isinstance(n, ast.Call) and isinstance(n.func, ast.Attribute) and isinstance(n.func.value, ast.Name) \
                            and f.params and n.func.value.id == f.params[0] and n.func.attr in self.control \
                            and n.func.attr not in ('__init__', 'dispose'):
                        self.control.add(name)
                        changed = True
                        break
        if 'emit' not in self.control:
            raise AnalysisError('emitter model: emit is not a control method')
        self.ev_mod = repo.modules.get('events')
        self._sub = {}
        self._emit_memo = {}
        self.successions = {}
        self.attr_errors = {}
        self._ev_attrs = {}
        self._helper_seen = set()

    def tick(self):
        self.budget -= 1
        if self.budget < 0:
            raise Budget()

    def is_subclass(self, kind, cname):
        k = (kind, cname)
        if k not in self._sub:
            a = self.ev_mod.classes.get(kind)
            b = self.ev_mod.classes.get(cname)
            self._sub[k] = bool(a is not None and b is not None and a.is_subclass_of(b))
        return self._sub[k]

    # ------------------------------------------------------------------ attributes of event objects
    def event_attrs(self, kind):
        """names readable on an event of class `kind`: what the __init__ found along the MRO stores on self (following
        super().__init__ / Base.__init__(self, ...) calls), class-level names and methods."""
        if kind in self._ev_attrs:
            return self._ev_attrs[kind]
        out = set(['__class__', '__dict__'])
        k = self.ev_mod.classes.get(kind) if self.ev_mod is not None else None
        if k is None:
            raise AnalysisError('emitter model: event class %s not found' % kind)
        mro = k.mro_classes()
        for b in mro:
            out |= set(b.methods)
            for st in b.node.body:
                if isinstance(st, ast.Assign):
                    out |= {t.id for t in st.targets if isinstance(t, ast.Name)}

        def init_of(i):
            for j in range(i, len(mro)):
                if '__init__' in mro[j].methods:
                    return j
            return None
        i = init_of(0)
        seen = set()
        while i is not None and i not in seen:
            seen.add(i)
            f = mro[i].methods['__init__']
            nxt = None
            for n in ast.walk(f.node):
                if isinstance(n, ast.Attribute) and isinstance(n.ctx, ast.Store) and isinstance(n.value, ast.Name) \
                        and f.params and n.value.id == f.params[0]:
                    out.add(n.attr)
                if isinstance(n, ast.Call) and isinstance(n.func, ast.Attribute) and n.func.attr == '__init__':
                    nxt = init_of(i + 1)
                if isinstance(n, ast.Call) and norm(n.func) in ('setattr', 'self.__dict__.update', 'vars'):
                    raise AnalysisError('emitter model: %s.__init__ stores attributes dynamically' % mro[i].name)
            i = nxt
        self._ev_attrs[kind] = out
        return out

    def scan_helper(self, name, kind):
        """an opaque (non-control) method runs while the current event is of class `kind`: every `self.event.X` it can reach
        with the isinstance tests on self.event decided for that class must name an attribute such an event has."""
        if (name, kind) in self._helper_seen:
            return
        self._helper_seen.add((name, kind))
        f = self.methods[name]
        me = f.params[0] if f.params else 'self'
        aliases = set()
        for n in ast.walk(f.node):
            if isinstance(n, ast.Assign) and len(n.targets) == 1 and isinstance(n.targets[0], ast.Name) \
                    and norm(n.value) == me + '.event':
                aliases.add(n.targets[0].id)
        for n in ast.walk(f.node):
            if isinstance(n, ast.Name) and isinstance(n.ctx, ast.Store) and n.id in aliases:
                # an alias bound to anything else as well is not tracked
                par = [a for a in ast.walk(f.node) if isinstance(a, ast.Assign) and n in a.targets]
                if not par or norm(par[0].value) != me + '.event':
                    aliases.discard(n.id)

        def is_event(x):
            return (isinstance(x, ast.Attribute) and x.attr == 'event' and isinstance(x.value, ast.Name) and x.value.id == me) \
                or (isinstance(x, ast.Name) and x.id in aliases)

        def expr(e):
            """visit e in evaluation order; returns its truth value when the event class decides it, else None."""
            if e is None:
                return None
            if isinstance(e, ast.BoolOp):
                is_and = isinstance(e.op, ast.And)
                unknown = False
                for v in e.values:
                    t = expr(v)
                    if t is None:
                        unknown = True
                    elif t != is_and:
                        return None if unknown else t
                return None if unknown else is_and
            if isinstance(e, ast.UnaryOp) and isinstance(e.op, ast.Not):
                t = expr(e.operand)
                return None if t is None else (not t)
            if isinstance(e, ast.IfExp):
                t = expr(e.test)
                if t is not False:
                    expr(e.body)
                if t is not True:
                    expr(e.orelse)
                return None
            if isinstance(e, ast.Call) and norm(e.func) == 'isinstance' and len(e.args) == 2 and is_event(e.args[0]):
                classes = e.args[1].elts if isinstance(e.args[1], ast.Tuple) else [e.args[1]]
                if all(isinstance(x, ast.Name) for x in classes):
                    return any(kind == x.id or self.is_subclass(kind, x.id) for x in classes)
                return None
            if isinstance(e, ast.Call) and norm(e.func) in ('hasattr', 'getattr') and e.args and is_event(e.args[0]):
                for a in e.args[1:]:
                    expr(a)
                return None
            if isinstance(e, ast.Attribute) and is_event(e.value) and isinstance(e.ctx, ast.Load):
                if e.attr not in self.event_attrs(kind):
                    self.attr_errors.setdefault((e.attr, kind), (e.lineno, name))
                return None
            if isinstance(e, ast.Call) and isinstance(e.func, ast.Attribute) and isinstance(e.func.value, ast.Name) \
                    and e.func.value.id == me and e.func.attr in self.methods and e.func.attr not in self.control:
                for a in list(e.args) + [k.value for k in e.keywords]:
                    expr(a)
                self.scan_helper(e.func.attr, kind)
                return None
            if isinstance(e, (ast.Lambda, ast.GeneratorExp, ast.ListComp, ast.SetComp, ast.DictComp)):
                for ch in ast.walk(e):
                    if ch is not e and isinstance(ch, ast.Attribute) and is_event(ch.value) and isinstance(ch.ctx, ast.Load) \
                            and ch.attr not in self.event_attrs(kind):
                        self.attr_errors.setdefault((ch.attr, kind), (ch.lineno, name))
                return None
            for ch in ast.iter_child_nodes(e):
                if isinstance(ch, ast.expr):
                    expr(ch)
            return None

        def block(stmts):
            """True when control cannot leave the block at its end."""
            for st in stmts:
                if isinstance(st, ast.If):
                    t = expr(st.test)
                    a = block(st.body) if t is not False else True
                    b = block(st.orelse) if t is not True else True
                    if a and b:
                        return True
                    continue
                if isinstance(st, ast.While):
                    t = expr(st.test)
                    if t is not False:
                        block(st.body)
                    block(st.orelse)
                    continue
                if isinstance(st, ast.For):
                    expr(st.iter)
                    block(st.body)
                    block(st.orelse)
                    continue
                if isinstance(st, ast.Try):
                    block(st.body)
                    for h in st.handlers:
                        block(h.body)
                    block(st.orelse)
                    block(st.finalbody)
                    continue
                if isinstance(st, (ast.FunctionDef, ast.ClassDef)):
                    continue
                for ch in ast.iter_child_nodes(st):
                    if isinstance(ch, ast.expr):
                        expr(ch)
                if isinstance(st, (ast.Return, ast.Raise, ast.Break, ast.Continue)):
                    return True
            return False
        block(f.node.body)

    # ------------------------------------------------------------------ expressions -> [(value, cfg)]
    def ev(self, e, c, env):
        self.tick()
        if isinstance(e, ast.Constant):
            return [(e.value, c)]
        if isinstance(e, ast.Name):
            return [(env.get(e.id, UNKNOWN), c)]
        if isinstance(e, ast.Attribute):
            if isinstance(e.value, ast.Name) and e.value.id == 'self':
                if e.attr == 'events':
                    return [(c.queue, c)]
                if e.attr == 'event':
                    return [(c.cur, c)]
                if e.attr == 'state':
                    return [(('state', c.state) if c.state is not None else None, c)]
                if e.attr == 'states':
                    return [(('stack',), c)]
                if e.attr in self.methods:
                    return [(('state', e.attr), c)]
                return [(UNKNOWN, c)]
            out = []
            for v, c2 in self.ev(e.value, c, env):
                if isinstance(v, Ev) and e.attr not in self.event_attrs(v.kind):
                    # AttributeError: the run ends here with an exception that is not an EmitterError
                    self.attr_errors.setdefault((e.attr, v.kind), (e.lineno, None))
                    continue
                out.append((UNKNOWN, c2))
            return out
        if isinstance(e, ast.UnaryOp):
            out = []
            for v, c2 in self.ev(e.operand, c, env):
                if isinstance(e.op, ast.Not):
                    out.append((UNKNOWN if v is UNKNOWN else (not v), c2))
                elif isinstance(e.op, ast.USub) and isinstance(v, int):
                    out.append((-v, c2))
                else:
                    out.append((UNKNOWN, c2))
            return out
        if isinstance(e, ast.BoolOp):
            is_and = isinstance(e.op, ast.And)
            res = []
            work = [(0, c, False, None)]
            while work:
                i, cc, unk, last = work.pop()
                if i == len(e.values):
                    res.append((UNKNOWN if unk else last, cc))
                    continue
                for v, c2 in self.ev(e.values[i], cc, env):
                    if v is UNKNOWN:
                        res.append((UNKNOWN, c2))
                        work.append((i + 1, c2, True, v))
                    elif bool(v) == is_and:
                        work.append((i + 1, c2, unk, v))
                    else:
                        res.append((UNKNOWN if unk else v, c2))
            return res
        if isinstance(e, ast.Compare) and len(e.ops) == 1:
            out = []
            for l, c1 in self.ev(e.left, c, env):
                for r, c2 in self.ev(e.comparators[0], c1, env):
                    op = e.ops[0]
                    if l is UNKNOWN or r is UNKNOWN:
                        out.append((UNKNOWN, c2))
                        continue
                    try:
                        if isinstance(op, (ast.Is, ast.Eq)):
                            v = (l is r) if isinstance(op, ast.Is) and (l is None or r is None) else (l == r)
                        elif isinstance(op, (ast.IsNot, ast.NotEq)):
                            v = not ((l is r) if isinstance(op, ast.IsNot) and (l is None or r is None) else (l == r))
                        elif isinstance(op, ast.Lt):
                            v = l < r
                        elif isinstance(op, ast.LtE):
                            v = l <= r
                        elif isinstance(op, ast.Gt):
                            v = l > r
                        elif isinstance(op, ast.GtE):
                            v = l >= r
                        else:
                            v = UNKNOWN
                    except TypeError:
                        v = UNKNOWN
                    out.append((v, c2))
            return out
        if isinstance(e, ast.BinOp):
            out = []
            for l, c1 in self.ev(e.left, c, env):
                for r, c2 in self.ev(e.right, c1, env):
                    if isinstance(l, int) and isinstance(r, int) and not isinstance(l, bool) and not isinstance(r, bool):
                        if isinstance(e.op, ast.Add):
                            out.append((l + r, c2))
                            continue
                        if isinstance(e.op, ast.Sub):
                            out.append((l - r, c2))
                            continue
                    out.append((UNKNOWN, c2))
            return out
        if isinstance(e, ast.Subscript):
            out = []
            for v, c1 in self.ev(e.value, c, env):
                if isinstance(v, tuple) and not (v and v[0] in ('state', 'stack')):
                    if isinstance(e.slice, ast.Slice):
                        lo = self._const_index(e.slice.lower, c1, env)
                        hi = self._const_index(e.slice.upper, c1, env)
                        if lo is UNKNOWN or hi is UNKNOWN or e.slice.step is not None:
                            out.append((UNKNOWN, c1))
                        else:
                            out.append((v[lo:hi], c1))
                    else:
                        for i, c2 in self.ev(e.slice, c1, env):
                            if isinstance(i, int) and -len(v) <= i < len(v):
                                out.append((v[i], c2))
                            elif isinstance(i, int):
                                pass            # IndexError: not a run the guards allow (R-PARTIAL-GUARDED covers the guard)
                            else:
                                out.append((UNKNOWN, c2))
                else:
                    out.append((UNKNOWN, c1))
            return out
        if isinstance(e, ast.Tuple):
            states = [([], c)]
            for x in e.elts:
                nxt = []
                for vals, cc in states:
                    for v, c2 in self.ev(x, cc, env):
                        nxt.append((vals + [v], c2))
                states = nxt
            return [(tuple(vals) if all(isinstance(x, ast.Name) for x in e.elts) and all(isinstance(v, str) for v in vals)
                     else UNKNOWN, cc) for vals, cc in states]
        if isinstance(e, ast.IfExp):
            out = []
            for t, c1 in self.ev(e.test, c, env):
                for b in ([True, False] if t is UNKNOWN else [bool(t)]):
                    out.extend(self.ev(e.body if b else e.orelse, c1, env))
            return out
        if isinstance(e, ast.Call):
            return self.ev_call(e, c, env)
        return [(UNKNOWN, c)]

    def _const_index(self, node, c, env):
        if node is None:
            return None
        vals = self.ev(node, c, env)
        if len(vals) == 1 and isinstance(vals[0][0], int):
            return vals[0][0]
        return UNKNOWN

    def ev_call(self, e, c, env):
        fn = e.func
        txt = norm(fn)
        if txt == 'isinstance' and len(e.args) == 2:
            out = []
            for v, c1 in self.ev(e.args[0], c, env):
                classes = e.args[1].elts if isinstance(e.args[1], ast.Tuple) else [e.args[1]]
                names = [x.id for x in classes if isinstance(x, ast.Name)]
                if isinstance(v, Ev) and len(names) == len(classes):
                    out.append((any(v.kind == nm or self.is_subclass(v.kind, nm) for nm in names), c1))
                elif v is None:
                    out.append((False, c1))
                else:
                    out.append((UNKNOWN, c1))
            return out
        if txt == 'len' and len(e.args) == 1:
            return [((len(v) if isinstance(v, tuple) and not (v and v[0] in ('state', 'stack')) else UNKNOWN), c1)
                    for v, c1 in self.ev(e.args[0], c, env)]
        if txt == 'self.events.append' and e.args:
            return [(None, c1.with_(queue=c1.queue + (v,)) if isinstance(v, Ev) else c1) for v, c1 in self.ev(e.args[0], c, env)]
        if txt == 'self.events.pop':
            if not c.queue:
                return []
            idx = 0
            if e.args:
                i = self._const_index(e.args[0], c, env)
                idx = i if isinstance(i, int) else 0
            if idx not in (0, -1):
                raise AnalysisError('emitter model: events.pop(%s)' % idx)
            if idx == 0:
                return [(c.queue[0], c.with_(queue=c.queue[1:]))]
            return [(c.queue[-1], c.with_(queue=c.queue[:-1]))]
        if txt == 'self.states.append' and e.args:
            out = []
            for v, c1 in self.ev(e.args[0], c, env):
                if isinstance(v, tuple) and v and v[0] == 'state':
                    out.append((None, c1.with_(stack=c1.stack + (v[1],))))
                else:
                    raise AnalysisError('emitter model: states.append(%s) not understood' % norm(e.args[0]))
            return out
        if txt == 'self.states.pop':
            if not c.stack:
                return []
            return [(('state', c.stack[-1]), c.with_(stack=c.stack[:-1]))]
        if txt == 'self.state':
            if c.state is None:
                return []
            return self.call(c.state, None, c, env)
        if isinstance(fn, ast.Attribute) and isinstance(fn.value, ast.Name) and fn.value.id == 'self' and fn.attr in self.methods:
            if fn.attr in self.control:
                return self.call(fn.attr, e, c, env)
            # opaque helper (writers, process_*, prepare_*): arguments evaluated for their effects, result unknown; the
            # attributes it reads from the current event must exist on an event of the current kind
            if isinstance(c.cur, Ev):
                self.scan_helper(fn.attr, c.cur.kind)
            cur = None
            if fn.attr == 'write_indicator' and e.args and isinstance(e.args[0], ast.Constant) and isinstance(e.args[0].value, str):
                cur = e.args[0].value.strip()
            elif fn.attr in CONTENT_WRITERS:
                cur = CONTENT_WRITERS[fn.attr]
            elif fn.attr == 'process_anchor' and e.args and isinstance(e.args[0], ast.Constant) and e.args[0].value == '*':
                cur = 'x'           # an alias is always written
            if cur:
                prev = c.last
                if (prev, cur) in FORBIDDEN_SUCCESSION:
                    self.successions.setdefault((prev, cur), (e.lineno, FORBIDDEN_SUCCESSION[(prev, cur)]))
                c = c.with_(last=cur)
        states = [c]
        for a in list(e.args) + [k.value for k in e.keywords]:
            nxt = []
            for cc in states:
                for v, c2 in self.ev(a, cc, env):
                    nxt.append(c2)
            states = nxt
        return [(UNKNOWN, cc) for cc in self._dedupe_c(states)]

    def _dedupe_c(self, cs):
        seen, out = set(), []
        for c in cs:
            if c.key() not in seen:
                seen.add(c.key())
                out.append(c)
        return out

    # ------------------------------------------------------------------ calls / statements
    def call(self, name, call, c, env, _depth=[0]):
        f = self.methods[name]
        params = f.params[1:]
        new = {}
        for p in params:
            d = f.defaults().get(p)
            new[p] = d.value if isinstance(d, ast.Constant) else UNKNOWN
        states = [(new, c)]
        if call is not None:
            for i, a in enumerate(call.args):
                nxt = []
                for ne, cc in states:
                    for v, c2 in self.ev(a, cc, env):
                        e2 = dict(ne)
                        if i < len(params):
                            e2[params[i]] = v
                        nxt.append((e2, c2))
                states = nxt
            for kw in call.keywords:
                nxt = []
                for ne, cc in states:
                    for v, c2 in self.ev(kw.value, cc, env):
                        e2 = dict(ne)
                        e2[kw.arg] = v
                        nxt.append((e2, c2))
                states = nxt
        _depth[0] += 1
        if _depth[0] > 14:
            _depth[0] -= 1
            raise AnalysisError('emitter model: call depth exceeded in %s' % name)
        out = []
        memo = self.__dict__.setdefault('_call_memo', {})
        try:
            for ne, cc in states:
                mk = (name, self._envkey(ne), cc.key())
                try:
                    hit = memo.get(mk)
                except TypeError:
                    mk, hit = None, None
                if hit is None:
                    hit = []
                    for status, c2, e2, val in self.block(f.node.body, cc, ne):
                        if status in ('next', 'return'):
                            hit.append((val if status == 'return' else None, c2))
                        elif status == 'raise':
                            hit.append((Raised, c2))
                    if mk is not None:
                        memo[mk] = hit
                out.extend(hit)
        finally:
            _depth[0] -= 1
        seen, res = set(), []
        for v, c2 in out:
            k = (v if not isinstance(v, (list, dict)) else id(v), c2.key())
            try:
                hash(k)
            except TypeError:
                k = (id(v), c2.key())
            if k not in seen:
                seen.add(k)
                res.append((v, c2))
        return res

    def block(self, stmts, c, env):
        states = [(c, env)]
        results = []
        for st in stmts:
            nxt = []
            for cc, e in states:
                for status, c2, e2, val in self.stmt(st, cc, e):
                    if status == 'next':
                        nxt.append((c2, e2))
                    else:
                        results.append((status, c2, e2, val))
            states = self._dedupe_ce(nxt)
            if not states:
                break
        for cc, e in states:
            results.append(('next', cc, e, None))
        return self._dedupe_res(results)

    def _envkey(self, e):
        return tuple(sorted((a, b if isinstance(b, (int, str, bool, tuple, type(None), Ev)) else 'U') for a, b in e.items()))

    def _dedupe_res(self, results):
        seen, out = set(), []
        for r in results:
            status, c, e, val = r
            vk = val if isinstance(val, (int, str, bool, tuple, type(None), Ev)) else 'U'
            k = (status, c.key(), self._envkey(e), vk)
            try:
                if k in seen:
                    continue
                seen.add(k)
            except TypeError:
                pass
            out.append(r)
        return out

    def _dedupe_ce(self, states):
        seen, out = set(), []
        for c, e in states:
            k = (c.key(), tuple(sorted((a, b if isinstance(b, (int, str, bool, tuple, type(None), Ev)) else 'U') for a, b in e.items())))
            try:
                hash(k)
            except TypeError:
                out.append((c, e))
                continue
            if k not in seen:
                seen.add(k)
                out.append((c, e))
        return out

    def _propagate(self, results, c_env_results):
        return results

    def expr_stmt(self, value_results, env):
        out = []
        for v, c2 in value_results:
            if v is Raised:
                out.append(('raise', c2, env, None))
            else:
                out.append(('next', c2, env, None))
        return out

    def stmt(self, n, c, env):
        return self._dedupe_res(self.stmt_1(n, c, env))

    def stmt_1(self, n, c, env):
        self.tick()
        if isinstance(n, ast.If):
            out = []
            for v, c1 in self.ev(n.test, c, env):
                if v is Raised:
                    out.append(('raise', c1, env, None))
                    continue
                for b in ([True, False] if v is UNKNOWN else [bool(v)]):
                    out.extend(self.block(n.body if b else n.orelse, c1, env))
            return out
        if isinstance(n, ast.While):
            out = []
            work = [(c, env, 0)]
            seen = set()
            while work:
                cc, e, it = work.pop()
                k = (cc.key(), it > 0)
                if k in seen or it > 40:
                    continue
                seen.add(k)
                for v, c1 in self.ev(n.test, cc, e):
                    if v is Raised:
                        out.append(('raise', c1, e, None))
                        continue
                    for b in ([True, False] if v is UNKNOWN else [bool(v)]):
                        if not b:
                            out.append(('next', c1, e, None))
                            continue
                        for status, c2, e2, val in self.block(n.body, c1, e):
                            if status in ('next', 'continue'):
                                work.append((c2, e2, it + 1))
                            elif status == 'break':
                                out.append(('next', c2, e2, None))
                            else:
                                out.append((status, c2, e2, val))
            return out
        if isinstance(n, ast.For):
            out = []
            for itv, c1 in self.ev(n.iter, c, env):
                if not (isinstance(itv, tuple) and not (itv and itv[0] in ('state', 'stack'))) or not isinstance(n.target, ast.Name):
                    # iteration over payload data: the body may run or not; control effects inside are refused
                    if any(isinstance(x, ast.Attribute) and x.attr in ('state', 'states', 'events') for b in n.body for x in ast.walk(b)):
                        raise AnalysisError('emitter model: control effects inside a loop over unknown data (line %d)' % n.lineno)
                    out.append(('next', c1, env, None))
                    continue
                states = [(c1, env)]
                done = []
                for item in itv:
                    nxt = []
                    for cc, e in states:
                        e2 = dict(e)
                        e2[n.target.id] = item
                        for status, c2, e3, val in self.block(n.body, cc, e2):
                            if status in ('next', 'continue'):
                                nxt.append((c2, e3))
                            elif status == 'break':
                                done.append(('next', c2, e3, None))
                            else:
                                done.append((status, c2, e3, val))
                    states = self._dedupe_ce(nxt)
                out.extend(done)
                for cc, e in states:
                    for r in self.block(n.orelse, cc, e):
                        out.append(r)
            return out
        if isinstance(n, ast.Return):
            if n.value is None:
                return [('return', c, env, None)]
            return [(('raise' if v is Raised else 'return'), c1, env, None if v is Raised else v) for v, c1 in self.ev(n.value, c, env)]
        if isinstance(n, ast.Raise):
            return [('raise', c, env, None)]
        if isinstance(n, (ast.Break, ast.Continue)):
            return [('break' if isinstance(n, ast.Break) else 'continue', c, env, None)]
        if isinstance(n, (ast.Pass, ast.Assert, ast.Global, ast.Delete)):
            return [('next', c, env, None)]
        if isinstance(n, ast.Expr):
            return self.expr_stmt(self.ev(n.value, c, env), env)
        if isinstance(n, ast.AugAssign):
            out = []
            for v, c1 in self.ev(n.value, c, env):
                if v is Raised:
                    out.append(('raise', c1, env, None))
                    continue
                e2 = env
                if isinstance(n.target, ast.Name):
                    cur = env.get(n.target.id, UNKNOWN)
                    e2 = dict(env)
                    if isinstance(cur, int) and isinstance(v, int) and isinstance(n.op, (ast.Add, ast.Sub)):
                        e2[n.target.id] = cur + v if isinstance(n.op, ast.Add) else cur - v
                    else:
                        e2[n.target.id] = UNKNOWN
                out.append(('next', c1, e2, None))
            return out
        if isinstance(n, ast.Assign):
            out = []
            for v, c1 in self.ev(n.value, c, env):
                if v is Raised:
                    out.append(('raise', c1, env, None))
                    continue
                e2, c2 = env, c1
                for t in n.targets:
                    if isinstance(t, ast.Name):
                        e2 = dict(e2)
                        e2[t.id] = v
                    elif isinstance(t, ast.Tuple):
                        e2 = dict(e2)
                        for x in t.elts:
                            if isinstance(x, ast.Name):
                                e2[x.id] = UNKNOWN
                    elif isinstance(t, ast.Attribute) and isinstance(t.value, ast.Name) and t.value.id == 'self':
                        if t.attr == 'state':
                            if isinstance(v, tuple) and v and v[0] == 'state':
                                c2 = c2.with_(state=v[1])
                            elif v is None:
                                c2 = c2.with_(state=None)
                            else:
                                raise AnalysisError('emitter model: self.state = %s not understood' % norm(n.value))
                        elif t.attr == 'event':
                            c2 = c2.with_(cur=v if isinstance(v, Ev) else None)
                        elif t.attr == 'events':
                            if isinstance(v, tuple):
                                c2 = c2.with_(queue=v)
                            elif isinstance(n.value, ast.List) and not n.value.elts:
                                c2 = c2.with_(queue=())
                            else:
                                raise AnalysisError('emitter model: self.events = %s not understood' % norm(n.value))
                        elif t.attr == 'states':
                            if isinstance(n.value, ast.List) and not n.value.elts:
                                c2 = c2.with_(stack=())
                            else:
                                raise AnalysisError('emitter model: self.states = %s not understood' % norm(n.value))
                out.append(('next', c2, e2, None))
            return out
        if isinstance(n, ast.Try):
            # the control methods have no handlers today; a try around control code is executed as its body + finalbody
            if n.handlers:
                raise AnalysisError('emitter model: try/except in a control method (line %d)' % n.lineno)
            out = []
            for status, c1, e1, val in self.block(n.body, c, env):
                for status2, c2, e2, val2 in self.block(n.finalbody, c1, e1):
                    out.append((status if status2 == 'next' else status2, c2, e2, val if status2 == 'next' else val2))
            return out
        raise AnalysisError('emitter model: statement %s not supported (line %d)' % (type(n).__name__, n.lineno))

    # ------------------------------------------------------------------ one emit() call
    def emit(self, cfgkey, kind):
        """{'ok': set(config keys), 'raises': bool} for emit(event of `kind`) started in configuration cfgkey."""
        k = (cfgkey, kind)
        if k in self._emit_memo:
            return self._emit_memo[k]
        c = Cfg(*cfgkey)
        f = self.methods['emit']
        env = {f.params[1]: Ev(kind)}
        ok, raises = set(), False
        for status, c2, e2, val in self.block(f.node.body, c, env):
            if status == 'raise':
                raises = True
            else:
                ok.add(c2.key())
        self._emit_memo[k] = (ok, raises)
        return ok, raises


def grammar_sentences(max_len):
    from .rules_grammar import grammar_language
    tc = {k: k for k in KINDS}
    return grammar_language(GRAMMAR, tc, 'stream', max_len)


def r_emitter_grammar(ctx, repo, max_len=7, slack=2):
    rule = ctx.rule('R-EMITTER-GRAMMAR', 'the model of the emitter\'s control (states, continuation stack, look-ahead queue) processes '
                                         'without EmitterError every event-kind sequence of length <= %d that the documented event '
                                         'grammar derives, and raises EmitterError for every complete stream that leaves the grammar '
                                         '(a well-formed prefix, up to %d arbitrary events, STREAM-END)' % (max_len, slack))
    E = repo.cls('emitter.Emitter')
    model = EmitterModel(repo, E)
    init = E.methods.get('__init__')
    start = None
    for n in ast.walk(init.node):
        if isinstance(n, ast.Assign) and any(norm(t) == 'self.state' for t in n.targets) and isinstance(n.value, ast.Attribute):
            start = n.value.attr
    if start is None:
        raise AnalysisError('Emitter.__init__: initial state not found')
    G = grammar_sentences(max_len)
    Gbig = grammar_sentences(max_len + slack + 1)
    if len(G) < 3:
        raise AnalysisError('event grammar yields only %d sentences' % len(G))
    prefixes = set()
    for s in Gbig:
        for i in range(len(s)):
            if i <= max_len - 1:
                prefixes.add(s[:i])
    init_key = ((), None, start, (), None)
    after = {(): frozenset({init_key})}

    def run(seq):
        """configurations reachable after emitting seq without EmitterError (empty: every run raised)."""
        if seq in after:
            return after[seq]
        prev = run(seq[:-1])
        nxt = set()
        for c in prev:
            ok, raises = model.emit(c, seq[-1])
            nxt |= ok
        after[seq] = frozenset(nxt)
        return after[seq]
    missing, extra = [], []
    others = [k for k in KINDS if k != 'StreamEndEvent']
    try:
        for s in sorted(G, key=lambda x: (len(x), x)):
            if not run(s):
                missing.append(s)
        conts = [()]
        layer = [()]
        for _ in range(slack):
            layer = [w + (k,) for w in layer for k in others]
            conts += layer
        for p in sorted(prefixes, key=lambda x: (len(x), x)):
            if not run(p):
                continue
            for w in conts:
                seq = p + w + ('StreamEndEvent',)
                if seq in Gbig:
                    continue
                if run(seq):
                    extra.append(seq)
    except Budget:
        raise AnalysisError('emitter model: exploration budget exhausted')
    ctx.extra['emitter_grammar'] = {'max_len': max_len, 'slack': slack, 'emit_transitions': len(model._emit_memo),
                                    'grammar_sentences': len(G), 'well_formed_prefixes': len(prefixes),
                                    'ill_formed_streams_tried': sum(1 for p in prefixes for w in conts) - 0,
                                    'control_methods': len(model.control)}

    def show(seq):
        return ' '.join(SHORT[k] for k in seq)
    extra.sort(key=lambda x: (len(x), x))
    if extra:
        w = extra[0]
        rule.fail('emitter-grammar|extra|%s' % show(w), E.module.rel, E.node.lineno, E.qualname, 'class Emitter',
                  'the emitter takes ill-formed event streams without an EmitterError, e.g. "%s" (%d such streams found): the '
                  'stream is written out partially or left unprocessed in the look-ahead queue instead of being rejected'
                  % (show(w), len(extra)), inp=show(w))
    if missing:
        w = missing[0]
        rule.fail('emitter-grammar|missing|%s' % show(w), E.module.rel, E.node.lineno, E.qualname, 'class Emitter',
                  'the emitter raises EmitterError on well-formed event streams, e.g. "%s" (%d such streams up to length %d)'
                  % (show(w), len(missing), max_len), inp=show(w))
    for (prev, cur), (line, what) in sorted(model.successions.items()):
        rule.fail('emitter-output|%s|%s' % (prev, cur), E.module.rel, line, E.qualname, 'write_indicator(%r)' % cur,
                  'on some well-formed event stream the emitter writes %s: the text does not parse back' % what)
    for (attr, kind), (line, helper) in sorted(model.attr_errors.items()):
        rule.fail('emitter-attr|%s|%s' % (attr, kind), E.module.rel, line, E.qualname + ('.' + helper if helper else ''),
                  'self.event.%s' % attr,
                  'on some event stream the emitter reads .%s from a %s, which has no such attribute: the caller gets an '
                  'AttributeError where the stream should have been written or rejected with EmitterError' % (attr, SHORT.get(kind, kind)))
    ctx.extra['emitter_grammar']['event_attribute_reads_typed'] = len(model._helper_seen)
    if len(model._helper_seen) < 10:
        raise AnalysisError('emitter model: only %d (helper, event class) pairs were type-checked' % len(model._helper_seen))
    if not extra and not missing:
        rule.ok('%s:%d' % (E.module.rel, E.node.lineno),
                'all %d well-formed streams of length <= %d are processed, all %d ill-formed completions are rejected (%d emit transitions)'
                % (len(G), max_len, ctx.extra['emitter_grammar']['ill_formed_streams_tried'], len(model._emit_memo)))
    return rule
