"""C14 - mappings, merge keys, sets, omaps built by the YAML 1.1 rules (rejection and shape clauses)."""
import sys

from sa import rules_lang as RLNG
from sa import crosslist as XL
from sa import rules_r6b as R6B
from sa import rules_r6 as R6
from sa import report, rules_repr as RR2, rules_confine as RC


def run(ctx, repo):
    ctx.explanation = (
        'Merge precedence and last-key-wins are value semantics of one function and are decided only through the structural '
        'invariants they rest on: flatten_mapping mutates only fresh lists and the node being flattened (so a shared merge '
        'source is never changed) and places merged pairs before own pairs (R-MERGE-SHAPE). Decided is the rejection sentence: '
        'every use of a node as scalar/sequence/mapping/single-pair mapping is dominated by the test whose failure raises '
        'ConstructorError (R-SHAPE-DISPATCH-TOTAL); the dict store is dominated by the hashability test, sets and maps are '
        'filled only through construct_mapping (R-HASHABLE-GUARD); both back-ends share SafeConstructor '
        '(R-LOADER-COMPOSITION). NOT decided: precedence among several merge sources (submerge order), recursion of merges.')
    ctx.trust('CPython ast; sa.cfg dominance')
    ctx.call(RR2.r_shape_dispatch_total, repo)
    ctx.call(RR2.r_hashable_guard, repo)
    ctx.call(RR2.r_merge_shape, repo)
    ctx.call(RC.r_loader_composition, repo, {'loader.SafeLoader': 'constructor.SafeConstructor',
                                        'cyaml.CSafeLoader': 'constructor.SafeConstructor'})
    ctx.call(R6.r_no_mutate_while_iterating, repo, ['constructor'])
    ctx.call(R6.r_kind_exit, repo)
    ctx.call(R6.r_flatten_before_read, repo)
    ctx.call(R6.r_merge_cycle_cut, repo)
    ctx.call(R6B.r_mapping_store_only, repo)
    XL.mapping_rules(ctx, repo)
    ctx.call(R6B.r_constructor_kind_checked, repo, ['loader.SafeLoader'])
    ctx.call(R6B.r_pairs_from_nodes, repo)
    ctx.call(RLNG.o_reference, repo)


if __name__ == '__main__':
    sys.exit(report.main('C14', 'other', run))
