"""C18 - streams are consumed incrementally (laziness-structure clauses)."""
import sys

from sa import crosslist as XL
from sa import rules_r6b as R6B
from sa import report, rules_order as RO, rules_state as RS
from sa import rules_extra as RX

from sa import rules_r12 as R12


def run(ctx, repo):
    ctx.explanation = (
        'Decided: the structural conditions without which no bound on read-ahead exists. The four iterating API functions '
        'are generators that yield one item per check/get step inside try/finally dispose and contain no draining construct '
        '(R-API-GENERATORS, R-ONE-OBJECT-PER-CALL); the reader asks the stream for a constant block only inside its '
        'demand-driven loops and the C input handler passes libyaml\'s size through (R-BOUNDED-READ); tokens are fetched '
        'only while the queue is empty or a simple key is pending, and candidates expire by line and by a character-distance '
        'constant (R-TOKEN-DEMAND); the parser advances one state per request and the document-end production looks at no '
        'token beyond the marker (R-EVENT-DEMAND). NOT decided: the numeric bound "two refill blocks" (a run-time count).')
    ctx.trust('CPython ast; sa.cfg reachability')
    ctx.call(RO.r_api_generators, repo)
    ctx.call(RS.r_one_object_per_call, repo)
    ctx.call(RO.r_bounded_read, repo)
    ctx.call(RO.r_token_demand, repo)
    ctx.call(RO.r_event_demand, repo)
    ctx.call(RX.r_single_read, repo)
    ctx.call(RX.r_dispose_chain, repo, ['loader.BaseLoader', 'loader.SafeLoader', 'loader.FullLoader', 'loader.Loader', 'loader.UnsafeLoader', 'cyaml.CBaseLoader', 'cyaml.CSafeLoader', 'cyaml.CFullLoader', 'cyaml.CLoader', 'cyaml.CUnsafeLoader'])
    ctx.call(RX.r_no_memo, repo)
    ctx.call(R6B.r_assert_inventory, repo, ('scanner', 'parser', 'composer'))
    ctx.call(R6B.r_one_token_per_fetch, repo)
    ctx.call(R6B.r_no_lookahead_at_doc_end, repo)
    ctx.call(R6B.r_bound_method_released, repo, ['parser.Parser', 'scanner.Scanner', 'reader.Reader', 'composer.Composer', 'constructor.BaseConstructor', 'resolver.BaseResolver', 'emitter.Emitter', 'serializer.Serializer', 'representer.BaseRepresenter'])
    ctx.call(R6B.r_read_only_in_update_raw, repo)
    ctx.call(R6B.r_str_input_verbatim, repo)
    ctx.call(R6B.r_doc_end_lookahead, repo)
    ctx.call(R6B.r_need_more_tokens_pure, repo)
    XL.reader_positions(ctx, repo)
    ctx.call(R6B.r_refill_exact, repo)

    ctx.call(R12.r_component_methods_disjoint, repo)

if __name__ == '__main__':
    sys.exit(report.main('C18', 'other', run))
