"""C13 - aliases mean identity, anchors obey the document rules (ordering / guard clauses on py + pyx)."""
import sys

from sa import crosslist as XL
from sa import rules_r6b as R6B
from sa import rules_r6 as R6
from sa import report, rules_order as RO, rules_state as RS
from sa import rules_repr as RREPR
from sa import rules_extra as RX


def run(ctx, repo):
    ctx.explanation = (
        'Decided: the orderings and guards from which "same object exactly for anchor + alias" follows, on the Python '
        'composer/constructor and on the Cython sibling: undefined alias / duplicate anchor are rejected with ComposerError '
        'before use (R-ALIAS-GUARD); a collection is registered under its anchor before its children are composed '
        '(R-ANCHOR-BEFORE-CHILDREN); anchors are per document (R-DOC-RESET); construct_object consults its cache first, '
        'guards recursion, caches on every normal path, releases the recursion mark only after caching, and resumes '
        'generators early only in deep mode (R-CONSTRUCT-CACHE); container constructors are two-phase, children lazily '
        '(R-TWO-PHASE); pending generators are drained before the document is returned (R-GENERATORS-DRAINED). NOT decided: '
        'the identity relation of the result for arbitrary placements (a run-time relation), libyaml\'s alias events.')
    ctx.trust('CPython ast; sa.cfg dominance/post-dominance; sa.pyxfront lowering of _yaml.pyx')
    ctx.call(RO.r_alias_guard, repo)
    ctx.call(RO.r_anchor_before_children, repo)
    ctx.call(RS.r_doc_reset, repo, entries=[e for e in RS.DOC_ENTRIES if e[1] in ('compose_document', '_compose_document',
                                                                             'construct_document')])
    ctx.call(RO.r_construct_cache, repo)
    ctx.call(RO.r_two_phase, repo)
    ctx.call(RO.r_generators_drained, repo)
    ctx.call(RX.r_deep_forwarded, repo)
    ctx.call(RREPR.r_hashable_guard, repo)
    ctx.call(RX.r_two_phase_kept, repo)
    ctx.call(R6.r_compose_via_dispatch, repo)
    ctx.call(R6.r_merge_cycle_cut, repo)
    ctx.call(R6.r_generator_drained, repo)
    ctx.call(R6.r_no_mutate_while_iterating, repo, ['composer', 'constructor'])
    ctx.call(R6B.r_generators_fifo, repo)
    XL.compose_identity(ctx, repo)
    XL.construct_protocol(ctx, repo)
    ctx.call(R6B.r_composer_errors, repo)
    ctx.call(R6B.r_deep_iff_setstate, repo)
    ctx.call(R6B.r_constructed_key_hashing, repo)
    ctx.call(R6B.r_value_chain_visited, repo)


if __name__ == '__main__':
    sys.exit(report.main('C13', 'other', run))
