"""C01 - safe loading is confined to plain data (confinement argument over the program text)."""
import sys

from sa import rules_state as RSTATE
from sa import rules_r10 as R10
from sa import rules_grammar as RG
from sa import crosslist as XL
from sa import rules_r6b as R6B
from sa import rules_r6 as R6
from sa import report, effects as E, partial as P, rules_registry as RR, rules_confine as RC
from sa import rules_repr as RREPR

UNIVERSES = RR.SAFE_LOADERS + RR.BASE_LOADERS


def run(ctx, repo):
    ctx.explanation = (
        'construct_object is the only dispatcher (R-DISPATCH-SELF, R-LOADER-COMPOSITION). Its effective tables in the '
        'six safe/base entry points are closed: the 12 core tags + a None fallback that always raises, no prefix '
        'entries (R-TABLE-CLOSED, R-FALLBACK-RAISES); no registration on another class can reach them, now or by any '
        'later add_* call (R-COW, R-SOLE-WRITER, R-FANOUT, R-REGISTRY-DECL). From the table values, the three kind '
        'defaults and the loader entry points, abstract interpretation of the resolved call graph reaches no import, '
        'name lookup, dynamic call or attribute mutation (R-NO-SINK, with the unsafe universe as positive control), and '
        'every constructed value lies in the allowed type universe (R-RETURN-UNIVERSE), so implicit special-method '
        'calls (hashing a key, set.update) run on builtin types only. The reader/scanner/parser/composer/resolver/'
        'CParser methods the universes inherit are scanned syntactically for the same sinks (R-FRONTEND-NO-SINK).')
    ctx.trust('CPython ast; C3/star-import/registry folding of sa.srcmodel + sa.tables; the closed tables of pure '
              'builtins/stdlib callables and of sink callables in sa.absint; libyaml itself (C code outside the repository)')
    ctx.assume('A-NODE: node.value is a str for scalar nodes and a list of nodes / node pairs for collection nodes '
               '(both composers construct nodes only that way)')
    ctx.assume('user code does not register constructors on the shipped safe classes (excluded by the property statement)')
    ctx.call(RR.r_table_closed, repo, RR.table_groups_safe())
    ctx.call(RC.r_fallback_raises, repo, RR.SAFE_LOADERS)
    ctx.call(RR.r_registry_decl, repo)
    ctx.call(RR.r_cow, repo, only=['yaml_constructors', 'yaml_multi_constructors'])
    ctx.call(RR.r_sole_writer, repo)
    ctx.call(E.r_global_readonly, repo)
    ctx.call(RR.r_fanout, repo)
    ctx.call(RR.r_dispatch_self, repo)
    ctx.call(RC.r_loader_composition, repo, {
        'loader.SafeLoader': 'constructor.SafeConstructor', 'cyaml.CSafeLoader': 'constructor.SafeConstructor',
        'loader.BaseLoader': 'constructor.BaseConstructor', 'cyaml.CBaseLoader': 'constructor.BaseConstructor'})
    ctx.call(RC.r_api_binding, repo, {'safe_load': 'loader.SafeLoader', 'safe_load_all': 'loader.SafeLoader'})
    ctx.call(RC.r_positive_control, repo)
    ctx.call(RC.r_no_sink, repo, UNIVERSES, label='safe')
    ctx.call(RC.r_return_universe, repo, UNIVERSES, RC.SAFE_TAGS, label='safe')
    ctx.call(RC.r_frontend_no_sink, repo, UNIVERSES)
    ctx.call(RC.r_unsafe_only_in_unsafe, repo, UNIVERSES)
    # clause (f): "or raises a YAML error" for malformed scalars under explicit core tags
    reach = set()
    for q in UNIVERSES:
        reach |= set(RC.build_universe(repo, q).summaries)
    ctx.call(P.r_partial_guarded, repo, ['constructor'], rule_id='R-YAML-ERROR-ONLY', skip=lambda f: f not in reach)

    ctx.call(RREPR.r_merge_shape, repo)
    ctx.call(RREPR.r_hashable_guard, repo)
    ctx.call(R6.r_kind_exit, repo)
    ctx.call(R6.r_generator_drained, repo)
    ctx.call(R6B.r_assert_inventory, repo, ('constructor', 'resolver'))
    ctx.call(R6B.r_no_codec_lookup, repo)
    XL.mapping_rules(ctx, repo)
    ctx.call(R6B.r_constructor_kind_checked, repo, ['loader.SafeLoader', 'loader.BaseLoader'])
    ctx.call(RG.r_parser_grammar, repo, max_len=8 if ctx.tier == 'thorough' else 6)
    ctx.call(RSTATE.r_directives_reset, repo)
    ctx.call(R6B.r_recursion_inventory, repo, ('composer', 'constructor', 'resolver'))
    ctx.call(R6B.r_value_chain_visited, repo)
    ctx.call(R6B.r_yamlobject_loaders, repo)
    ctx.call(R10.r_metaclass_own_targets, repo)
    ctx.call(R6B.r_no_module_getattr, repo)


if __name__ == '__main__':
    sys.exit(report.main('C01', 'proof', run))
