"""C01 - safe loading is confined to plain data (confinement argument over the program text)."""
import sys

from sa import report, effects as E, partial as P, rules_registry as RR, rules_confine as RC
from sa import rules_repr as RREPR

UNIVERSES = RR.SAFE_LOADERS + RR.BASE_LOADERS


def run(ctx, repo):
    ctx.explanation = (
        'construct_object is the only dispatcher (R-DISPATCH-SELF, R-LOADER-COMPOSITION). Its effective tables in the '
        'six safe/base entry points are closed: the 12 core tags + a None fallback that always raises, no prefix '
        'entries (R-TABLE-CLOSED, R-FALLBACK-RAISES); no registration on another class can reach them, now or by any '
        'later add_* call (R-COW, R-SOLE-WRITER, R-FANOUT, R-REGISTRY-DECL). From the table values, the three kind '
        'defaults and the loader entry points, abstract interpretation of the resolved call graph reaches no import, '
        'name lookup, dynamic call or attribute mutation (R-NO-SINK, with the unsafe universe as positive control), and '
        'every constructed value lies in the allowed type universe (R-RETURN-UNIVERSE), so implicit special-method '
        'calls (hashing a key, set.update) run on builtin types only. The reader/scanner/parser/composer/resolver/'
        'CParser methods the universes inherit are scanned syntactically for the same sinks (R-FRONTEND-NO-SINK).')
    ctx.trust('CPython ast; C3/star-import/registry folding of sa.srcmodel + sa.tables; the closed tables of pure '
              'builtins/stdlib callables and of sink callables in sa.absint; libyaml itself (C code outside the repository)')
    ctx.assume('A-NODE: node.value is a str for scalar nodes and a list of nodes / node pairs for collection nodes '
               '(both composers construct nodes only that way)')
    ctx.assume('user code does not register constructors on the shipped safe classes (excluded by the property statement)')
    RR.r_table_closed(ctx, repo, RR.table_groups_safe())
    RC.r_fallback_raises(ctx, repo, RR.SAFE_LOADERS)
    RR.r_registry_decl(ctx, repo)
    RR.r_cow(ctx, repo, only=['yaml_constructors', 'yaml_multi_constructors'])
    RR.r_sole_writer(ctx, repo)
    E.r_global_readonly(ctx, repo)
    RR.r_fanout(ctx, repo)
    RR.r_dispatch_self(ctx, repo)
    RC.r_loader_composition(ctx, repo, {
        'loader.SafeLoader': 'constructor.SafeConstructor', 'cyaml.CSafeLoader': 'constructor.SafeConstructor',
        'loader.BaseLoader': 'constructor.BaseConstructor', 'cyaml.CBaseLoader': 'constructor.BaseConstructor'})
    RC.r_api_binding(ctx, repo, {'safe_load': 'loader.SafeLoader', 'safe_load_all': 'loader.SafeLoader'})
    RC.r_positive_control(ctx, repo)
    RC.r_no_sink(ctx, repo, UNIVERSES, label='safe')
    RC.r_return_universe(ctx, repo, UNIVERSES, RC.SAFE_TAGS, label='safe')
    RC.r_frontend_no_sink(ctx, repo, UNIVERSES)
    RC.r_unsafe_only_in_unsafe(ctx, repo, UNIVERSES)
    # clause (f): "or raises a YAML error" for malformed scalars under explicit core tags
    reach = set()
    for q in UNIVERSES:
        reach |= set(RC.build_universe(repo, q).summaries)
    P.r_partial_guarded(ctx, repo, ['constructor'], rule_id='R-YAML-ERROR-ONLY', skip=lambda f: f not in reach)

    RREPR.r_merge_shape(ctx, repo)
    RREPR.r_hashable_guard(ctx, repo)

if __name__ == '__main__':
    sys.exit(report.main('C01', 'proof', run))
