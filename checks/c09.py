"""C09 - tokens and events are grammatical and their positions are true (pairing / ordering / agreement clauses)."""
import sys

from sa import rules_r6b as R6B
from sa import crosslist as XL
from sa import report, rules_marks as RM, rules_read as RD, rules_reader as RR, rules_sibling as RSB
from sa import rules_extra as RX
from sa import rules_grammar as RG

from sa import rules_r12 as R12


def run(ctx, repo):
    ctx.explanation = (
        'That each mark equals the line/column obtained by counting breaks is a run-time equality and is NOT decided. Decided are '
        'the structural facts the clauses rest on: BLOCK-START/BLOCK-END and flow level pairing of the scanner '
        '(R-INDENT-PAIRING); start mark taken before the reader moves, end mark at or after it, for every two-mark token '
        '(R-MARK-ORDER, reaching definitions + dominance); the reader advances line exactly on the characters the scanner '
        'consumes as breaks, CR LF once (R-BREAKSET-AGREEMENT(positions), both sides evaluated per character); index and '
        'pointer advance together and error positions are the implied affine expressions (R-POSITION-ARITHMETIC); KEY inserted '
        'at the recorded token number before VALUE (R-KEY-BEFORE-VALUE); every parser state path makes exactly one next-state '
        'decision and pushes a continuation exactly when it delegates to a node state, marks stack paired '
        '(R-PARSER-STACK-DISCIPLINE - this discharges the A-STACK belief of C03); End events built from peeked tokens are '
        'zero-width (R-EVENT-MARKS); every empty-node decision of the parser tests exactly the FOLLOW set of the documented LL(1) '
        'grammar (R-PARSER-LOOKAHEAD); the simple-key window is 1024 characters (R-SIMPLE-KEY-LIMIT).')
    ctx.trust('CPython ast; sa.cfg reaching definitions and dominance; sa.charworld per-character evaluator')
    ctx.call(RD.r_indent_pairing, repo)
    ctx.call(RM.r_mark_order, repo)
    ctx.call(RM.r_breakset_positions, repo)
    ctx.call(RR.r_positions, repo)
    ctx.call(RM.r_key_before_value, repo)
    ctx.call(RM.r_parser_stack_discipline, repo)
    ctx.call(RM.r_event_marks, repo)
    ctx.call(RSB.r_parser_lookahead, repo)
    ctx.call(RSB.r_simple_key_limit, repo)
    ctx.call(RX.r_mark_from_position, repo)
    ctx.call(RX.r_docmarker_column0, repo)
    ctx.call(RG.r_parser_grammar, repo, max_len=9 if ctx.tier == 'thorough' else 6)

    ctx.call(RX.r_token_ready, repo)
    ctx.call(RX.r_column_per_char, repo)
    XL.scan_reference(ctx, repo)
    XL.reader_positions(ctx, repo)
    ctx.call(R6B.r_error_mark_order, repo)

    ctx.call(R12.r_event_marks_from_tokens, repo)

if __name__ == '__main__':
    sys.exit(report.main('C09', 'other', run))
