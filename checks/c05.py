"""C05 - emitting then parsing returns the same events (error-class, state-machine and agreement clauses)."""
import sys

from sa import crosslist as XL
from sa import rules_state as RSTATE
from sa import rules_r6b as R6B
from sa import rules_r6 as R6
from sa import report, partial as P, rules_read as RD, rules_emit as RE
from sa import rules_extra as RX, rules_opts as RO
from sa import rules_emitgrammar as REG


def emitter_sites(J, s):
    """stack / queue operations and table look-ups of the emitter's own state (not index arithmetic over the scalar text,
    not payload fields of the caller's event objects)."""
    import ast
    from sa.srcmodel import norm
    if s.kind == 'pop':
        return True
    if s.kind == 'sub':
        b = s.node.value
        t = norm(b)
        if t.startswith('self.event.') or t in ('text', 'scalar', 'prefix', 'suffix', 'handle', 'hints', 'data'):
            return False
        return t.startswith('self.')
    return False


def run(ctx, repo):
    ctx.explanation = (
        'Decided: (1) the emitter rejects ill-formed event streams only with EmitterError: every explicit raise of '
        'emitter.py is EmitterError, every state handler positively identifies the event class or raises on every path '
        '(R-EMITTER-RAISE-CLASS, R-STATE-EXHAUSTIVE), partial operations are guarded (R-PARTIAL-GUARDED(emitter)), bytes '
        'iteration is used consistently (R-BYTES-ITER). (2) writer/reader agreement that is visible in literals: escape '
        'tables inverse, numeric escape widths, raw characters printable (R-ESCAPE-INVERSE); characters written raw in '
        'tags/handles/anchors accepted by the scanner (R-TAGCHAR-INCLUSION); plain style / tag elision only under the '
        'implicit flags (R-PLAIN-IMPLIES-IMPLICIT); every break-class literal of the emitter is complete '
        '(R-BREAKSET-AGREEMENT). NOT decided: character-for-character fidelity of the scalar writers (folding, indentation '
        'hints, width), %TAG/%YAML values, simple-key eligibility.')
    ctx.trust('CPython ast, re; sa.cfg; the three-valued constant evaluator of sa.charworld for character predicates')
    ctx.call(RD.r_raise_class, repo, ['emitter'], rule_id='R-EMITTER-RAISE-CLASS', minimum=15,
                     want={'emitter': 'emitter.EmitterError'})
    ctx.call(RE.r_state_exhaustive, repo)
    ctx.call(P.r_partial_guarded, repo, ['emitter'], rule_id='R-PARTIAL-GUARDED(emitter)', indent_pairing_ok=True,
                        site_filter=emitter_sites)
    ctx.assume('A-EVENT-SHAPE: event objects carry well-typed payloads (implicit is a pair for scalars, tags a dict); the '
               'property quantifies over ill-formed event *sequences*, not ill-typed event objects')
    ctx.call(RE.r_bytes_iter, repo)
    ctx.call(RE.r_escape_inverse, repo)
    ctx.call(RE.r_tagchar_inclusion, repo)
    ctx.call(RE.r_plain_implies_implicit, repo)
    ctx.call(RE.r_directive_after_open_ended, repo)
    ctx.call(RE.r_tag_suffix_nonempty, repo)
    ctx.call(RE.r_breakset_agreement, repo, ['emitter'], exceptions={('write_double_quoted', '\x85\u2028\u2029')})
    ctx.assume('write_double_quoted: the always-escape literal omits LF on purpose, LF is excluded by the printable-range test of the same condition')
    ctx.call(RX.r_event_cache_reset, repo)
    ctx.call(RX.r_block_hint_leading, repo)
    ctx.call(RX.r_emitter_doc_reset, repo)
    ctx.call(RX.r_escape_introducer, repo)
    ctx.call(RX.r_fold_leading_space, repo)

    ctx.call(REG.r_emitter_grammar, repo, max_len=8, slack=2 if ctx.tier == 'thorough' else 1)
    ctx.call(R6.r_tag_directive_every_handle, repo)
    ctx.call(RX.r_analyze_special, repo)
    ctx.call(RO.r_option_normalised, repo)
    ctx.call(R6B.r_flow_plain_agree, repo)
    ctx.call(RX.r_simple_key_fits, repo)
    ctx.call(RSTATE.r_directives_reset, repo)
    XL.emit_readable(ctx, repo)


if __name__ == '__main__':
    sys.exit(report.main('C05', 'other', run))
