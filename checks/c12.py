"""C12 - multi-document streams keep their document boundaries (structural clauses of both sides)."""
import sys

from sa import crosslist as XL
from sa import report
from sa import rules_emit as RE, rules_extra as RX, rules_r6b as R6B, rules_r10 as R10, rules_repr as RR2
from sa import rules_grammar as RG, rules_emitgrammar as REG, rules_state as RS, rules_order as RO

from sa import rules_r12 as R12


def run(ctx, repo):
    ctx.explanation = (
        'Decided: the structural conditions on both sides without which documents run together, are split or are dropped. '
        'WRITING: every document after the first is introduced by "---", an explicit end writes "...", an open-ended last '
        'document is closed before the stream ends (R-DOCUMENT-SEPARATORS); the writers of texts that only a document marker '
        'can delimit - a root-level plain scalar, a keep-chomped block scalar - set the open_ended flag (R-ROOT-PLAIN-OPEN-ENDED, '
        'R-KEEP-CHOMP-OPEN-ENDED) and a directive line is written only after an open-ended document was closed '
        '(R-DIRECTIVE-AFTER-OPEN-ENDED); scalars that look like document markers are never written plain '
        '(R-DOC-INDICATOR-SCALARS); the emitter accepts exactly the documented event grammar, including every sequence of '
        'documents up to the bound (R-EMITTER-GRAMMAR); what is written for a document is decided from at most the three '
        'events of look-ahead inside it (R-EMITTER-LOOKAHEAD-TABLE) and the per-document state of emitter, serializer and '
        'representer is reset between documents (R-EMITTER-DOC-RESET, R-DOC-RESET, R-FIRST-DOCUMENT-STATE-ONCE); the serializer '
        'brackets every node graph in exactly one DocumentStart / DocumentEnd pair (R-EVENT-BRACKETS). READING: "---" / "..." '
        'are recognised at column 0 only and end plain / quoted scalars there (R-DOCMARKER-COLUMN0), with the same follow set at every place that tests for a marker (R-DOCMARKER-FOLLOW-AGREE) and through the API of the reader only (R-BUFFER-ENCAPSULATED); the parser accepts exactly '
        'the documented token grammar for streams of several documents (R-PARSER-GRAMMAR), sets directives and tag handles anew '
        'for each document (R-DIRECTIVES-RESET), and a document is delivered without looking at what follows its end marker '
        '(R-NO-LOOKAHEAD-AT-DOC-END); the iterating API functions yield one document per step (R-API-GENERATORS). NOT decided: '
        'equality of each document with its input for every option set (text fidelity of the scalar writers: value-level), '
        'and the behaviour of libyaml\'s own emitter (the empty-root-scalar case named in the property).')
    ctx.trust('CPython ast; sa.cfg reachability; the scenario evaluator of sa.rules_emit (three-valued, constants only); the '
              'pushdown / state-machine models of sa.rules_grammar and sa.rules_emitgrammar')
    ctx.call(R10.r_document_separators, repo)
    ctx.call(R10.r_root_plain_open_ended, repo)
    ctx.call(R10.r_keep_chomp_open_ended, repo)
    ctx.call(RE.r_directive_after_open_ended, repo)
    ctx.call(R6B.r_doc_indicator_scalars, repo)
    ctx.call(REG.r_emitter_grammar, repo, max_len=8 if ctx.tier == 'thorough' else 7, slack=2 if ctx.tier == 'thorough' else 1)
    ctx.call(R6B.r_emitter_lookahead_table, repo)
    ctx.call(RX.r_emitter_doc_reset, repo)
    ctx.call(RS.r_doc_reset, repo)
    ctx.call(R6B.r_first_document_state_once, repo)
    ctx.call(RR2.r_event_brackets, repo)
    ctx.call(RR2.r_no_nondeterminism, repo)
    ctx.call(RX.r_docmarker_column0, repo)
    ctx.call(R10.r_docmarker_follow_agree, repo)
    ctx.call(RX.r_buffer_encapsulated, repo)
    ctx.call(RG.r_parser_grammar, repo, max_len=8 if ctx.tier == 'thorough' else 6)
    ctx.call(RS.r_directives_reset, repo)
    ctx.call(R6B.r_no_lookahead_at_doc_end, repo)
    ctx.call(RO.r_api_generators, repo)

    ctx.call(R12.r_component_methods_disjoint, repo)

if __name__ == '__main__':
    sys.exit(report.main('C12', 'other', run))
