"""C04 - full loading never imports, calls or instantiates what a document names."""
import sys

from sa import report, effects as E, rules_registry as RR, rules_confine as RC
from sa import rules_repr as RREPR
from sa import rules_extra as RX

UNIVERSES = RR.FULL_LOADERS
LOOKUP_OK = {'S-lookup': {'constructor.FullConstructor.find_python_name'}}


def run(ctx, repo):
    ctx.explanation = (
        'Same confinement argument as C01 over the Full universes: effective tables = the 13 safe entries + exactly the 12 '
        'value-like python/* tags + the single prefix python/name: (R-TABLE-CLOSED), the None fallback always raises '
        'ConstructorError, which is what rejects python/object, python/object/new, python/object/apply and python/module '
        '(R-FALLBACK-RAISES). With the constant unsafe=False propagated per universe, abstract interpretation reaches no '
        'import, no dynamic call and no mutation; name lookups occur only in find_python_name (sys.modules[...] read '
        'dominated by the not-imported rejection, hasattr/getattr on that module) - exactly the "existing attributes of '
        'already imported modules" the property allows (R-NO-SINK, R-SYSMODULES-GUARD, R-UNSAFE-FLAG). Constructed values '
        'are the safe universe plus tuple, complex and the looked-up object (R-RETURN-UNIVERSE).')
    ctx.trust('CPython ast; C3/star-import/registry folding of sa.srcmodel + sa.tables; the closed tables of pure '
              'builtins/stdlib callables and of sink callables in sa.absint')
    ctx.assume('A-NODE: node values are str / lists of nodes built by the composers')
    ctx.assume('hashing a looked-up object used as a mapping key (its __hash__) is not counted as calling it')
    RR.r_table_closed(ctx, repo, RR.table_groups_full())
    RC.r_fallback_raises(ctx, repo, UNIVERSES)
    RR.r_registry_decl(ctx, repo)
    RR.r_cow(ctx, repo, only=['yaml_constructors', 'yaml_multi_constructors'])
    RR.r_sole_writer(ctx, repo)
    E.r_global_readonly(ctx, repo)
    RR.r_dispatch_self(ctx, repo)
    RC.r_loader_composition(ctx, repo, {'loader.FullLoader': 'constructor.FullConstructor',
                                        'cyaml.CFullLoader': 'constructor.FullConstructor'})
    RC.r_api_binding(ctx, repo, {'full_load': 'loader.FullLoader', 'full_load_all': 'loader.FullLoader'})
    RC.r_positive_control(ctx, repo)
    RC.r_no_sink(ctx, repo, UNIVERSES, allowed=LOOKUP_OK, label='full')
    RC.r_sysmodules_guard(ctx, repo, UNIVERSES)
    RC.r_return_universe(ctx, repo, UNIVERSES, RC.FULL_TAGS, label='full')
    RC.r_frontend_no_sink(ctx, repo, UNIVERSES)
    RC.r_unsafe_only_in_unsafe(ctx, repo, UNIVERSES)
    RX.r_getattr_chain(ctx, repo)
    RREPR.r_merge_shape(ctx, repo)

if __name__ == '__main__':
    sys.exit(report.main('C04', 'proof', run))
