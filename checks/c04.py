"""C04 - full loading never imports, calls or instantiates what a document names."""
import sys

from sa import rules_state as RSTATE
from sa import rules_r10 as R10
from sa import rules_r6b as R6B
from sa import report, effects as E, rules_registry as RR, rules_confine as RC
from sa import rules_repr as RREPR
from sa import rules_extra as RX

UNIVERSES = RR.FULL_LOADERS
LOOKUP_OK = {'S-lookup': {'constructor.FullConstructor.find_python_name'}}


def run(ctx, repo):
    ctx.explanation = (
        'Same confinement argument as C01 over the Full universes: effective tables = the 13 safe entries + exactly the 12 '
        'value-like python/* tags + the single prefix python/name: (R-TABLE-CLOSED), the None fallback always raises '
        'ConstructorError, which is what rejects python/object, python/object/new, python/object/apply and python/module '
        '(R-FALLBACK-RAISES). With the constant unsafe=False propagated per universe, abstract interpretation reaches no '
        'import, no dynamic call and no mutation; name lookups occur only in find_python_name (sys.modules[...] read '
        'dominated by the not-imported rejection, hasattr/getattr on that module) - exactly the "existing attributes of '
        'already imported modules" the property allows (R-NO-SINK, R-SYSMODULES-GUARD, R-UNSAFE-FLAG). Constructed values '
        'are the safe universe plus tuple, complex and the looked-up object (R-RETURN-UNIVERSE).')
    ctx.trust('CPython ast; C3/star-import/registry folding of sa.srcmodel + sa.tables; the closed tables of pure '
              'builtins/stdlib callables and of sink callables in sa.absint')
    ctx.assume('A-NODE: node values are str / lists of nodes built by the composers')
    ctx.assume('hashing a looked-up object used as a mapping key (its __hash__) is not counted as calling it')
    ctx.call(RR.r_table_closed, repo, RR.table_groups_full())
    ctx.call(RC.r_fallback_raises, repo, UNIVERSES)
    ctx.call(RR.r_registry_decl, repo)
    ctx.call(RR.r_cow, repo, only=['yaml_constructors', 'yaml_multi_constructors'])
    ctx.call(RR.r_sole_writer, repo)
    ctx.call(E.r_global_readonly, repo)
    ctx.call(RR.r_dispatch_self, repo)
    ctx.call(RC.r_loader_composition, repo, {'loader.FullLoader': 'constructor.FullConstructor',
                                        'cyaml.CFullLoader': 'constructor.FullConstructor'})
    ctx.call(RC.r_api_binding, repo, {'full_load': 'loader.FullLoader', 'full_load_all': 'loader.FullLoader'})
    ctx.call(RC.r_positive_control, repo)
    ctx.call(RC.r_no_sink, repo, UNIVERSES, allowed=LOOKUP_OK, label='full')
    ctx.call(RC.r_sysmodules_guard, repo, UNIVERSES)
    ctx.call(RC.r_return_universe, repo, UNIVERSES, RC.FULL_TAGS, label='full')
    ctx.call(RC.r_frontend_no_sink, repo, UNIVERSES)
    ctx.call(RC.r_unsafe_only_in_unsafe, repo, UNIVERSES)
    ctx.call(RX.r_getattr_chain, repo)
    ctx.call(RREPR.r_merge_shape, repo)
    ctx.call(R6B.r_import_result_unused, repo)
    ctx.call(R6B.r_no_codec_lookup, repo)
    ctx.call(R6B.r_constructor_kind_checked, repo, ['loader.FullLoader'])
    ctx.call(RSTATE.r_directives_reset, repo)
    ctx.call(R10.r_lookup_runs_no_code, repo)
    ctx.call(R6B.r_no_import_machinery, repo)
    ctx.call(R6B.r_no_module_getattr, repo)


if __name__ == '__main__':
    sys.exit(report.main('C04', 'proof', run))
