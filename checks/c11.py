"""C11 - every call and every document stands alone (effect / reset clauses)."""
import sys

from sa import rules_r6b as R6B
from sa import rules_repr as RR2
from sa import report, effects as E, rules_state as RS, rules_registry as RR
from sa import rules_extra as RX

from sa import rules_r12 as R12


def run(ctx, repo):
    ctx.explanation = (
        'Decided: the structural reasons why results cannot depend on history. (1) No module- or class-level mutable '
        'container is written during a call, directly or through an alias (R-GLOBAL-READONLY, R-NO-LIVE-ESCAPE; the six '
        'registries only through their copy-on-write add_* owners: R-COW, R-SOLE-WRITER). (2) Every per-document '
        'accumulator of composer, constructor, representer, serializer and of their C siblings is reset after each '
        'document on the normal path (R-DOC-RESET); the parser sets tag handles / version for every document start '
        '(R-DIRECTIVES-RESET); path-resolver descent is bracketed (R-RESOLVER-BRACKET). (3) Each API call builds exactly '
        'one loader/dumper, locally, and disposes it in finally (R-ONE-OBJECT-PER-CALL). NOT decided: equality of the '
        'results themselves across histories, and state inside libyaml structs.')
    ctx.trust('CPython ast; sa.cfg dominance; list of mutating method names (sa.astutil.MUTATORS)')
    ctx.assume('instance state of a loader/dumper dies with the object (one object per API call)')
    ctx.call(E.r_global_readonly, repo)
    ctx.call(E.r_no_live_escape, repo)
    ctx.call(RR.r_cow, repo)
    ctx.call(RR.r_sole_writer, repo)
    ctx.call(RS.r_doc_reset, repo)
    ctx.call(RS.r_directives_reset, repo)
    ctx.call(RS.r_resolver_bracket, repo)
    ctx.call(RS.r_one_object_per_call, repo)
    ctx.call(RX.r_emitter_doc_reset, repo)
    ctx.call(RX.r_no_process_state, repo)
    ctx.call(RX.r_no_memo, repo)
    ctx.call(R6B.r_grown_state_reset, repo, ['emitter.Emitter', 'serializer.Serializer', 'representer.BaseRepresenter', 'composer.Composer', 'constructor.BaseConstructor', 'parser.Parser', 'scanner.Scanner', 'resolver.BaseResolver'])
    ctx.call(R6B.r_instance_writes_class, repo, ['reader', 'scanner', 'parser', 'composer', 'constructor', 'resolver', 'emitter', 'serializer', 'representer'])
    ctx.call(R6B.r_no_module_state, repo)
    ctx.call(R6B.r_option_immutable, repo, ['emitter.Emitter', 'serializer.Serializer', 'representer.BaseRepresenter'])
    ctx.call(R6B.r_no_mutable_default, repo)
    ctx.call(R6B.r_no_import_machinery, repo)
    ctx.call(R6B.r_no_module_getattr, repo)
    ctx.call(R6B.r_per_document_store, repo)
    ctx.call(RR2.r_no_nondeterminism, repo)

    ctx.call(R12.r_class_state_writers_offline, repo)
    ctx.call(R12.r_component_methods_disjoint, repo)

if __name__ == '__main__':
    sys.exit(report.main('C11', 'other', run))
