"""C03 - reading never fails with anything but a YAML error (exception-class, guard and loop-termination clauses)."""
import sys

from sa import rules_r6b as R6B
from sa import rules_r10 as R10
from sa import report, partial as P, rules_read as RD, rules_marks as RM
from sa import rules_lang as RLNG
from sa import rules_reader as RRDR
from sa import rules_extra as RX

FRONT = ['reader', 'scanner', 'parser', 'composer']

from sa import rules_r12 as R12


def run(ctx, repo):
    ctx.explanation = (
        'Decided clauses: (a) every explicit raise reachable in reader/scanner/parser/composer raises a YAMLError subclass, '
        'and the C binding maps libyaml error kinds onto the same classes (R-RAISE-CLASS, R-ERROR-MAP, R-PYX-EXCEPT-CLAUSE); '
        '(b) every partial operation on input-derived data in those modules (int/chr/ord/bytes/decode, dict and list '
        'subscripts, pops, tuple unpacking) is dominated by one of the enumerated guard idioms or rests on a listed structural '
        'belief (R-PARTIAL-GUARDED, R-TOKEN-SHAPES, R-INDENT-PAIRING); (c) termination of the scanner\'s character loops: for '
        'each of them and each class of current character, per-character abstract interpretation shows that an iteration '
        'leaves the loop or consumes input, and that it leaves at the NUL sentinel (R-LOOP-PROGRESS); (d) the sentinel is '
        'appended on every way input ends and every chunk is validated (R-SENTINEL-APPENDED). NOT decided: termination of '
        'the parser/composer recursion (bounded by input depth), interpreter crashes inside libyaml, truth of error positions '
        '(run-time quantities).')
    ctx.trust('CPython ast; sa.cfg dominance; the closed table of partial operations and of guard idioms in sa.partial; '
              'the per-character interpreter of sa.charworld (three-valued, constants only)')
    ok = RD.r_indent_pairing(ctx, repo)
    ctx.call(RD.r_raise_class, repo, FRONT, minimum=46,
                     want={'reader': 'reader.ReaderError', 'scanner': 'scanner.ScannerError',
                           'parser': 'parser.ParserError', 'composer': 'composer.ComposerError'})
    ctx.call(RD.r_raise_class, repo, ['_yaml'], rule_id='R-RAISE-CLASS(pyx)', minimum=20)
    ctx.call(RD.r_error_map, repo)
    ctx.call(RD.r_pyx_except_clause, repo)
    ctx.call(P.r_partial_guarded, repo, FRONT, indent_pairing_ok=ok)
    ctx.call(RD.r_token_shapes, repo)
    ctx.call(RD.r_loop_progress, repo)
    ctx.call(RD.r_sentinel_appended, repo)
    ctx.call(RM.r_breakset_positions, repo)
    ctx.call(RM.r_parser_stack_discipline, repo)
    ctx.call(RX.r_none_deref, repo)
    ctx.call(RRDR.r_lookahead_sufficient, repo)
    ctx.call(RRDR.r_decode_error_index, repo)
    ctx.call(RX.r_buffer_encapsulated, repo)
    ctx.call(RLNG.r_regex_linear, repo)

    ctx.call(RX.r_plain_start_consumed, repo)
    ctx.call(R6B.r_assert_inventory, repo, ('reader', 'scanner', 'parser', 'composer'))
    ctx.call(R6B.r_finally_bound, repo)
    ctx.call(R6B.r_uri_escapes_joined, repo)
    ctx.call(R6B.r_token_value_format, repo)
    ctx.call(R6B.r_recursion_inventory, repo)
    ctx.call(R10.r_dispatch_names_closed, repo, FRONT)
    ctx.call(R10.r_directive_name_exact, repo)

    ctx.call(R12.r_update_postcondition, repo)

if __name__ == '__main__':
    sys.exit(report.main('C03', 'other', run))
