"""C19 - failures of the caller's stream or callbacks pass through (handler inventory)."""
import sys

from sa import rules_r6b as R6B
from sa import report, effects as E, rules_fault as RF, rules_state as RS, rules_read as RD, rules_registry as RR
from sa import rules_extra as RX


def run(ctx, repo):
    ctx.explanation = (
        '"The caller\'s exception arrives unchanged" holds at every interruption point iff no except clause can intercept an '
        'exception that originates in caller-supplied code. Every handler of the package (Python and .pyx) is inventoried: '
        'the may-call closure (name-based over-approximation) of its try body must not reach a stream method, a registered '
        'constructor/representer, the reduction protocol or iteration over a caller iterable, unless the handler re-raises '
        'unchanged; two enumerated, reasoned exceptions; no bare/Exception/BaseException handler (R-NO-FOREIGN-CATCH). The API '
        'entry points have try/finally dispose without except, and dispose cannot itself fail (R-ONE-OBJECT-PER-CALL). Only '
        'read/name and write/flush/encoding of a caller stream are touched, so output is append-only (R-APPEND-ONLY-STREAM). '
        'In the binding every cdef function that can raise declares `except`, and no libyaml failure is dropped '
        '(R-PYX-EXCEPT-CLAUSE). The library is left usable because no class/module-level state is written during a call '
        '(R-GLOBAL-READONLY, R-COW, R-SOLE-WRITER). NOT decided: the prefix property inside libyaml\'s own 16 KiB buffer.')
    ctx.trust('CPython ast; the name-based may-call graph (every method of a given name is a possible callee); the '
              'classification of caller-supplied call sites in sa.rules_fault')
    ctx.call(RF.r_no_foreign_catch, repo)
    ctx.call(RS.r_one_object_per_call, repo)
    ctx.call(RF.r_append_only_stream, repo)
    ctx.call(RD.r_pyx_except_clause, repo)
    ctx.call(E.r_global_readonly, repo)
    ctx.call(RR.r_cow, repo)
    ctx.call(RR.r_sole_writer, repo)
    ctx.call(RX.r_no_process_state, repo)
    ctx.call(RX.r_dispose_chain, repo, ['loader.SafeLoader', 'loader.FullLoader', 'loader.Loader', 'cyaml.CSafeLoader', 'cyaml.CLoader', 'dumper.SafeDumper', 'dumper.Dumper', 'cyaml.CSafeDumper', 'cyaml.CDumper'])
    ctx.call(RX.r_no_generator_around_callback, repo)
    ctx.call(R6B.r_finally_bound, repo)
    ctx.call(R6B.r_no_module_state, repo)
    ctx.call(R6B.r_no_mutable_default, repo)


if __name__ == '__main__':
    sys.exit(report.main('C19', 'proof', run))
