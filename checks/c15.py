"""C15 - dump output honours the formatting options (plumbing / normalisation / funnel clauses)."""
import sys

from sa import report, rules_opts as RO, rules_emit as RE
from sa import rules_extra as RX


def run(ctx, repo):
    ctx.explanation = (
        'Decided: options reach the component that implements them, keyword for keyword, through every API function and all '
        'six dumper classes (R-OPTION-PLUMBING); indent/width/line_break are confined by their guards, checked by evaluating '
        'the guard on probe values (R-OPTION-NORMALISED); CR/LF reach the stream only through write_line_break and a text LF '
        'is never passed through verbatim (R-BREAK-FUNNEL); every write encodes when an encoding is set (R-ENCODE-BEFORE-WRITE); '
        'str/bytes result and BOM selection (R-STREAM-SELECTION); document start/end events are built from the options for '
        'every document, C emitter option mapping (R-DIRECTIVES-FROM-OPTIONS); directives are preceded by "..." after an '
        'open-ended document (R-DIRECTIVE-AFTER-OPEN-ENDED); characters written raw outside scalars are printable ASCII and '
        'accepted by the library\'s own scanner (R-ASCII-RAW, R-TAGCHAR-INCLUSION). NOT decided: indentation of each emitted '
        'line, acceptance of canonical output by an independent parser (value-level).')
    ctx.trust('CPython ast; the constant evaluator of sa.charworld for guards and character predicates')
    RO.r_option_plumbing(ctx, repo)
    RO.r_option_normalised(ctx, repo)
    RO.r_break_funnel(ctx, repo)
    RO.r_encode_before_write(ctx, repo)
    RO.r_stream_selection(ctx, repo)
    RO.r_directives_from_options(ctx, repo)
    RE.r_directive_after_open_ended(ctx, repo)
    RO.r_ascii_unless_unicode(ctx, repo)
    RE.r_tagchar_inclusion(ctx, repo)
    RX.r_analyze_special(ctx, repo)
    RX.r_emitter_doc_reset(ctx, repo)
    RE.r_tag_suffix_nonempty(ctx, repo)
    RX.r_fold_leading_space(ctx, repo)


if __name__ == '__main__':
    sys.exit(report.main('C15', 'other', run))
