"""C15 - dump output honours the formatting options (plumbing / normalisation / funnel clauses)."""
import sys

from sa import crosslist as XL
from sa import rules_r10 as R10
from sa import rules_r6b as R6B
from sa import rules_r6 as R6
from sa import report, rules_opts as RO, rules_emit as RE
from sa import rules_extra as RX


def run(ctx, repo):
    ctx.explanation = (
        'Decided: options reach the component that implements them, keyword for keyword, through every API function and all '
        'six dumper classes (R-OPTION-PLUMBING); indent/width/line_break are confined by their guards, checked by evaluating '
        'the guard on probe values (R-OPTION-NORMALISED); CR/LF reach the stream only through write_line_break and a text LF '
        'is never passed through verbatim (R-BREAK-FUNNEL); every write encodes when an encoding is set (R-ENCODE-BEFORE-WRITE); '
        'str/bytes result and BOM selection (R-STREAM-SELECTION); document start/end events are built from the options for '
        'every document, C emitter option mapping (R-DIRECTIVES-FROM-OPTIONS); directives are preceded by "..." after an '
        'open-ended document (R-DIRECTIVE-AFTER-OPEN-ENDED); characters written raw outside scalars are printable ASCII and '
        'accepted by the library\'s own scanner (R-ASCII-RAW, R-TAGCHAR-INCLUSION). NOT decided: indentation of each emitted '
        'line, acceptance of canonical output by an independent parser (value-level).')
    ctx.trust('CPython ast; the constant evaluator of sa.charworld for guards and character predicates')
    ctx.call(RO.r_option_plumbing, repo)
    ctx.call(RO.r_option_normalised, repo)
    ctx.call(RO.r_break_funnel, repo)
    ctx.call(RO.r_encode_before_write, repo)
    ctx.call(RO.r_stream_selection, repo)
    ctx.call(RO.r_directives_from_options, repo)
    ctx.call(RE.r_directive_after_open_ended, repo)
    ctx.call(RO.r_ascii_unless_unicode, repo)
    ctx.call(RE.r_tagchar_inclusion, repo)
    ctx.call(RX.r_analyze_special, repo)
    ctx.call(RX.r_emitter_doc_reset, repo)
    ctx.call(RE.r_tag_suffix_nonempty, repo)
    ctx.call(RX.r_fold_leading_space, repo)
    ctx.call(R6.r_bom_for_utf16, repo)
    ctx.call(R6.r_tag_directive_every_handle, repo)
    ctx.call(RE.r_escape_inverse, repo)
    ctx.call(R6B.r_option_immutable, repo, ['emitter.Emitter', 'serializer.Serializer', 'representer.BaseRepresenter'])
    ctx.call(RX.r_simple_key_fits, repo)
    XL.emit_readable(ctx, repo)
    ctx.call(R10.r_canonical_no_simple_key, repo)


if __name__ == '__main__':
    sys.exit(report.main('C15', 'other', run))
