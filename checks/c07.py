"""C07 - the result does not depend on how the input is delivered (reader clauses)."""
import sys

from sa import crosslist as XL
from sa import rules_fault as RF
from sa import report, rules_reader as RR, rules_read as RD, rules_order as RO
from sa import rules_extra as RX

from sa import rules_r12 as R12


def run(ctx, repo):
    ctx.explanation = (
        'Equality of results across encodings and chunkings is value-level and NOT decided. Decided are the structural facts in '
        'the reader that are necessary for it: incremental decoding with final=eof, tail kept, append-on-refill, end of input '
        'only on an empty read (R-INCREMENTAL-DECODE); refill guards and amounts cover the largest offset read, incl. the '
        'one-character look-ahead of forward for CR LF (R-LOOKAHEAD-SUFFICIENT, interval reasoning on linear forms); the BOM '
        'test runs only with two bytes or at end of input (R-BOM-NEEDS-TWO, loop condition evaluated on probe buffers); error '
        'positions are the affine expressions implied by the reader invariants (R-POSITION-ARITHMETIC); every chunk is '
        'validated and the sentinel appended whatever the chunking (R-SENTINEL-APPENDED); constant read size '
        '(R-BOUNDED-READ); the C input handler\'s cache arithmetic (R-PYX-INPUT-CACHE).')
    ctx.trust('CPython ast; sa.charworld constant evaluator; linear-form normalisation of index arithmetic')
    ctx.call(RR.r_incremental_decode, repo)
    ctx.call(RR.r_lookahead_sufficient, repo)
    ctx.call(RR.r_bom_needs_two, repo)
    ctx.call(RR.r_positions, repo)
    ctx.call(RD.r_sentinel_appended, repo)
    ctx.call(RO.r_bounded_read, repo)
    ctx.call(RR.r_pyx_input_cache, repo)
    ctx.call(RX.r_decoded_unmodified, repo)
    ctx.call(RX.r_buffer_encapsulated, repo)
    ctx.call(RX.r_stale_snapshot, repo)
    ctx.call(RF.r_append_only_stream, repo)
    XL.reader_positions(ctx, repo)

    ctx.call(R12.r_update_postcondition, repo)

if __name__ == '__main__':
    sys.exit(report.main('C07', 'other', run))
