"""C08 - plain scalars are typed exactly by the YAML 1.1 rules, on load and on dump alike (regular-language obligations)."""
import sys

from sa import rules_registry as RREG
from sa import rules_r6b as R6B
from sa import report, rules_lang as RL, rules_repr as RR2, rules_emit as RE
from sa import rules_extra as RX


def run(ctx, repo):
    ctx.explanation = (
        'The objects are regular expressions and straight-line string code; every obligation is decided for strings of '
        'unbounded length by automata (re._parser -> NFA -> DFA over an alphabet of code-point classes), a failing obligation '
        'carries a shortest witness. O-REFERENCE: each resolver language equals the YAML 1.1 type-repository language; O-FIRST: '
        'first characters covered by the index; O-DISJOINT: no string is typed by two rules; O-TS-INCLUSION: resolver timestamp '
        'inside the constructor regex; O-BOOL-TOTAL: every bool word has a value, merge/value constants agree; '
        'O-CONVERTER-DOMAIN: string abstract interpretation of construct_yaml_int/float shows each int()/float()/[0] argument '
        'language inside the domain of the operation; O-TS-FIELDS: captured groups inside datetime\'s domains; '
        'O-DUMP-SUBSET-LOAD: the language each safe representer writes lies in the language the loader accepts for that tag; '
        'R-RESOLVE-INDEX / R-RESOLVER-SHARED / R-PLAIN-IMPLIES-IMPLICIT: how the languages are consulted on load and dump.')
    ctx.trust('CPython re._parser; the automata library sa.relang; the documented grammars of int()/float() and the output formats '
              'of str(int), repr(float), date/datetime.isoformat (CPython documentation); the YAML 1.1 type repository regexes '
              'transcribed in sa.rules_lang.REFERENCE')
    ctx.assume('`$` is treated as end of string (a plain scalar never ends in a line break)')
    RL.o_reference(ctx, repo)
    RL.o_first(ctx, repo)
    RL.o_disjoint(ctx, repo)
    RL.o_ts_inclusion(ctx, repo)
    RL.o_bool_total(ctx, repo)
    RL.o_converter_domain(ctx, repo)
    RL.o_ts_fields(ctx, repo)
    RL.o_dump_subset_load(ctx, repo)
    ctx.call(RL.r_resolve_index, repo)
    ctx.call(RR2.r_resolver_shared, repo)
    ctx.call(RE.r_plain_implies_implicit, repo)
    L = RL.langs(repo)
    ctx.extra['alphabet_classes'] = L.alpha.n
    ctx.extra['dfa_states'] = {k.split(':')[-1]: v.nstates for k, v in L.dfa.items()}

    ctx.call(RX.r_timestamp_int_fields, repo)

    ctx.call(RX.r_timestamp_exact, repo)
    ctx.call(RL.r_regex_linear, repo)
    ctx.call(R6B.r_no_truncating_zip, repo, ['constructor', 'resolver', 'representer'])
    ctx.call(RREG.r_cow, repo, only=['yaml_implicit_resolvers'])
    ctx.call(R6B.r_merge_by_tag, repo)
    ctx.call(R6B.r_tz_sign_compared, repo)


if __name__ == '__main__':
    sys.exit(report.main('C08', 'proof', run))
