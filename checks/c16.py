"""C16 - dumping is deterministic and stable (nondeterminism-source clauses)."""
import sys

from sa import rules_registry as RREG
from sa import crosslist as XL
from sa import rules_r6b as R6B
from sa import report, rules_repr as RR2, rules_state as RS, rules_opts as RO
from sa import rules_extra as RX
from sa import effects as EFF
from sa import rules_order as ROR

from sa import rules_r12 as R12


def run(ctx, repo):
    ctx.explanation = (
        'dump(load(dump(x))) == dump(x) is relational over runs and is NOT decided. Decided: nothing on the dump path consults '
        'a source of run-to-run variation and id() is only the alias key (R-NO-NONDETERMINISM); items are sorted with sorted() '
        'exactly when sort_keys is set, the TypeError fall-back leaves insertion order, sets go through the same gate '
        '(R-SORT-GATE); sort_keys reaches the representer (R-OPTION-PLUMBING); anchor names are a template of a per-document '
        'counter that is reset after each document (R-NO-NONDETERMINISM, R-DOC-RESET); loading inserts in document order '
        '(R-INSERTION-ORDER-LOAD).')
    ctx.trust('CPython ast')
    ctx.call(RR2.r_no_nondeterminism, repo)
    ctx.call(RR2.r_sort_gate, repo)
    ctx.call(RO.r_option_plumbing, repo)
    ctx.call(RS.r_doc_reset, repo, entries=[e for e in RS.DOC_ENTRIES if e[0] in ('serializer.Serializer', '_yaml.CEmitter',
                                                                             'representer.BaseRepresenter')])
    ctx.call(RR2.r_insertion_order_load, repo)

    # dump(load(dump(x))) == dump(x) needs the loader to give back the sharing the first dump wrote as anchors/aliases:
    # one object per node, whatever its kind
    ctx.call(ROR.r_construct_cache, repo)

    ctx.call(EFF.r_global_readonly, repo)
    ctx.call(RX.r_no_memo, repo)
    ctx.call(R6B.r_option_immutable, repo, ['emitter.Emitter', 'serializer.Serializer', 'representer.BaseRepresenter'])
    ctx.call(R6B.r_mapping_store_only, repo)
    XL.mapping_rules(ctx, repo)
    ctx.call(R6B.r_tag_handles_sorted, repo)
    ctx.call(RREG.r_cow, repo, only=['yaml_implicit_resolvers'])
    ctx.call(RREG.r_cow, repo)
    ctx.call(RX.r_timestamp_exact, repo)
    ctx.call(RO.r_option_normalised, repo)

    ctx.call(R12.r_class_state_writers_offline, repo)

if __name__ == '__main__':
    sys.exit(report.main('C16', 'other', run))
