"""C17 - Python objects survive dump / unsafe load as pickle (vocabulary-agreement clauses)."""
import sys

from sa import crosslist as XL
from sa import rules_r6b as R6B
from sa import rules_r10 as R10
from sa import rules_r6 as R6
from sa import report, rules_repr as RR2, rules_registry as RR, rules_order as RO
from sa import rules_extra as RX


def run(ctx, repo):
    ctx.explanation = (
        'Equality with what pickle protocol 2 rebuilds is value-level over arbitrary classes and is NOT decided. Decided: writer '
        'and reader speak the same protocol - every tag or tag prefix Representer can emit has an entry in the tables of the '
        'unsafe loaders accepting the node kind written (R-TAG-VOCAB-PYTHON); the state keys written are keys read, list items '
        'are applied by extend and dict items by item assignment, constructor arguments are built deep (R-FIELD-VOCAB); both halves of a (dict, slots) state pair are applied on every '
        'path of set_python_instance_state (R-STATE-APPLIED, a must-use dataflow rule); of '
        'those tags exactly tuple/complex/name are in the Full tables (R-TABLE-CLOSED(Full)); alias keys are ids of kept-alive '
        'objects (R-ALIAS-KEY); the recursion guard that turns cycles through arguments/__setstate__ into ConstructorError '
        '(R-CONSTRUCT-CACHE).')
    ctx.trust('CPython ast; sa.tables registry folding')
    ctx.call(RR2.r_tag_vocab, repo, ['dumper.Dumper', 'cyaml.CDumper'], ['loader.UnsafeLoader', 'loader.Loader',
                                                                     'cyaml.CUnsafeLoader', 'cyaml.CLoader'], 'R-TAG-VOCAB-PYTHON')
    ctx.call(RR2.r_field_vocab, repo)
    ctx.call(RR2.r_state_applied, repo)
    ctx.call(RR.r_table_closed, repo, RR.table_groups_full() + [
        ('unsafe', RR.UNSAFE_LOADERS, RR.CORE_TAGS | {None} | RR.FULL_EXTRA, RR.UNSAFE_MULTI)])
    ctx.call(RR2.r_alias_key, repo)
    ctx.call(RO.r_construct_cache, repo)
    ctx.call(RX.r_newobj_form, repo)
    ctx.call(RX.r_dict_state_direct, repo)
    ctx.call(RX.r_setstate_unconditional, repo)
    ctx.call(RX.r_alias_key_fresh, repo)
    ctx.call(R6.r_generator_drained, repo)
    ctx.call(R6B.r_import_result_unused, repo)
    ctx.call(R10.r_complex_text_loads, repo)
    ctx.call(R6B.r_generators_fifo, repo)
    ctx.call(R6B.r_multi_representer_set, repo)
    XL.construct_protocol(ctx, repo)
    ctx.call(R6B.r_deep_iff_setstate, repo)
    ctx.call(R6B.r_reduce_exact_type, repo)
    ctx.call(RX.r_getattr_chain, repo)
    ctx.call(R6B.r_state_keys_safe_only, repo)
    ctx.call(R6B.r_apply_state_if_present, repo)


if __name__ == '__main__':
    sys.exit(report.main('C17', 'other', run))
