"""C10 - customising one loader or dumper class never changes another (inductive ownership invariant)."""
import sys

from sa import rules_sibling as RSB
from sa import rules_r6b as R6B
from sa import rules_r10 as R10
from sa import rules_r6 as R6
from sa import report, effects as E, rules_registry as RR
from sa import rules_extra as RX

from sa import rules_r12 as R12


def run(ctx, repo):
    ctx.explanation = (
        'Invariant I: every registry object is referenced from exactly one class __dict__ (and, for '
        'yaml_implicit_resolvers, every value list from exactly one registry). I holds initially (R-REGISTRY-DECL), '
        'is preserved by each of the add_* classmethods on every path (R-COW incl. copy depth), nothing else writes a '
        'registry (R-SOLE-WRITER), registrations made by the library itself target only the given or documented '
        'classes (R-FANOUT), and every dispatcher reads the tables through self (R-DISPATCH-SELF). By induction over '
        'any history of registrations and subclass definitions a registration on C is visible exactly in C and in '
        'subclasses that still inherit the table.')
    ctx.trust('CPython ast; the C3 linearisation and __all__/star-import resolution of sa.srcmodel; '
              'the list of mutating method names in sa.astutil.MUTATORS')
    ctx.assume('no code outside lib/yaml and yaml/_yaml.pyx writes the registries (user code is the subject of the histories)')
    ctx.call(RR.r_registry_decl, repo)
    ctx.call(RR.r_cow, repo)
    ctx.call(RR.r_sole_writer, repo)
    ctx.call(E.r_global_readonly, repo)
    ctx.call(RR.r_fanout, repo)
    ctx.call(RR.r_dispatch_self, repo)
    rm = RR.model(repo)
    ctx.extra['registries'] = {n: [w.func.qualname for w in r.writers] for n, r in rm.regs.items()}
    ctx.extra['registrations_folded'] = len(rm.registrations)
    ctx.call(RX.r_cow_all_paths, repo)
    ctx.call(R6.r_cow_minimal, repo)
    ctx.call(R6B.r_yamlobject_registers_all, repo)
    ctx.call(R10.r_metaclass_own_targets, repo)
    ctx.call(RSB.r_class_composition, repo)
    ctx.call(R6B.r_yamlobject_loaders, repo)
    ctx.call(R12.r_class_state_writers_offline, repo)


if __name__ == '__main__':
    sys.exit(report.main('C10', 'proof', run))
