"""C06 - the LibYAML back-end is a drop-in replacement (binding-side sibling clauses + grammar oracle for the Python side)."""
import sys

from sa import crosslist as XL
from sa import rules_r6b as R6B
from sa import report, rules_sibling as RSB, rules_read as RD, rules_opts as RO, rules_order as RO2
from sa import rules_state as RSTATE
from sa import rules_extra as RX
from sa import rules_lang as RLANG
from sa import rules_grammar as RG
from sa import rules_reader as RRD


def run(ctx, repo):
    ctx.explanation = (
        'Equality of tokens/events/objects between libyaml\'s C scanner and the Python scanner is behaviour of C code that is '
        'not in the repository and is NOT decided. Decided is what the repository contains: the binding re-implements '
        'composer, serializer and the token/event codecs, which must agree with their Python siblings (Engler/Min '
        'cross-checking) - class composition of the 8 loader/dumper pairs (R-CLASS-COMPOSITION); one codec branch per libyaml '
        'enum member building the homonymous class, style constants consistent in all decode/encode places '
        '(R-CODEC-EXHAUSTIVE); composer and serializer feature signatures equal (R-COMPOSER-SIBLING, R-SERIALIZER-SIBLING); '
        'error kinds mapped to the same classes, failures never dropped (R-ERROR-MAP, R-PYX-EXCEPT-CLAUSE); options plumbed '
        'identically (R-OPTION-PLUMBING). For the Python side, two oracles that libyaml is known to follow: the documented LL(1) '
        'event grammar (FOLLOW sets computed by the checker, compared with every empty-node decision of parser.py: '
        'R-PARSER-LOOKAHEAD) and the 1024-character simple-key window (R-SIMPLE-KEY-LIMIT).')
    ctx.trust('CPython ast; sa.pyxfront lowering; the event grammar transcribed from the header of lib/yaml/parser.py')
    ctx.assume('A-LIBYAML: libyaml implements the same documented grammar and the 1024-character simple key limit')
    ctx.call(RSB.r_class_composition, repo)
    ctx.call(RSB.r_codec_exhaustive, repo)
    ctx.call(RSB.r_composer_sibling, repo)
    ctx.call(RSB.r_serializer_sibling, repo)
    ctx.call(RD.r_error_map, repo)
    ctx.call(RD.r_pyx_except_clause, repo)
    ctx.call(RO.r_option_plumbing, repo)
    ctx.call(RSB.r_parser_lookahead, repo)
    ctx.call(RSB.r_simple_key_limit, repo)
    ctx.call(RX.r_docmarker_column0, repo)
    # both back-ends must agree on what ends the input: libyaml's read handler contract is "0 bytes read"; the Python
    # reader must likewise declare end of input only on an empty read (a short read is not the end)
    ctx.call(RRD.r_incremental_decode, repo)
    ctx.call(RG.r_parser_grammar, repo, max_len=8 if ctx.tier == 'thorough' else 6)

    ctx.call(RSTATE.r_directives_reset, repo)
    # the LibYAML composer hands the event's (plain, quoted) flags to resolve() unchanged; so must the Python composer
    ctx.call(RLANG.r_resolve_index, repo)
    ctx.call(R6B.r_uri_escapes_joined, repo)
    ctx.call(RX.r_analyze_special, repo)
    ctx.call(RO.r_ascii_unless_unicode, repo)
    XL.emit_readable(ctx, repo)
    XL.scan_reference(ctx, repo)
    XL.reader_positions(ctx, repo)
    XL.compose_identity(ctx, repo)


if __name__ == '__main__':
    sys.exit(report.main('C06', 'other', run))
