"""C02 - round trip of safe dump / safe load (agreement and pairing clauses only)."""
import sys

from sa import rules_lang as RLNG
from sa import crosslist as XL
from sa import rules_r6b as R6B
from sa import report, rules_repr as RR2, rules_emit as RE, rules_order as RO, rules_registry as RR
from sa import rules_extra as RX


def run(ctx, repo):
    ctx.explanation = (
        'Round-trip equality is a statement about run-time values and is NOT decided. Decided are agreement/pairing clauses, '
        'each a necessary condition: the safe dumpers represent exactly the safe type universe, and every tag they write has a '
        'constructor of SafeLoader/CSafeLoader that accepts the node kind written (R-TAG-VOCAB-SAFE); dumpers and loaders share '
        'one implicit-resolver table and the serializers compute the implicit flags with it (R-RESOLVER-SHARED); plain style / '
        'tag elision only under those flags (R-PLAIN-IMPLIES-IMPLICIT); escape tables inverse, numeric escapes agree, raw '
        'characters printable (R-ESCAPE-INVERSE); tag/anchor characters written raw are accepted by the scanner '
        '(R-TAGCHAR-INCLUSION); break-class literals of the emitter complete (R-BREAKSET-AGREEMENT); document and collection '
        'events bracket, nodes marked before children (R-EVENT-BRACKETS); alias keys are ids of kept-alive objects and only '
        'immutable atoms are exempt from anchoring (R-ALIAS-KEY); container constructors are two-phase and lazy, so shared and '
        'self-referential containers can be rebuilt (R-TWO-PHASE, R-CONSTRUCT-CACHE).')
    ctx.trust('CPython ast; sa.tables registry folding; sa.charworld constant evaluator')
    ctx.call(RR2.r_tag_vocab, repo, RR.SAFE_DUMPERS, RR.SAFE_LOADERS, 'R-TAG-VOCAB-SAFE', exact_types=RR2.SAFE_TYPES)
    ctx.call(RR2.r_resolver_shared, repo)
    ctx.call(RE.r_plain_implies_implicit, repo)
    ctx.call(RE.r_escape_inverse, repo)
    ctx.call(RE.r_tagchar_inclusion, repo)
    ctx.call(RE.r_breakset_agreement, repo, ['emitter'], exceptions={('write_double_quoted', '\x85\u2028\u2029')})
    ctx.call(RR2.r_event_brackets, repo)
    ctx.call(RR2.r_alias_key, repo)
    ctx.call(RO.r_two_phase, repo)
    ctx.call(RO.r_construct_cache, repo)
    ctx.call(RX.r_simple_key_fits, repo)
    ctx.call(RX.r_block_hint_leading, repo)
    ctx.call(RX.r_analyze_special, repo)
    ctx.call(RX.r_timestamp_exact, repo)
    ctx.call(RX.r_alias_key_fresh, repo)
    ctx.call(RX.r_escape_introducer, repo)
    ctx.call(RX.r_fold_leading_space, repo)
    ctx.call(R6B.r_flow_plain_agree, repo)
    XL.emit_readable(ctx, repo)
    XL.construct_protocol(ctx, repo)
    XL.mapping_rules(ctx, repo)
    XL.compose_identity(ctx, repo)
    ctx.call(RLNG.o_dump_subset_load, repo)
    ctx.call(RLNG.o_ts_inclusion, repo)
    XL.scan_reference(ctx, repo)
    ctx.call(R6B.r_tz_sign_compared, repo)
    ctx.call(RLNG.r_resolve_index, repo)


if __name__ == '__main__':
    sys.exit(report.main('C02', 'other', run))
